"""Models needed by the grammar contracts (C15): collections.abc mixin methods of the repository's
Mapping / MutableMapping / MutableSet classes, opaque *type objects* as values, message builders.

Everything here models CPython semantics (``_collections_abc.py``) of methods the gemseo classes
inherit and do not define themselves.  The mixins that are loops over the class' own primitive methods
(``MutableSet.__ior__`` = ``for v in it: self.add(v)`` ...) are *summarised* over the fields of the two
gemseo classes they are used on (RequiredNames, Defaults); the primitives they are made of (``add``,
``discard``, ``__setitem__``, ``__delitem__``, ``__contains__``, ``__iter__``) are verified against the same
field-level reading in contracts/c15_grammars.py, the summaries themselves are an assumption of C15.
"""
from __future__ import annotations

import z3

from . import contract as C
from . import source as S
from .values import (BoundMethod, BuiltinV, ClassV, DictObj, ListObj, PyObj, Ref, SetObj, SV, TBool, TDict, TInt, TList, TObj, TSet, TStr, TVal,
                     Unsupported, ValS, val_none)

G = "gemseo.core.grammars."
RN = G + "required_names.RequiredNames"
DF = G + "defaults.Defaults"
BG = G + "base_grammar.BaseGrammar"
MLS = "gemseo.utils.string_tools.MultiLineString"

# isinstance(value, type_object) for opaque values and opaque type objects; "is a type object"
is_instance = z3.Function("py_isinstance", ValS, ValS, z3.BoolSort())
is_type = z3.Function("py_is_type", ValS, z3.BoolSort())
type_of = z3.Function("py_type_of", ValS, ValS)


str_contains = z3.Function("str_contains", TStr.sort(), TStr.sort(), z3.BoolSort())  # str_contains(s, sub): `sub in s`


def type_const(name: str):
    """The Val standing for a builtin / external class object (dict, numpy.ndarray, collections.abc.Mapping...)."""
    return z3.Const("val_const_" + name.replace(".", "_"), ValS)


def _is_val(v):
    return isinstance(v, SV) and v.ty.sort() == ValS


def as_val(ex, v):
    """Val term of a value that can be stored in a ``TVal`` slot here (opaque values, None, class objects)."""
    if _is_val(v):
        return v.term
    if v is None:
        return val_none
    if isinstance(v, BuiltinV):
        return type_const(v.name)
    if isinstance(v, ClassV):
        return type_const(v.qualname)
    return None


def _cls_of(ex, v):
    if isinstance(v, Ref):
        o = ex.st.heap[v.id]
        if isinstance(o, PyObj):
            return o
    return None


def _is_mapping_cls(cls):
    return any(q.rsplit(".", 1)[-1] in ("Mapping", "MutableMapping", "StrKeyMapping", "MutableStrKeyMapping") for q in S.mro(cls))


def _is_mutable_set_cls(cls):
    return any(q.rsplit(".", 1)[-1] == "MutableSet" for q in S.mro(cls))


def _names_of_grammar(ex, gref):
    """The element-name dictionary behind ``name in grammar`` for the grammar a RequiredNames is bound to
    (through the contract of the grammar's ``__getitem__``: KeyError iff the name is no key)."""
    o = ex.st.heap[gref.id]
    for f, v in o.fields.items():
        if f.endswith("__names_to_types"):
            return ex.st.heap[v.id]
    raise Unsupported(f"grammar class {o.cls} without a names_to_types field")


class MsgBuilder:
    """A MultiLineString under construction: message text is dropped by the extraction (DESIGN §2.2)."""


class GrammarModels:
    # ------------------------------------------------------------------ message builders
    def construct(self, ex, cv, args, kwargs, lineno):
        if cv.qualname == MLS:
            return BuiltinV("msgbuilder")
        return NotImplemented

    # ------------------------------------------------------------------ Mapping mixins
    def contains(self, ex, cont, item, lineno):
        """``Mapping.__contains__``: try self[key] / except KeyError."""
        from .engine import PyRaise

        if (isinstance(cont, SV) and cont.ty == TStr) and (isinstance(item, str) or (isinstance(item, SV) and item.ty == TStr)):
            # substring test on an opaque string: uninterpreted
            return SV(str_contains(cont.term, TStr.embed(ex.st, item)), TBool)
        o = _cls_of(ex, cont)
        if o is None or not _is_mapping_cls(o.cls) or S.find_method(o.cls, "__contains__") is not None:
            return NotImplemented
        getitem = S.find_method(o.cls, "__getitem__")
        if getitem is None:
            return NotImplemented
        try:
            ex.call_repo(getitem, [cont, item], {}, lineno)
        except PyRaise as e:
            if e.cls.rsplit(".", 1)[-1] == "KeyError":
                return False
            raise
        return True

    def pyobj_attr(self, ex, ref, o, attr, lineno):
        if attr in ("keys", "items", "values", "get") and _is_mapping_cls(o.cls):
            return BoundMethod(ref, None, f"mapping.{attr}")
        if attr in ("pop", "update") and _is_mapping_cls(o.cls):
            return BoundMethod(ref, None, f"mmapping.{attr}")
        if attr in ("remove", "clear", "__ior__", "__iand__") and _is_mutable_set_cls(o.cls):
            return BoundMethod(ref, None, f"mset.{attr}")
        return NotImplemented

    def call_method(self, ex, recv, name, args, kwargs, lineno):
        st = ex.st
        if isinstance(recv, BuiltinV) and recv.name == "msgbuilder":
            return None
        o = _cls_of(ex, recv)
        if o is None:
            return NotImplemented
        if name in ("mapping.keys", "mapping.items", "mapping.values") and S.is_subclass(o.cls, BG):
            # KeysView/ItemsView/ValuesView(self) of a grammar: iteration = self.__iter__(), values = self[key], membership = key in self
            # (for keys(): the view of the dictionary __iter__ iterates; __getitem__'s contract makes `in` agree with it)
            from .engine import IterV
            from .models import DictView

            r = ex.call_repo(S.find_method(o.cls, "__iter__"), [recv], {}, lineno)
            src = getattr(r, "source_dict", None)
            if not isinstance(r, IterV) or src is None:
                return NotImplemented
            if name == "mapping.keys":
                return DictView(src, "keys")
            getitem = S.find_method(o.cls, "__getitem__")
            if name == "mapping.items":
                seq = IterV(r.n, lambda i: (r.elem(i), ex.call_repo(getitem, [recv, r.elem(i)], {}, lineno)), concrete=r.concrete)
            else:
                seq = IterV(r.n, lambda i: ex.call_repo(getitem, [recv, r.elem(i)], {}, lineno), concrete=r.concrete)
            seq.keys, seq.pos = r.keys, r.pos
            return seq
        if o.cls == DF:
            data = o.fields["_Defaults__data"]
            d = st.heap[data.id]
            if name in ("mapping.keys", "mapping.items", "mapping.values"):
                # views over Defaults: __iter__ = iter(self.__data), __getitem__ = self.__data[key]
                return ex.models.dict_method(ex, data, d, name[8:], args, kwargs, lineno)
            if name == "mapping.get":
                return ex.models.dict_method(ex, data, d, "get", args, kwargs, lineno)
            if name == "mmapping.pop":
                # MutableMapping.pop: try: v = self[key] except KeyError: default / else: del self[key]; return v
                return ex.models.dict_method(ex, data, d, "pop", args, kwargs, lineno)
            if name == "mmapping.update":
                return self._defaults_update(ex, recv, o, args, kwargs, lineno)
        if o.cls == RN and name.startswith("mset."):
            return self._required_names_mixin(ex, recv, o, name[5:], args, lineno)
        return NotImplemented

    def _defaults_update(self, ex, recv, o, args, kwargs, lineno):
        """MutableMapping.update(other): ``for key in other: self[key] = other[key]`` with Defaults.__setitem__
        (KeyError for a key that is no element name, then the remaining keys are not set)."""
        from .engine import PyRaise

        st = ex.st
        other = args[0]
        oo = _cls_of(ex, other)
        if oo is not None and oo.cls == DF:
            other = oo.fields["_Defaults__data"]
        if not isinstance(other, Ref) or not isinstance(st.heap[other.id], DictObj):
            raise Unsupported(f"Defaults.update({other!r})")
        b = st.heap[other.id]
        if b.is_empty_literal:
            return None
        names = _names_of_grammar(ex, o.fields["_Defaults__grammar"])
        d = st.heap[o.fields["_Defaults__data"].id]
        k = z3.Const("k!du", TStr.sort())
        all_known = z3.ForAll([k], z3.Implies(b.member[k], names.member[k]))
        ok = st.decide(all_known)
        if ok:
            ex.models._dict_update(ex, d, other, lineno)
            ex.writeback(d)
            return None
        # a prefix of the keys was set before the KeyError
        new = st.heap[TDict(d.k, d.v).fresh(st, "partial_defaults").id]
        st.assume(z3.ForAll([k], z3.And(z3.Implies(d.member[k], new.member[k]), z3.Implies(new.member[k], z3.Or(d.member[k], z3.And(b.member[k], names.member[k]))),
                                        z3.Implies(z3.And(new.member[k], z3.Not(b.member[k])), new.vals[k] == d.vals[k]))))
        d.member, d.vals, d.n = new.member, new.vals, new.n
        raise PyRaise("KeyError", lineno)

    def _required_names_mixin(self, ex, recv, o, name, args, lineno):
        from .engine import PyRaise

        st = ex.st
        s = st.heap[o.fields["_RequiredNames__names"].id]
        if name == "remove":
            # if value not in self: raise KeyError ; self.discard(value)
            kt = TStr.embed(st, args[0])
            if s.is_empty_literal or not st.decide(s.member[kt]):
                raise PyRaise("KeyError", lineno)
            ex.models.set_method(ex, o.fields["_RequiredNames__names"], s, "discard", args, {}, lineno)
            return None
        if name == "clear":
            # while True: self.pop()  (pop = next(iter(self)) ; self.discard(value)) until KeyError
            ex.models.set_method(ex, o.fields["_RequiredNames__names"], s, "clear", [], {}, lineno)
            return None
        names = _names_of_grammar(ex, o.fields["_RequiredNames__grammar"])
        k = z3.Const("k!rq", TStr.sort())
        if name == "__ior__":
            # for value in it: self.add(value)   (add: KeyError for a name that is no element name)
            if s.is_empty_literal:
                s.k, s.member, s.is_empty_literal = TStr, z3.K(TStr.sort(), z3.BoolVal(False)), False
            mb = ex.models._iter_member(ex, args[0], TStr)
            if st.decide(z3.ForAll([k], z3.Implies(mb[k], names.member[k]))):
                ex.models.set_method(ex, o.fields["_RequiredNames__names"], s, "update", args, {}, lineno)
                return recv
            new = st.heap[TSet(TStr).fresh(st, "partial_required").id]
            st.assume(z3.ForAll([k], z3.And(z3.Implies(s.member[k], new.member[k]), z3.Implies(new.member[k], z3.Or(s.member[k], z3.And(mb[k], names.member[k]))))))
            s.member, s.n = new.member, new.n
            raise PyRaise("KeyError", lineno)
        if name == "__iand__":
            # for value in (self - it): self.discard(value)
            # self - it = self._from_iterable(v for v in self if v not in other) -> RequiredNames(grammar, ...) checks the names:
            # KeyError when a required name outside `it` is no element name
            mb = ex.models._iter_member(ex, args[0], TStr)
            if s.is_empty_literal:
                return recv
            if not st.decide(z3.ForAll([k], z3.Implies(z3.And(s.member[k], z3.Not(mb[k])), names.member[k]))):
                raise PyRaise("KeyError", lineno)
            ex.models.set_method(ex, o.fields["_RequiredNames__names"], s, "intersection_update", args, {}, lineno)
            return recv
        return NotImplemented

    def binop(self, ex, op, a, b, lineno, inplace=False):
        o = _cls_of(ex, a)
        if o is not None and o.cls == RN and inplace and op in ("BitOr", "BitAnd"):
            return self._required_names_mixin(ex, a, o, "__ior__" if op == "BitOr" else "__iand__", [b], lineno)
        return NotImplemented

    # ------------------------------------------------------------------ type objects as opaque values
    def isinstance_(self, ex, v, cls):
        if _is_val(cls):
            vt = as_val(ex, v)
            if vt is None:
                return NotImplemented
            return SV(is_instance(vt, cls.term), TBool)
        if isinstance(cls, BuiltinV) and cls.name == "type" and _is_val(v):
            return SV(is_type(v.term), TBool)
        return NotImplemented

    def compare_any(self, ex, op, a, b, lineno):
        if op in ("Is", "IsNot"):
            for x, y in ((a, b), (b, a)):
                if _is_val(x) and isinstance(y, (BuiltinV, ClassV)):
                    t = x.term == as_val(ex, y)
                    return SV(t if op == "Is" else z3.Not(t), TBool)
        return NotImplemented

    def setitem(self, ex, cont, key, v, lineno):
        if isinstance(v, (BuiltinV, ClassV)) and isinstance(cont, Ref):
            o = ex.st.heap[cont.id]
            if isinstance(o, DictObj) and not o.is_empty_literal and o.v.sort() == ValS:
                ex.models.setitem(ex, cont, key, SV(as_val(ex, v), TVal), lineno)
                return True
        return NotImplemented

    def call_builtin(self, ex, name, args, kwargs, lineno, node=None):
        st = ex.st
        if name.startswith("msgbuilder."):
            return None
        if name == "dict.fromkeys" and len(args) == 2:
            val = as_val(ex, args[1])
            if val is None:
                return NotImplemented
            kt = ex.models._elem_type_of_iterable(ex, args[0])
            mem = ex.models._iter_member(ex, args[0], kt)
            ref = TDict(kt, TVal).fresh(st, "fromkeys")
            d = st.heap[ref.id]
            k = z3.Const("k!fk", kt.sort())
            st.assume(z3.ForAll([k], d.member[k] == mem[k]))
            st.assume(z3.ForAll([k], z3.Implies(d.member[k], d.vals[k] == val)))
            src = st.heap[args[0].id] if isinstance(args[0], Ref) else None
            if isinstance(src, (SetObj, DictObj)):
                st.assume(d.n == src.n)
            elif isinstance(src, ListObj):
                st.assume(d.n <= src.n)
                st.assume(z3.Implies(src.n >= 1, d.n >= 1))
            return ref
        if name == "type" and len(args) == 1 and _is_val(args[0]):
            st.assume(is_type(type_of(args[0].term)))
            st.assume(is_instance(args[0].term, type_of(args[0].term)))
            return SV(type_of(args[0].term), TVal)
        if name in ("gemseo.utils.string_tools.pretty_str",):
            return SV(st.fresh_const("pretty", TStr.sort()), TStr)
        return NotImplemented

    def shallow_copy(self, ex, v, lineno):
        """copy.copy of an instance of a class without __copy__/__reduce__ overrides: a new instance of the same class whose
        attributes are the *same* objects (object.__reduce_ex__ copies the instance __dict__ shallowly)."""
        o = _cls_of(ex, v)
        if o is not None and o.cls == RN and S.find_method(o.cls, "__copy__") is None:
            return ex.st.alloc(PyObj(o.cls, dict(o.fields)))
        return NotImplemented
