"""C20 (contracts/c20_classes.py) plugin: more kinds of opaque attribute values for the instance-dictionary model of ``plug_serial``.

Every hook only fires for contracts that opt in with ``c20b = True`` (and, for values, on the ``AttrVal`` sort of plug_serial).

* ``multiprocessing.Lock()`` / ``RLock()`` (also ``threading``): a NEW lock - an attribute value of kind ``is_lock`` whose identity ``lock_id`` is
  larger than the ghost allocation counter ``lock_ctr`` (so that it is no lock of the pre-state);
* ``self.x = {}`` / ``[]`` / ``None`` / ``True`` / a string literal / an enum member stored into the modelled instance dictionary: the constants
  ``attr_new_dict`` / ``attr_new_list`` / ``attr_none`` / ``attr_of_int`` / ``attr_of_str(literal)``;
* truth value of an attribute value: the uninterpreted predicate ``attr_truthy`` (``None`` is falsy, a lock / a Synchronized is truthy);
* ``v == <string literal or enum member>`` on an attribute value: ``v == attr_of_str(literal)`` (a ``StrEnum`` member IS its string value);
* constructor calls ``Cls(v)`` listed by the contract in ``c20b_constructors`` with attribute-value arguments: the deterministic uninterpreted value
  ``attr_construct(class name, argument)`` (two constructions from equal arguments are equal AS VALUES; identity is not modelled for them);
* external calls listed in ``c20b_opaque_calls``: a fresh unconstrained attribute value (assumed to terminate without touching the modelled state).
"""
from __future__ import annotations

import z3

from . import plug_serial as P
from .values import PyObj, Ref, SV, DictObj, ListObj, TStr, Unsupported, declare_ghost, str_lit

A = P.AttrS
TAttr = P.TAttr
is_lock = z3.Function("is_lock", A, z3.BoolSort())
lock_id = z3.Function("lock_id", A, z3.IntSort())
attr_truthy = z3.Function("attr_truthy", A, z3.BoolSort())
attr_of_str = z3.Function("attr_of_str", TStr.sort(), A)
attr_construct = z3.Function("attr_construct", TStr.sort(), A, A)
attr_none = z3.Const("attr_none", A)
attr_default_argument = z3.Const("attr_default_argument", A)  # "no argument given": the default of the constructor
attr_new_dict = z3.Const("attr_new_dict", A)
attr_new_list = z3.Const("attr_new_list", A)
is_stream = z3.Function("is_stream", A, z3.BoolSort())  # a file-like object (cannot be pickled)
declare_ghost("lock_ctr", z3.IntSort())

LOCK_FACTORIES = ("multiprocessing.Lock", "multiprocessing.RLock", "threading.Lock", "threading.RLock")


def kind_axioms():
    """Locks, None, new containers are pairwise different kinds of values and none of them is a Synchronized or a path."""
    v = z3.Const("v!kb", A)
    s = z3.Const("s!kb", TStr.sort())
    simple = lambda t: z3.And(z3.Not(P.is_sync(t)), z3.Not(P.is_purepath(t)), z3.Not(is_lock(t)))  # noqa: E731
    return [
        z3.ForAll([v], z3.Implies(is_lock(v), z3.And(z3.Not(P.is_sync(v)), z3.Not(P.is_purepath(v)), attr_truthy(v))), patterns=[is_lock(v)]),
        z3.ForAll([v], z3.Implies(P.is_sync(v), z3.Not(is_lock(v))), patterns=[P.is_sync(v)]),
        simple(attr_none), simple(attr_new_dict), simple(attr_new_list), z3.Not(attr_truthy(attr_none)), z3.Not(attr_truthy(attr_new_dict)),
        z3.Not(attr_truthy(attr_new_list)),
        z3.ForAll([s], simple(attr_of_str(s)), patterns=[attr_of_str(s)]),
    ]


def _on(ex):
    return getattr(ex.contract, "c20b", False)


def _enum_member_value(ex, v):
    """The string value of a StrEnum member constant as the engine represents it (a concrete str, or a class-attribute value)."""
    if isinstance(v, str):
        return v
    return None


def embed(ex, v):
    """Attribute value for a Python value stored into the modelled instance dictionary (``None`` when plug_serial's own embedding applies)."""
    st = ex.st
    if v is None:
        return attr_none
    if isinstance(v, str):
        return attr_of_str(str_lit(v))
    if isinstance(v, SV) and v.ty == TStr:
        return attr_of_str(v.term)
    if isinstance(v, Ref):
        o = st.heap.get(v.id)
        if isinstance(o, DictObj) and z3.is_int_value(z3.simplify(o.n)) and z3.simplify(o.n).as_long() == 0:
            return attr_new_dict
        if isinstance(o, ListObj) and z3.is_int_value(z3.simplify(o.n)) and z3.simplify(o.n).as_long() == 0:
            return attr_new_list
    return None


class C20bModels:
    def call_builtin(self, ex, name, args, kwargs, lineno, node=None):
        if not _on(ex):
            return NotImplemented
        st = ex.st
        if name in LOCK_FACTORIES and not args and not kwargs:
            v = st.fresh_const("lock", A)
            ctr = st.ghost_get("lock_ctr", z3.IntSort())
            i = st.fresh_int("lock_id")
            st.assume(z3.And(is_lock(v), lock_id(v) == i, i > ctr))
            st.ghost_set("lock_ctr", i)
            return SV(v, TAttr)
        if name in getattr(ex.contract, "c20b_opaque_calls", ()):
            ex.assumed.add(f"assumed: {name}(...) returns some value and does not touch the modelled state")
            v = st.fresh_const("opaque", A)
            for f in getattr(ex.contract, "c20b_opaque_facts", {}).get(name, ()):
                st.assume(f(v))
            return SV(v, TAttr)
        return NotImplemented

    def construct(self, ex, cv, args, kwargs, lineno):
        if not _on(ex):
            return NotImplemented
        short = cv.qualname.rsplit(".", 1)[-1]
        if short in getattr(ex.contract, "c20b_constructors", ()):
            # a record capturing the (single) constructor argument, positional or keyword; no argument = the constructor's default, a distinguished value
            vals = list(args) + list(kwargs.values())
            if len(vals) <= 1 and all(isinstance(a, SV) and a.ty == TAttr for a in vals):
                ex.assumed.add(f"assumed: {short}(v) is a deterministic function of its argument (a new object; identity not modelled)")
                return SV(attr_construct(str_lit(short), vals[0].term if vals else attr_default_argument), TAttr)
        return NotImplemented

    def set_attr(self, ex, obj, attr, v, lineno):
        if not _on(ex):
            return NotImplemented
        from . import contract as C

        st = ex.st
        if isinstance(obj, Ref):
            o = st.heap.get(obj.id)
            if isinstance(o, PyObj) and "__dict__" in o.fields and attr not in C.class_schema(getattr(o, "schema_key", None) or o.cls):
                t = embed(ex, v)
                if t is not None:
                    st.heap[o.fields["__dict__"].id].set(st, TStr.embed(st, attr), t)
                    return None
        return NotImplemented

    def truth(self, ex, v):
        if _on(ex) and isinstance(v, SV) and v.ty == TAttr:
            return attr_truthy(v.term)
        return NotImplemented

    def equals(self, ex, a, b, lineno):
        if not _on(ex):
            return NotImplemented
        if isinstance(b, SV) and b.ty == TAttr and not (isinstance(a, SV) and a.ty == TAttr):
            a, b = b, a
        if isinstance(a, SV) and a.ty == TAttr:
            from .values import TBool

            if isinstance(b, SV) and b.ty == TAttr:
                return SV(a.term == b.term, TBool)
            e = embed(ex, b)
            if e is None:
                raise Unsupported(f"comparison of an attribute value with {b!r}")
            return SV(a.term == e, TBool)
        return NotImplemented

    # ------------------------------------------------------------------ a dict SUBCLASS instance is its dictionary content (field `__items__` of its schema)
    def _items(self, ex, recv):
        if _on(ex) and isinstance(recv, Ref):
            o = ex.st.heap.get(recv.id)
            if isinstance(o, PyObj) and "__items__" in o.fields and isinstance(o.fields["__items__"], Ref):
                return o.fields["__items__"]
        return None

    def pyobj_attr(self, ex, ref, o, attr, lineno):
        items = self._items(ex, ref)
        if items is not None and attr in ("copy", "items", "keys", "values", "update", "get", "pop", "clear"):
            from .values import BoundMethod

            return BoundMethod(items, None, attr)
        return NotImplemented

    def call_method(self, ex, recv, name, args, kwargs, lineno):
        items = self._items(ex, recv)
        if items is not None and name in ("copy", "items", "keys", "values", "update", "get", "pop", "clear"):
            return ex.models.dict_method(ex, items, ex.st.heap[items.id], name, args, kwargs, lineno)
        return NotImplemented

    def setitem(self, ex, cont, key, v, lineno):
        items = self._items(ex, cont)
        if items is not None:
            o = ex.st.heap[items.id]
            o.set(ex.st, o.k.embed(ex.st, key), o.v.embed(ex.st, v))
            return None
        return NotImplemented

    # ------------------------------------------------------------------ pydantic model classes as opaque attribute values (PydanticGrammar)
    def value_attr(self, ex, obj, attr, lineno):
        if _on(ex) and isinstance(obj, SV) and obj.ty == TAttr and attr == "model_fields":
            return SV(ex.st.ghost_get("pg_fields", FieldsHeap)[obj.term], TAttr)
        return NotImplemented

    def isinstance_(self, ex, v, cls):
        if _on(ex) and isinstance(v, SV) and v.ty == TAttr and getattr(cls, "name", None) == "c20b.type(BaseModel)":
            from .values import TBool

            return SV(pg_is_class(v.term), TBool)
        return NotImplemented


FieldsHeap = z3.ArraySort(A, A)
declare_ghost("pg_fields", FieldsHeap)
pg_is_class = z3.Function("pg_is_model_class", A, z3.BoolSort())  # isinstance(v, type(BaseModel))
pg_runtime = z3.Function("pg_created_at_runtime", A, z3.BoolSort())  # hasattr(v, "__internal__")


def _c20b_call_builtin(self, ex, name, args, kwargs, lineno, node=None, _orig=C20bModels.call_builtin):
    if _on(ex):
        from .values import BuiltinV, TBool

        if name == "type" and len(args) == 1 and isinstance(args[0], BuiltinV) and args[0].name == "pydantic.BaseModel":
            return BuiltinV("c20b.type(BaseModel)")
        if name == "hasattr" and len(args) == 2 and isinstance(args[0], SV) and args[0].ty == TAttr and args[1] == "__internal__":
            return SV(pg_runtime(args[0].term), TBool)
        if name == "typing.cast" and len(args) == 2:
            return args[1]
    return _orig(self, ex, name, args, kwargs, lineno, node)


def _c20b_set_attr(self, ex, obj, attr, v, lineno, _orig=C20bModels.set_attr):
    if _on(ex) and isinstance(obj, SV) and obj.ty == TAttr and attr == "model_fields" and isinstance(v, SV) and v.ty == TAttr:
        st = ex.st
        st.ghost_set("pg_fields", z3.Store(st.ghost_get("pg_fields", FieldsHeap), obj.term, v.term))
        return None
    return _orig(self, ex, obj, attr, v, lineno)


def _c20b_pyobj_attr(self, ex, ref, o, attr, lineno, _orig=C20bModels.pyobj_attr):
    if _on(ex) and attr == "__class__" and "__dict__" in o.fields:
        from .engine import ClassV

        return ClassV(o.cls)
    return _orig(self, ex, ref, o, attr, lineno)


C20bModels.call_builtin = _c20b_call_builtin
C20bModels.set_attr = _c20b_set_attr
C20bModels.pyobj_attr = _c20b_pyobj_attr
