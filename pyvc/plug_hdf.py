"""C11 plugin: an ABSTRACT model of the h5py objects used by gemseo.algos._hdf_database.

The file system and the HDF5 library are out of reach of contracts.  What is modelled is the *logical content* of ONE
HDF node (the node ``hdf_node_path`` of the file ``file_path``; all exports of a history go to that node - history
precondition of C11): a group is a finite map from names to datasets / sub-groups, a dataset is either an opaque array
content or a resizable sequence.  The node holding a database has three groups

  x : name -> array content                               (``XG``)
  k : name -> resizable sequence of names                 (``KG``)
  v : name -> resizable sequence of scalar values         (``VD``)   +   name -> (name -> array content)  (``VA``, sub-groups ``arr_<i>``)

kept between two ``with h5py.File(..)`` blocks in the ghost variables ``h5_x, h5_k, h5_vd, h5_va, h5_has_ds``.

ASSUMED contracts of h5py (each one validated against the real h5py 3.11 by ``tools/validate_h5py_model.py``, same labels):
  A1  File(path, "w") truncates: the node is empty; File(path, "a") / File(path) give the content left by the last writer;
      the content written inside a ``with`` block is what the next open reads (A14)
  A2  require_group(name) creates an empty group if absent, returns the existing one otherwise (also with a node path)
  A3  ``name in group`` <=> a dataset or a sub-group of that name exists; ``len(group)`` = number of members
  A4  create_dataset(name, data=d) adds the member ``name`` holding the content of ``d``; ValueError if the name exists
  A5  group[name]: the member; KeyError if absent
  A6  a list of (ASCII) names written through array(.., dtype=bytes_) / string_dtype is read back as the same sequence of
      names (``.decode()``); an empty list gives an empty resizable dataset
  A7  dataset.resize((m,)) sets the length to m keeping the first min(len, m) elements; ``ds[off:] = block`` overwrites the
      elements off.. with the block,   A8  and raises TypeError when the block length differs from len - off
  A9  a sub-group behaves like a group; items() enumerates exactly its (name, dataset) members (each once)
  A10 require_group on the name of a dataset raises TypeError
  A11 iterating a dataset yields its elements in order; stored reals are read back equal (float64 = reals, DESIGN §2.2)
  A12 array(dataset) is the stored array content
  A13 str(i) is injective on integers, int(str(i)) == i, ``"arr_" + s`` is injective in s and never a decimal string
  A15 get_hdf5_group (real source, inlined): the node itself for an empty name, ``node[name]`` otherwise

Other model decisions (assumptions, listed in the evidence):
  * ``HDFDatabase.__to_real`` is the identity on real data (complex values lose their imaginary part: not covered)
  * ``isinstance(value, (ndarray, list))`` on an output value is the uninterpreted predicate ``is_arr(value)``
  * ``hash(HashableNdarray)`` is a deterministic function ``hnd_hash`` of the array content
  * ``sorted(names)`` is a duplicate-free listing of the names (bijection between positions and names); its alphabetical
    order is not modelled (nothing in C11 depends on it)
  * the node path names the same node in every call (a non-literal group name passed to File.require_group / File[..])
"""
from __future__ import annotations

import z3

from .values import T as _T
from .values import (BoundMethod, BuiltinV, DictObj, HeapObj, ListObj, PyObj, Ref, SV, StrS, TBool, TDict, TInt, TList, TNd, TOpt, TStr, TVal,
                     Unsupported, ValS, declare_ghost, str_lit)

MOD = "gemseo.algos._hdf_database"
GROUP = "h5py.Group"

# ---------------------------------------------------------------------------- types of the abstract node
XG = TDict(TStr, TNd)  # group x
NAMES = TList(TStr)
KG = TDict(TStr, NAMES)  # group k
SCAL = TList(TVal)
VD = TDict(TStr, SCAL)  # scalar datasets of group v
AG = TDict(TStr, TVal, ordered=True)  # one sub-group arr_<i>: str(j) -> array content
VA = TDict(TStr, AG)  # sub-groups of group v

for _n, _t in (("h5_x", XG), ("h5_k", KG), ("h5_vd", VD), ("h5_va", VA)):
    declare_ghost(_n, _t.sort())
declare_ghost("h5_has_ds", z3.BoolSort())
# specification-only ghosts attached to the file (assigned by ghost code of the contracts only)
POS_SORT = z3.ArraySort(z3.IntSort(), z3.ArraySort(StrS, z3.IntSort()))  # point -> name -> position in k/<point>
SC_SORT = z3.ArraySort(z3.IntSort(), z3.ArraySort(z3.IntSort(), z3.BoolSort()))  # point -> position -> is a scalar
declare_ghost("h5_pos", POS_SORT)
declare_ghost("h5_sc", SC_SORT)

# ---------------------------------------------------------------------------- spec functions (A13 and value kinds)
str_of_int = z3.Function("str_of_int", z3.IntSort(), StrS)
int_of_str = z3.Function("int_of_str", StrS, z3.IntSort())
str_is_int = z3.Function("str_is_int", StrS, z3.BoolSort())
_str_concat = z3.Function("str_concat", StrS, StrS, StrS)  # the same symbol as pyvc.models.str_concat (f-strings)


def arr_of(s):
    """"arr_" + s, as the engine builds f"arr_{s}"."""
    return _str_concat(str_lit("arr_"), s)


arr_suffix = z3.Function("h5_arr_suffix", StrS, StrS)
is_arr_name = z3.Function("h5_is_arr_name", StrS, z3.BoolSort())
is_arr = z3.Function("is_arr", ValS, z3.BoolSort())  # isinstance(value, (ndarray, list))
hnd_hash = z3.Function("hnd_hash", ValS, z3.IntSort())  # hash(HashableNdarray(content))


MEMS = z3.ArraySort(StrS, z3.BoolSort())
sorted_el = z3.Function("sorted_el", MEMS, z3.IntSort(), StrS)  # j-th element of sorted(set of names)
sorted_pos = z3.Function("sorted_pos", MEMS, StrS, z3.IntSort())  # position of a name in sorted(set of names)


def naming_axioms():
    """A13 (facts about Python's str/int/concatenation)."""
    i = z3.Int("i!na")
    s = z3.Const("s!na", StrS)
    return [
        z3.ForAll([i], z3.And(int_of_str(str_of_int(i)) == i, str_is_int(str_of_int(i)), z3.Not(is_arr_name(str_of_int(i)))), patterns=[str_of_int(i)]),
        z3.ForAll([s], z3.And(arr_suffix(arr_of(s)) == s, is_arr_name(arr_of(s))), patterns=[arr_of(s)]),
    ]


def named_mem(st, mem):
    """The constant naming a lambda-defined set of names in the current path (see ``_sorted``), the term itself otherwise."""
    for t, named in st.ghost.get("h5_named_mem", []):
        if t.eq(mem):
            return named
    return mem


def sidx(i):
    return str_of_int(i if z3.is_expr(i) else z3.IntVal(i))


def aname(i):
    return arr_of(sidx(i))


class H5View(HeapObj):
    """A dataset / sub-group handle: (kind, group object, member name).  kinds: 'kds' (names), 'vds' (scalars), 'agrp'."""

    def __init__(self, kind, parent: Ref, name):
        self.kind, self.parent, self.name = kind, parent, name

    def clone(self):
        return H5View(self.kind, self.parent, self.name)


def _kind(o):
    if isinstance(o, PyObj) and o.cls == GROUP:
        return (o.schema_key or "").rsplit("#", 1)[-1]
    return None


def _in_mod(ex):
    return ex.frame.module.name == MOD


def _raise(cls, lineno):
    from .engine import PyRaise

    return PyRaise(cls, lineno)


def _str_term(ex, v):
    return TStr.embed(ex.st, v)


def _dict(ex, ref) -> DictObj:
    return ex.st.heap[ref.id]


def _list_term(ex, v, t):
    """(n, elems) of a list value of element type t."""
    o = ex.st.heap[v.id] if isinstance(v, Ref) else None
    if isinstance(o, ListObj):
        if o.is_empty_literal:
            return z3.IntVal(0), ex.st.fresh_const("el", z3.ArraySort(z3.IntSort(), t.sort()))
        if o.t.sort() == t.sort():
            return o.n, o.elems
    raise Unsupported(f"h5py model: data {v!r} is not a list of {t}")


def _mk_list(T, n, elems):
    return T.dt.mk(n, elems)


def _empty(st, T):
    o = DictObj.empty(st, T.k, T.v, T.ordered)
    o.ty = T
    return st.alloc(o)


def _dict_set(d: DictObj, ex, kt, vt):
    d.set(ex.st, kt, vt)
    ex.writeback(d)


class HdfModels:
    # ------------------------------------------------------------------ h5py.File / context manager
    def call_builtin(self, ex, name, args, kwargs, lineno, node=None):
        st = ex.st
        if name == "h5py.File" and _in_mod(ex):
            mode = args[1] if len(args) > 1 else kwargs.get("mode", "r")
            if not isinstance(mode, str):
                raise Unsupported("h5py.File with a symbolic mode")
            return self._open(ex, mode)
        if name == "h5py.string_dtype" and _in_mod(ex):
            return BuiltinV("h5py.string_dtype()")
        if not _in_mod(ex):
            return NotImplemented
        if name == "str" and len(args) == 1:
            n = ex.num(args[0])
            if n is not None and n[1] == TInt:
                ex.assumed.add("A13: str(int) is injective, int(str(i)) == i, 'arr_'+s is injective and never a decimal string")
                from .models import str_nonempty_f

                st.assume(str_nonempty_f(str_of_int(n[0])))  # str(i) is not the empty string
                return SV(str_of_int(n[0]), TStr)
            return NotImplemented
        if name == "int" and len(args) == 1 and isinstance(args[0], SV) and args[0].ty == TStr:
            t = args[0].term
            if ex.no_fork:
                # inside a comprehension element: no fork; the ValueError of int() is excluded by a safety obligation
                ex.check(str_is_int(t), "safety", "int()-of-a-decimal-string", lineno, aux=True)
            elif not st.decide(str_is_int(t)):
                raise _raise("ValueError", lineno)
            return SV(int_of_str(t), TInt)
        if name == "hash" and len(args) == 1 and isinstance(args[0], SV) and getattr(args[0].ty, "rname", "") == "HashableNdarray":
            ex.assumed.add("hash(HashableNdarray) is a deterministic function of the array content")
            return SV(hnd_hash(args[0].ty.accessor("wrapped_array")(args[0].term)), TInt)
        if name == "numpy.array" and len(args) == 1:
            a = args[0]
            if isinstance(a, Ref) and isinstance(st.heap[a.id], ListObj) and "dtype" in kwargs:
                return a  # A6: array(names, dtype=bytes_) holds the same sequence of names
            if isinstance(a, SV) and a.ty.sort() == ValS and not kwargs:
                return SV(a.term, a.ty)  # A12: array(dataset) is the stored content
        if name == "sorted" and len(args) == 1 and not kwargs:
            return self._sorted(ex, args[0], lineno)
        if name == "zip" and len(args) == 2:
            seqs = [ex.to_iter(a, lineno) for a in args]
            from .engine import IterV

            n = z3.If(seqs[1].n < seqs[0].n, seqs[1].n, seqs[0].n)
            it = IterV(z3.simplify(n), lambda i: tuple(s.elem(i) for s in seqs))
            it.parts = seqs
            return it
        if name == "dict" and len(args) == 1 and not kwargs:
            from .engine import IterV

            if isinstance(args[0], IterV):
                return self._dict_of_pairs(ex, args[0], lineno)
        return NotImplemented

    def _open(self, ex, mode):
        st = ex.st
        ex.assumed.add("A1/A14: h5py.File - 'w' truncates, 'a'/'r' give the content left by the last writer (abstract node content kept in ghost h5_*)")
        node = PyObj(GROUP, {})
        node.schema_key = GROUP + "#node"
        ref = st.alloc(node)
        if mode == "w":
            e = lambda T: _empty(st, T)  # noqa: E731
            node.fields["x"] = self._group(ex, "x", {"ds": e(XG)})
            node.fields["k"] = self._group(ex, "k", {"ds": e(KG)})
            node.fields["v"] = self._group(ex, "v", {"ds": e(VD), "groups": e(VA)})
            node.fields["has_ds"] = False
        else:
            g = lambda n, T: T.project(st, st.ghost_get(n, T.sort()))  # noqa: E731
            node.fields["x"] = self._group(ex, "x", {"ds": g("h5_x", XG)})
            node.fields["k"] = self._group(ex, "k", {"ds": g("h5_k", KG)})
            node.fields["v"] = self._group(ex, "v", {"ds": g("h5_vd", VD), "groups": g("h5_va", VA)})
            node.fields["has_ds"] = SV(st.ghost_get("h5_has_ds", z3.BoolSort()), TBool)
        node.fields["mode"] = mode
        st.ghost.setdefault("h5_open", []).append(ref)
        return ref

    def _group(self, ex, kind, fields):
        o = PyObj(GROUP, dict(fields))
        o.schema_key = f"{GROUP}#{kind}"
        return ex.st.alloc(o)

    def enter_context(self, ex, v, node):
        if isinstance(v, Ref) and _kind(ex.st.heap[v.id]) == "node":
            return v
        return NotImplemented

    def exit_context(self, ex, node, exc):
        st = ex.st
        opened = st.ghost.get("h5_open")
        if not opened:
            return NotImplemented
        ref = opened.pop()
        o = st.heap[ref.id]
        if o.fields["mode"] in ("w", "a"):
            x, k, v = (st.heap[o.fields[f].id] for f in ("x", "k", "v"))
            st.ghost_set("h5_x", XG.embed(st, x.fields["ds"]))
            st.ghost_set("h5_k", KG.embed(st, k.fields["ds"]))
            st.ghost_set("h5_vd", VD.embed(st, v.fields["ds"]))
            st.ghost_set("h5_va", VA.embed(st, v.fields["groups"]))
            hd = o.fields["has_ds"]
            st.ghost_set("h5_has_ds", z3.BoolVal(hd) if isinstance(hd, bool) else hd.term)
        return None

    # ------------------------------------------------------------------ attribute access / methods
    def pyobj_attr(self, ex, ref, o, attr, lineno):
        if _kind(o) is not None and attr in ("require_group", "create_dataset", "items", "file", "get", "attrs"):
            return BoundMethod(ref, None, "h5:" + attr)
        return NotImplemented

    def call_method(self, ex, recv, name, args, kwargs, lineno):
        st = ex.st
        if name == "decode" and isinstance(recv, SV) and recv.ty == TStr and not args and _in_mod(ex):
            return recv  # A6: the names are read back as written
        if not isinstance(recv, Ref):
            return NotImplemented
        o = st.heap[recv.id]
        if isinstance(o, H5View):
            return self._view_method(ex, recv, o, name, args, kwargs, lineno)
        kind = _kind(o)
        if kind is None or not name.startswith("h5:"):
            return NotImplemented
        name = name[3:]
        if name == "require_group":
            ex.assumed.add("A2/A10: require_group creates an empty group if absent, returns the existing one; TypeError on a dataset name")
            nm = args[0]
            if kind == "node":
                if isinstance(nm, str) and nm in ("x", "k", "v"):
                    return o.fields[nm]
                if isinstance(nm, SV) and nm.ty == TStr:
                    return recv  # the node path names the modelled node
                raise Unsupported(f"h5py model: require_group({nm!r}) on the node")
            if kind == "v":
                nt = _str_term(ex, nm)
                ds, groups = _dict(ex, o.fields["ds"]), _dict(ex, o.fields["groups"])
                if st.decide(ds.member[nt]):
                    raise _raise("TypeError", lineno)
                if not st.decide(groups.member[nt]):
                    e = DictObj.empty(st, TStr, TVal, ordered=True)
                    _dict_set(groups, ex, nt, AG.dt.mk(e.member, e.vals, e.n, e.keys, e.pos))
                return st.alloc(H5View("agrp", recv, nt))
            raise Unsupported(f"h5py model: require_group on group {kind}")
        if name == "create_dataset":
            ex.assumed.add("A4: create_dataset(name, data=d) adds the member holding the content of d; ValueError if the name exists")
            nt = _str_term(ex, args[0])
            data = kwargs.get("data", args[1] if len(args) > 1 else None)
            if kind == "x":
                ds = _dict(ex, o.fields["ds"])
                if st.decide(ds.member[nt]):
                    raise _raise("ValueError", lineno)
                _dict_set(ds, ex, nt, TNd.embed(st, data))
                return None
            if kind == "k":
                ds = _dict(ex, o.fields["ds"])
                if st.decide(ds.member[nt]):
                    raise _raise("ValueError", lineno)
                n, el = _list_term(ex, data, TStr)
                ex.assumed.add("A6: (ASCII) names written as bytes are read back as the same sequence of names")
                _dict_set(ds, ex, nt, _mk_list(NAMES, n, el))
                return None
            if kind == "v":
                ds, groups = _dict(ex, o.fields["ds"]), _dict(ex, o.fields["groups"])
                if st.decide(z3.Or(ds.member[nt], groups.member[nt])):
                    raise _raise("ValueError", lineno)
                n, el = _list_term(ex, data, TVal)
                _dict_set(ds, ex, nt, _mk_list(SCAL, n, el))
                return None
        raise Unsupported(f"h5py model: {name} on group {kind}")

    def _inner(self, ex, view):
        """(groups dict, embedded AG term) of an 'agrp' view."""
        groups = _dict(ex, ex.st.heap[view.parent.id].fields["groups"])
        return groups, groups.vals[view.name]

    def _seq(self, ex, view):
        T = NAMES if view.kind == "kds" else SCAL
        ds = _dict(ex, ex.st.heap[view.parent.id].fields["ds"])
        term = ds.vals[view.name]
        ex.st.assume(T.dt.accessor(0, 0)(term) >= 0)  # type invariant of an embedded sequence
        return ds, T, T.dt.accessor(0, 0)(term), T.dt.accessor(0, 1)(term)

    def _view_method(self, ex, recv, o, name, args, kwargs, lineno):
        st = ex.st
        if o.kind == "agrp":
            groups, inner = self._inner(ex, o)
            if name == "create_dataset":
                ex.assumed.add("A9: a sub-group behaves like a group (create_dataset, name in group, items)")
                nt = _str_term(ex, args[0])
                data = kwargs.get("data", args[1] if len(args) > 1 else None)
                mem, vals, n, keys, pos = (AG.acc(i)(inner) for i in range(5))
                if st.decide(mem[nt]):
                    raise _raise("ValueError", lineno)
                new = AG.dt.mk(z3.Store(mem, nt, z3.BoolVal(True)), z3.Store(vals, nt, TVal.embed(st, data)), n + 1, z3.Store(keys, n, nt), z3.Store(pos, nt, n))
                groups.vals = z3.Store(groups.vals, o.name, new)
                ex.writeback(groups)
                return None
            if name == "items":
                from .engine import IterV

                d = st.heap[AG.project(st, inner).id]
                keys, vals = d.keys, d.vals
                it = IterV(d.n, lambda i: (SV(keys[i], TStr), SV(vals[keys[i]], TVal)))
                it.keys, it.pos = d.keys, d.pos
                return it
        if o.kind in ("kds", "vds"):
            ds, T, n, el = self._seq(ex, o)
            if name == "resize":
                ex.assumed.add("A7: dataset.resize((m,)) sets the length keeping the first elements; ds[off:] = block overwrites the tail (A8: TypeError on a length mismatch)")
                shape = args[0]
                if not (isinstance(shape, tuple) and len(shape) == 1 and ex.num(shape[0]) is not None):
                    raise Unsupported("h5py model: resize to a non rank-1 shape")
                m = ex.num(shape[0])[0]
                if not st.decide(m >= 0):
                    raise _raise("ValueError", lineno)
                _dict_set(ds, ex, o.name, _mk_list(T, m, el))
                return None
        raise Unsupported(f"h5py model: method {name} on a {o.kind} handle")

    # ------------------------------------------------------------------ operators
    def contains(self, ex, cont, item, lineno):
        st = ex.st
        if not isinstance(cont, Ref):
            return NotImplemented
        o = st.heap[cont.id]
        if isinstance(o, H5View) and o.kind == "agrp":
            _, inner = self._inner(ex, o)
            return SV(AG.acc(0)(inner)[_str_term(ex, item)], TBool)
        kind = _kind(o)
        if kind is None:
            return NotImplemented
        ex.assumed.add("A3: `name in group` <=> a member (dataset or sub-group) of that name exists; len(group) = number of members")
        if kind == "node":
            if item == "design_space":
                hd = o.fields["has_ds"]
                return hd
            raise Unsupported(f"h5py model: {item!r} in node")
        nt = _str_term(ex, item)
        if kind in ("x", "k"):
            return SV(_dict(ex, o.fields["ds"]).member[nt], TBool)
        return SV(z3.Or(_dict(ex, o.fields["ds"]).member[nt], _dict(ex, o.fields["groups"]).member[nt]), TBool)

    def getitem(self, ex, cont, key, lineno):
        st = ex.st
        if _in_mod(ex) and ex.no_fork and isinstance(cont, Ref) and isinstance(st.heap[cont.id], ListObj) and isinstance(key, SV) and key.ty == TInt:
            # list[int] inside a comprehension element: the IndexError is excluded by a safety obligation instead of a fork
            lo = st.heap[cont.id]
            ex.check(z3.And(0 <= key.term, key.term < lo.n), "safety", "list-index-in-range", lineno, aux=True)
            return lo.t.project(st, lo.elems[key.term])
        if not isinstance(cont, Ref):
            return NotImplemented
        o = st.heap[cont.id]
        kind = _kind(o)
        if kind is None:
            return NotImplemented
        ex.assumed.add("A5: group[name] is the member of that name; KeyError if absent")
        if kind == "node":
            if isinstance(key, str) and key in ("x", "k", "v"):
                return o.fields[key]
            if isinstance(key, SV) and key.ty == TStr:
                return cont
            raise Unsupported(f"h5py model: node[{key!r}]")
        nt = _str_term(ex, key)
        if kind == "x":
            ds = _dict(ex, o.fields["ds"])
            if not st.decide(ds.member[nt]):
                raise _raise("KeyError", lineno)
            return SV(ds.vals[nt], TNd)
        if kind == "k":
            if not st.decide(_dict(ex, o.fields["ds"]).member[nt]):
                raise _raise("KeyError", lineno)
            return st.alloc(H5View("kds", cont, nt))
        ds, groups = _dict(ex, o.fields["ds"]), _dict(ex, o.fields["groups"])
        if st.decide(groups.member[nt]):
            return st.alloc(H5View("agrp", cont, nt))
        if not st.decide(ds.member[nt]):
            raise _raise("KeyError", lineno)
        return st.alloc(H5View("vds", cont, nt))

    def setitem(self, ex, cont, key, v, lineno):
        st = ex.st
        if not isinstance(cont, Ref):
            return NotImplemented
        o = st.heap[cont.id]
        if not (isinstance(o, H5View) and o.kind in ("kds", "vds")):
            return NotImplemented
        if not (isinstance(key, tuple) and key and key[0] == "slice" and key[2] is None and key[3] is None and key[1] is not None):
            raise Unsupported("h5py model: only ds[offset:] = block")
        ds, T, n, el = self._seq(ex, o)
        off = ex.num(key[1])[0]
        bn, bel = _list_term(ex, v, T.t)
        if not st.decide(z3.And(0 <= off, off <= n, n - off == bn)):
            raise _raise("TypeError", lineno)
        i = z3.Int("i!h5s")
        new = z3.Lambda([i], z3.If(z3.And(off <= i, i < n), bel[i - off], el[i]))
        _dict_set(ds, ex, o.name, _mk_list(T, n, new))
        return None

    def length(self, ex, v, lineno):
        st = ex.st
        if not isinstance(v, Ref):
            return NotImplemented
        o = st.heap[v.id]
        if isinstance(o, H5View) and o.kind in ("kds", "vds"):
            _, _, n, _ = self._seq(ex, o)
            return SV(n, TInt)
        kind = _kind(o)
        if kind in ("x", "k"):
            return SV(_dict(ex, o.fields["ds"]).n, TInt)
        return NotImplemented

    def to_iter(self, ex, v, lineno):
        from .engine import IterV

        st = ex.st
        if isinstance(v, Ref) and isinstance(st.heap[v.id], H5View) and st.heap[v.id].kind in ("kds", "vds"):
            ex.assumed.add("A11: iterating a dataset yields its elements in order")
            _, T, n, el = self._seq(ex, st.heap[v.id])
            it = IterV(n, lambda i: SV(el[i], T.t))
            it.elem_type = T.t
            return it
        if isinstance(v, Ref) and isinstance(st.heap[v.id], H5View) and st.heap[v.id].kind == "agrp":
            # iterating a group yields the names of its members (as opaque values)
            from .values import val_of_str

            _, inner = self._inner(ex, st.heap[v.id])
            d = st.heap[AG.project(st, inner).id]
            keys = d.keys
            it = IterV(d.n, lambda i: SV(val_of_str(keys[i]), TVal))
            it.elem_type = TVal
            return it
        return NotImplemented

    def isinstance_(self, ex, v, cls):
        if _in_mod(ex) and isinstance(v, SV) and v.ty == TVal:
            names = sorted(c.name.rsplit(".", 1)[-1] if isinstance(c, BuiltinV) else "?" for c in (cls if isinstance(cls, tuple) else (cls,)))
            if names == ["list", "ndarray"]:
                ex.assumed.add("isinstance(value, (ndarray, list)) on an output value is the uninterpreted predicate is_arr(value)")
                return SV(is_arr(v.term), TBool)
        return NotImplemented

    def call_repo_model(self, ex, fi, args, kwargs, lineno):
        if fi.qualname == MOD + ".HDFDatabase.__to_real" or fi.qualname.endswith("HDFDatabase._HDFDatabase__to_real"):
            ex.assumed.add("HDFDatabase.__to_real is the identity on real data (complex values: not covered)")
            return args[-1]
        if _in_mod(ex):
            # the design-space part of HDFDatabase.to_file (file I/O of DesignSpace: not under contract)
            if fi.qualname == "gemseo.algos.database.Database.input_space":
                from .values import TObj

                ex.assumed.add("Database.input_space / DesignSpace.to_hdf (assumed): reading the input space has no effect on the database; "
                               "DesignSpace.to_hdf only writes the 'design_space' group of the node (groups x, k, v untouched)")
                return TObj("gemseo.algos.design_space.DesignSpace", schema_key="gemseo.algos.design_space.DesignSpace#c11").fresh(ex.st, "input_space")
            if fi.qualname == "gemseo.algos.design_space.DesignSpace.__len__":
                n = ex.st.fresh_int("n_variables")
                ex.st.assume(n >= 0)
                return SV(n, TInt)
            if fi.qualname == "gemseo.algos.design_space.DesignSpace.to_hdf":
                return None
        return NotImplemented

    def coerce(self, ex, v, t):
        """Database.store(ndarray, ..) wraps the array (Database.get_hashable_ndarray): an array passed where the callee contract
        expects the wrapped key is wrapped here."""
        if getattr(t, "rname", "") == "HashableNdarray" and isinstance(v, SV) and v.ty == TNd and _in_mod(ex):
            return t.mk(ex.st, wrapped_array=v)
        return NotImplemented

    def filtered_sequence(self, ex, seq, cond_at, n, src, dst):
        """Derived fact about ``(e for e in seq if cond)`` (proved by induction from the model of the filtered sequence in
        contracts/c11_hdf_database.RankLemmas 'filtered:*'): the position of a kept element is the rank of its source index."""
        if not _in_mod(ex):
            return NotImplemented
        st = ex.st
        P = st.fresh_const("kept", z3.ArraySort(z3.IntSort(), z3.BoolSort()))
        i = z3.Int("i!fr")
        rank = z3.Function("h5_rank", z3.ArraySort(z3.IntSort(), z3.BoolSort()), z3.IntSort(), z3.IntSort())
        st.assume(z3.ForAll([i], P[i] == cond_at(i), patterns=[P[i]]))
        st.assume(z3.ForAll([i], z3.Implies(z3.And(0 <= i, i < seq.n, P[i]), dst[i] == rank(P, i)), patterns=[dst[i]]))
        st.ghost.setdefault("h5_filtered", []).append((P, src, dst, n))
        ex.assumed.add("lemma (RankLemmas filtered:*): in a filtered sub-sequence the position of a kept element is the rank of its source index")
        return None

    def fstring_part(self, ex, x):
        if _in_mod(ex):
            n = ex.num(x)
            if n is not None and n[1] == TInt and not isinstance(x, bool):
                return SV(str_of_int(n[0]), TStr)
        return NotImplemented

    # ------------------------------------------------------------------ cited lemmas of a contract (assumptions listed in the evidence)
    def before_stmt(self, ex, node):
        """``cited_lemmas = {"<ast.unparse of a statement>": fn(c) -> [(label, formula)]}`` on a contract: mathematical facts about the
        current state (e.g. a cardinality identity) ASSUMED right before that statement; each is listed in the evidence."""
        import ast

        from . import contract as C

        fi = getattr(ex.frame, "finfo", None)
        if fi is None:
            return NotImplemented
        ct = ex.contract if fi is ex.finfo else C.lookup(fi.qualname, fi.kind == "setter")
        key = ast.unparse(node).split("\n")[0]  # (a compound statement is named by its header line)
        defs = getattr(ct, "ghost_defs", None) if ct is not None else None
        if defs and key in defs:
            # ghost assignment by definition: the new value of a declared ghost variable is a fresh constant characterised by
            # pointwise definitions (``fn(c) -> {ghost: g -> [defining facts]}``; lambda-free, so that the facts can carry triggers)
            from .values import GHOST_SORTS

            for name, facts in defs[key](ex._loop_ctx(None, None)).items():
                g = ex.st.fresh_const(f"ghost_{name}", GHOST_SORTS[name])
                for f in facts(g):
                    ex.st.assume(f)
                ex.st.ghost_set(name, g)
        lem = getattr(ct, "cited_lemmas", None) if ct is not None else None
        if lem:
            fn = lem.get(key)
            if fn is not None:
                for label, f in fn(ex._loop_ctx(None, None)):
                    ex.assumed.add(f"cited lemma (assumed): {label}")
                    ex.st.assume(f)
        return NotImplemented

    # ------------------------------------------------------------------ sorted / dict(zip(..)) / filtered generators
    def _sorted(self, ex, src, lineno):
        """sorted(names): a duplicate-free listing of the set of names, a deterministic function of that set
        (``sorted_el`` / ``sorted_pos`` are inverse bijections between [0, n) and the set); the order itself is not modelled."""
        st = ex.st
        seq = ex.to_iter(src, lineno)
        kt = ex.models._elem_type_of_iterable(ex, src)
        if kt != TStr:
            return NotImplemented
        mem = ex.models._iter_member(ex, src, kt)
        i, k = z3.Int("i!so"), z3.Const("k!so", kt.sort())
        n = seq.n
        if not z3.is_const(mem):
            # a membership given by a lambda term (comprehension): name it, so that the facts below can carry triggers
            # (contracts get the name through ``named_mem``; sorted(S) only depends on the set S, and ``named`` IS that set)
            named = st.fresh_const("smem", MEMS)
            st.assume(z3.ForAll([k], named[k] == mem[k], patterns=[named[k]]))
            st.ghost.setdefault("h5_named_mem", []).append((mem, named))
            mem = named
        from .values import forall_pat

        st.assume(forall_pat([i], z3.Implies(z3.And(0 <= i, i < n), z3.And(mem[sorted_el(mem, i)], sorted_pos(mem, sorted_el(mem, i)) == i)), sorted_el(mem, i)))
        st.assume(forall_pat([k], z3.Implies(mem[k], z3.And(0 <= sorted_pos(mem, k), sorted_pos(mem, k) < n, sorted_el(mem, sorted_pos(mem, k)) == k)), sorted_pos(mem, k)))
        ro = ListObj(TStr, n, z3.Lambda([i], sorted_el(mem, i)))
        ro.ty = TList(TStr)
        ro.sorted_of = mem
        ex.assumed.add("model: sorted(names) is a duplicate-free listing of the set of names, a deterministic function of that set (alphabetical order not modelled)")
        return st.alloc(ro)

    def _dict_of_pairs(self, ex, seq, lineno):
        """dict(iterable of (key, value) pairs) with pairwise distinct keys (safety obligation)."""
        st = ex.st
        bi = st.fresh_int("pi")
        kv, vv = seq.elem(bi)
        from .values import type_of_value

        kt, vt = type_of_value(st, kv), type_of_value(st, vv)
        ke, ve = z3.simplify(kt.embed(st, kv)), z3.simplify(vt.embed(st, vv))  # (beta-reduces the element lambdas)
        key_at = lambda t: z3.substitute(ke, (bi, t))  # noqa: E731
        val_at = lambda t: z3.substitute(ve, (bi, t))  # noqa: E731
        i, j, k = z3.Int("i!dp"), z3.Int("j!dp"), z3.Const("k!dp", kt.sort())
        ex.check(z3.ForAll([i, j], z3.Implies(z3.And(0 <= i, i < j, j < seq.n), key_at(i) != key_at(j))), "safety", "dict()-keys-distinct", lineno, aux=True)
        mem = st.fresh_const("pmem", z3.ArraySort(kt.sort(), z3.BoolSort()))
        vals = st.fresh_const("pvals", z3.ArraySort(kt.sort(), vt.sort()))
        wit = st.fresh_const("pwit", z3.ArraySort(kt.sort(), z3.IntSort()))
        o = DictObj(kt, vt, mem, vals, seq.n)
        for f in o.wf_facts(st):
            st.assume(f)
        from .values import forall_pat

        st.assume(forall_pat([i], z3.Implies(z3.And(0 <= i, i < seq.n), z3.And(mem[key_at(i)], vals[key_at(i)] == val_at(i), wit[key_at(i)] == i)), key_at(i)))
        st.assume(z3.ForAll([k], z3.Implies(mem[k], z3.And(0 <= wit[k], wit[k] < seq.n, key_at(wit[k]) == k)), patterns=[mem[k]]))
        o.pair_wit = wit
        return st.alloc(o)


# =============================================================================== HDF5 cache file (gemseo.caches._hdf5_file_singleton)
# An *entry group* of the cache file (root/<index>/<inputs|outputs|jacobian>) is a map from names to datasets; a dataset has a
# content (opaque value) and attributes (name -> value).  Group kind "e": fields ds (name -> content), attrs (name -> attributes).
#   A16 create_dataset returns a handle of the new dataset; dataset.attrs.create(k, v) sets attribute k; dataset.attrs.get(k) is the
#       attribute or None; group.items() enumerates (name, dataset handle) of every dataset of the group, each once
#       (validated by tools/validate_h5py_model.py)
# SciPy sparse arrays (ASSUMED contract on scipy, validated natively by the same script): a sparse value v has a format tag
# sp_fmt(v) and, for the compressed formats, the components data/indices/indptr/shape; mat(v) is the matrix it denotes.
#   S1 v.tocsr() is a sparse array in CSR format denoting the same matrix (and is v itself when v is already CSR)
#   S2 a CSR array denotes csr_den(data, indices, indptr, shape) - the matrix given by its row-compressed triple
#   S3 csr_array((data, indices, indptr), shape) is the CSR array with exactly these components
#   S4 hasattr(v, "indptr") depends on the format only, and holds for CSR (also for CSC and BSR, which is why it does NOT identify CSR)
CMOD = "gemseo.caches._hdf5_file_singleton"
ATTRS = TDict(TStr, TVal)
EDS = TDict(TStr, TVal, ordered=True)
EAT = TDict(TStr, ATTRS)

is_sparse = z3.Function("is_sparse", ValS, z3.BoolSort())  # isinstance(v, sparse_classes)
sp_fmt = z3.Function("sp_fmt", ValS, z3.IntSort())
sp_data, sp_indices, sp_indptr, sp_shape = (z3.Function(f"sp_{n}", ValS, ValS) for n in ("data", "indices", "indptr", "shape"))
sp_tocsr = z3.Function("sp_tocsr", ValS, ValS)
sp_mat = z3.Function("sp_mat", ValS, ValS)  # the matrix denoted by a sparse array (format independent)
csr_den = z3.Function("csr_den", ValS, ValS, ValS, ValS, ValS)  # the matrix denoted by a CSR triple + shape
csr_make = z3.Function("csr_make", ValS, ValS, ValS, ValS, ValS)  # csr_array((data, indices, indptr), shape)
fmt_has_indptr = z3.Function("fmt_has_indptr", z3.IntSort(), z3.BoolSort())
csr_inferred_shape = z3.Function("csr_inferred_shape", ValS, ValS, ValS)  # (len(indptr) - 1, max(indices) + 1)
arr_is_empty = z3.Function("arr_is_empty", ValS, z3.BoolSort())
FMT_CSR = z3.IntVal(0)
val_true = z3.Function("val_of_bool", z3.BoolSort(), ValS)(z3.BoolVal(True))
val_truthy = z3.Function("val_truthy", ValS, z3.BoolSort())  # bool(v) of an attribute value


def sparse_facts(v):
    """Ground instances of S1, S2, S4 for the sparse value v (quantifier free, so that a counter-model is a genuine one)."""
    t = sp_tocsr(v)
    den = lambda x: csr_den(sp_data(x), sp_indices(x), sp_indptr(x), sp_shape(x))  # noqa: E731
    return [z3.Implies(is_sparse(v), z3.And(is_sparse(t), sp_fmt(t) == FMT_CSR, sp_mat(t) == sp_mat(v), sp_mat(t) == den(t))),
            z3.Implies(z3.And(is_sparse(v), sp_fmt(v) == FMT_CSR), z3.And(t == v, sp_mat(v) == den(v))),
            fmt_has_indptr(FMT_CSR), val_truthy(val_true)]


def csr_make_facts(d, i, p, s):
    r = csr_make(d, i, p, s)
    return [is_sparse(r), sp_fmt(r) == FMT_CSR, sp_data(r) == d, sp_indices(r) == i, sp_indptr(r) == p, sp_shape(r) == s, sp_mat(r) == csr_den(d, i, p, s),
            z3.Not(np_dtype_is_bytes(r)), z3.Not(np_dtype_is_str(r))]  # (sparse arrays have a numeric dtype)


class _TAttrOpt(_T):
    """Result of ``dataset.attrs.get(key)``: the attribute value or None.  (Own type, not TOpt: its truth value is
    'present AND the value is truthy', see HdfCacheModels.truth.)"""

    name = "H5AttrOrNone"
    dt = TOpt(TVal).dt

    def sort(self):
        return self.dt

    def embed(self, st, v):
        if isinstance(v, SV) and v.ty == self:
            return v.term
        raise Unsupported(f"cannot embed {v!r} as an attribute value")


TAttrOpt = _TAttrOpt()


class _TDsetHandle(_T):
    """Parameter type: a handle of an existing dataset of some entry group (fresh: a fresh group and a member name)."""

    name = "H5DatasetHandle"

    def fresh(self, st, hint):
        from .values import TObj

        grp = TObj(GROUP, schema_key=GROUP + "#e").fresh(st, hint + ".group")
        nm = st.fresh_const(hint + ".name", StrS)
        st.assume(st.heap[st.heap[grp.id].fields["ds"].id].member[nm])
        return st.alloc(H5View("eds", grp, nm))

    def sort(self):
        raise Unsupported("a dataset handle cannot be stored in a symbolic container")


TDsetHandle = _TDsetHandle()


def _in_cmod(ex):
    return ex.frame.module.name == CMOD


def _val_of(ex, v):
    """Opaque content of a value handed to h5py (arrays, flags, shapes)."""
    from .gmodels import to_val

    if isinstance(v, SV) and isinstance(v.ty, TOpt):
        return v.ty.dt.get(v.term)
    if isinstance(v, SV) and type(v.ty).__name__ == "TAddr":
        return ex.st.symheap(v.ty.heap, v.ty.content.sort())[v.term]  # the content of the array object
    t = to_val(ex, v)
    if t is None:
        raise Unsupported(f"h5py model: cannot store {v!r}")
    return t


class HdfCacheModels:
    """Hooks for the cache-file layout (registered with HdfModels; gated on kind 'e' groups, their handles, or module CMOD)."""

    def _grp(self, ex, view):
        o = ex.st.heap[view.parent.id]
        return _dict(ex, o.fields["ds"]), _dict(ex, o.fields["attrs"])

    def pyobj_attr(self, ex, ref, o, attr, lineno):
        return NotImplemented

    def ref_attr(self, ex, ref, o, attr, lineno):
        if isinstance(o, H5View) and o.kind == "eds" and attr == "attrs":
            return ex.st.alloc(H5View("eattr", o.parent, o.name))
        return NotImplemented

    def value_attr(self, ex, obj, attr, lineno):
        if _in_cmod(ex) and isinstance(obj, SV) and obj.ty == TVal and attr in ("data", "indices", "indptr", "shape"):
            f = {"data": sp_data, "indices": sp_indices, "indptr": sp_indptr, "shape": sp_shape}[attr]
            ex.assumed.add("scipy sparse arrays: abstract (format tag, data, indices, indptr, shape); S1-S4 (pyvc/plug_hdf.py)")
            return SV(f(obj.term), TVal)
        return NotImplemented

    def call_method(self, ex, recv, name, args, kwargs, lineno):
        st = ex.st
        if _in_cmod(ex) and isinstance(recv, SV) and recv.ty == TVal and name == "tocsr" and not args:
            for f in sparse_facts(recv.term):
                st.assume(f)
            ex.assumed.add("S1: v.tocsr() is a CSR array denoting the same matrix (v itself if v is CSR); S2: a CSR array denotes the matrix of its triple")
            return SV(sp_tocsr(recv.term), TVal)
        if not isinstance(recv, Ref):
            return NotImplemented
        o = st.heap[recv.id]
        if isinstance(o, H5View) and o.kind == "eattr":
            ds, attrs = self._grp(ex, o)
            ex.assumed.add("A16: dataset.attrs.create(k, v) sets attribute k; attrs.get(k) is the attribute or None")
            cur = attrs.vals[o.name]
            if name == "create":
                kt = _str_term(ex, args[0])
                raw = args[1] if len(args) > 1 else kwargs["data"]
                vt = _val_of(ex, raw)
                if raw is True:
                    st.assume(val_truthy(vt))  # bool(True)
                mem, vals, n = (ATTRS.acc(i)(cur) for i in range(3))
                new = ATTRS.dt.mk(z3.Store(mem, kt, z3.BoolVal(True)), z3.Store(vals, kt, vt), z3.If(mem[kt], n, n + 1))
                attrs.vals = z3.Store(attrs.vals, o.name, new)
                ex.writeback(attrs)
                return None
            if name == "get" and len(args) == 1:
                kt = _str_term(ex, args[0])
                ot = TAttrOpt
                return SV(z3.If(ATTRS.acc(0)(cur)[kt], ot.dt.some(ATTRS.acc(1)(cur)[kt]), ot.dt.none), ot)
        if _kind(o) == "e" and name in ("h5:create_dataset", "h5:items"):
            ds, attrs = _dict(ex, o.fields["ds"]), _dict(ex, o.fields["attrs"])
            if name == "h5:create_dataset":
                ex.assumed.add("A4/A16: create_dataset(name, data=d) adds the dataset holding d (no attribute) and returns its handle; ValueError if the name exists")
                nt = _str_term(ex, args[0])
                data = kwargs.get("data", args[1] if len(args) > 1 else None)
                if st.decide(ds.member[nt]):
                    raise _raise("ValueError", lineno)
                _dict_set(ds, ex, nt, _val_of(ex, data))
                e = DictObj.empty(st, TStr, TVal)
                _dict_set(attrs, ex, nt, ATTRS.dt.mk(e.member, e.vals, e.n))
                return st.alloc(H5View("eds", recv, nt))
            from .engine import IterV

            ds.ensure_order(st)
            keys = ds.keys
            it = IterV(ds.n, lambda i: (SV(keys[i], TStr), st.alloc(H5View("eds", recv, keys[i]))))
            it.keys, it.pos = ds.keys, ds.pos
            return it
        return NotImplemented

    def truth(self, ex, v):
        if isinstance(v, SV) and v.ty == TAttrOpt:
            return z3.And(z3.Not(v.ty.dt.is_none(v.term)), val_truthy(v.ty.dt.get(v.term)))
        return NotImplemented

    def call_builtin(self, ex, name, args, kwargs, lineno, node=None):
        st = ex.st
        if not _in_cmod(ex):
            return NotImplemented
        if name == "hasattr" and len(args) == 2 and args[1] == "indptr" and isinstance(args[0], SV) and args[0].ty == TVal:
            ex.assumed.add("S4: hasattr(v, 'indptr') depends on the sparse format only and holds for CSR (and CSC, BSR)")
            st.assume(fmt_has_indptr(FMT_CSR))
            return SV(fmt_has_indptr(sp_fmt(args[0].term)), TBool)
        if name in ("scipy.sparse.csr_array", "csr_array") and len(args) in (1, 2) and isinstance(args[0], tuple) and len(args[0]) == 3 and not kwargs:
            parts = []
            for x in (*args[0], *args[1:]):
                if isinstance(x, Ref) and isinstance(st.heap[x.id], H5View) and st.heap[x.id].kind == "eds":
                    h = st.heap[x.id]
                    parts.append(_dict(ex, st.heap[h.parent.id].fields["ds"]).vals[h.name])
                elif isinstance(x, SV) and x.ty == TAttrOpt:
                    if st.decide(x.ty.dt.is_none(x.term)):
                        raise _raise("TypeError", lineno)  # csr_array((data, None, ..)): invalid input
                    parts.append(x.ty.dt.get(x.term))
                else:
                    parts.append(_val_of(ex, x))
            if len(parts) == 3:
                # S5 (validated natively): without a shape SciPy INFERS it from the index arrays - len(indptr) - 1 rows and
                # max(indices) + 1 columns - and raises ValueError when there is no stored element to infer the columns from
                ex.assumed.add("S5: csr_array((data, indices, indptr)) without shape infers (len(indptr) - 1, max(indices) + 1); ValueError if indices is empty")
                if st.decide(arr_is_empty(parts[1])):
                    raise _raise("ValueError", lineno)
                parts.append(csr_inferred_shape(parts[1], parts[2]))
            for f in csr_make_facts(*parts):
                st.assume(f)
            ex.assumed.add("S3: csr_array((data, indices, indptr), shape) is the CSR array with exactly these components")
            from .values import TAddr

            return SV(st.alloc_addr("arr", csr_make(*parts), ValS), TAddr("arr", TVal))  # a new array object
        return NotImplemented

    def call_repo_model(self, ex, fi, args, kwargs, lineno):
        if fi.qualname == "gemseo.caches.utils.to_real" and _in_cmod(ex):
            ex.assumed.add("to_real is the identity on real data (complex values: not covered)")
            return args[0]
        return NotImplemented


# ------------------------------------------------------------------------------- the whole cache file (write_data / read_data)
# The node ``hdf_node_path`` of the cache file: entries <index> -> {"hash": dataset, <group>: entry group}.  Flattened model (object kind
# "cfile", referenced by HDF5FileSingleton.__file): ents (set of entry names), hashes (entry -> hash dataset), grps (set of
# h5_path(entry, group)), gds / gat (h5_path(entry, group) -> datasets / attributes of the entry group).  ASSUMPTION (not verified):
# the open/keep_open/close protocol of HDF5FileSingleton (``with self.__open(..)``) gives access to the persistent content of the
# file and persists what is written (A1/A14); the lock is a no-op (single thread of control).
from .values import TAddr as _TAddr, TSet as _TSet  # noqa: E402

CGDS = TDict(TStr, EDS)
CGAT = TDict(TStr, EAT)
CFILE_SCHEMA = {"nmem": TInt, "node": TBool, "version": TOpt(TInt), "ents": _TSet(TStr), "hashes": TDict(TStr, TVal), "grps": _TSet(TStr), "gds": CGDS, "gat": CGAT}
h5_path = z3.Function("h5_path", StrS, StrS, StrS)
h5_path_e = z3.Function("h5_path_entry", StrS, StrS)
h5_path_g = z3.Function("h5_path_group", StrS, StrS)
np_dtype_is_str = z3.Function("np_dtype_is_str", ValS, z3.BoolSort())  # value.dtype.type is numpy.str_
np_dtype_is_bytes = z3.Function("np_dtype_is_bytes", ValS, z3.BoolSort())  # value.dtype.type is numpy.bytes_
np_to_bytes = z3.Function("np_astype_bytes", ValS, ValS)
np_to_str = z3.Function("np_astype_str", ValS, ValS)
hash_bytes = z3.Function("h5_hash_dataset", z3.IntSort(), ValS)  # array([hash], dtype="bytes")


def path_of(i, g):
    return h5_path(i, g)


def path_facts(i, g):
    p = h5_path(i, g)
    return [h5_path_e(p) == i, h5_path_g(p) == g]


def astype_facts(c):
    """numpy (assumed): a str array converted to bytes is a bytes array, and converting it back gives the str array (ASCII)."""
    return [z3.Implies(np_dtype_is_str(c), z3.And(np_dtype_is_bytes(np_to_bytes(c)), np_to_str(np_to_bytes(c)) == c, z3.Not(is_sparse(np_to_bytes(c)))))]


class _DType:
    def __init__(self, content, level):
        self.content, self.level = content, level


class HdfCacheFileModels:
    def _file(self, ex, ref):
        o = ex.st.heap[ref.id] if isinstance(ref, Ref) else None
        return o if _kind(o) == "cfile" else None

    def _content(self, ex, v):
        if isinstance(v, SV) and isinstance(v.ty, _TAddr):
            return ex.st.symheap(v.ty.heap, v.ty.content.sort())[v.term]
        if isinstance(v, SV) and v.ty.sort() == ValS:
            return v.term
        return None

    def _cgroup(self, ex, fref, i, g):
        st = ex.st
        f = st.heap[fref.id]
        p = h5_path(i, g)
        for fact in path_facts(i, g):
            st.assume(fact)
        gds, gat = _dict(ex, f.fields["gds"]), _dict(ex, f.fields["gat"])
        o = PyObj(GROUP, {"ds": EDS.project(st, gds.vals[p], (f.fields["gds"], p, "dict")), "attrs": EAT.project(st, gat.vals[p], (f.fields["gat"], p, "dict"))})
        o.schema_key = GROUP + "#e"
        return st.alloc(o)

    # -- with self.__open(..): the persistent content is reachable through self.__file (protocol assumed)
    def call_repo_model(self, ex, fi, args, kwargs, lineno):
        if fi.qualname in (CMOD + ".HDF5FileSingleton.__open", CMOD + ".HDF5FileSingleton._HDF5FileSingleton__open"):
            ex.assumed.add("HDF5FileSingleton.__open/keep_open/close: inside `with self.__open(..)` self.__file gives access to the persistent content of the file, "
                           "and what is written persists (protocol not verified; lock = no-op)")
            return BuiltinV("nullcontext")
        return NotImplemented

    def pyobj_attr(self, ex, ref, o, attr, lineno):
        if _kind(o) == "cfile" and attr == "attrs":
            return ex.st.alloc(H5View("fattr", ref, None))
        return NotImplemented

    def setitem(self, ex, cont, key, v, lineno):
        o = ex.st.heap[cont.id] if isinstance(cont, Ref) else None
        if isinstance(o, H5View) and o.kind == "fattr" and key == "version":
            t = TOpt(TInt)
            ex.st.heap[o.parent.id].fields["version"] = SV(t.embed(ex.st, v), t)
            return None
        return NotImplemented

    def ref_attr(self, ex, ref, o, attr, lineno):
        if isinstance(o, _DTypeObj) and attr == "type" and o.level == 0:
            return ex.st.alloc(_DTypeObj(o.content, 1))
        return NotImplemented

    def value_attr(self, ex, obj, attr, lineno):
        if not _in_cmod(ex):
            return NotImplemented
        c = self._content(ex, obj)
        if c is not None and attr == "dtype" and not isinstance(obj, _DType):
            return ex.st.alloc(_DTypeObj(c, 0))
        return NotImplemented

    def length(self, ex, v, lineno):
        f = self._file(ex, v)
        if f is not None:
            return f.fields["nmem"]
        return NotImplemented

    def module_constant(self, ex, mi, name):
        if name == "sparse_classes" and _in_cmod(ex):  # (gated: other properties resolve this name through their own models)
            return BuiltinV("scipy.sparse_classes")
        return NotImplemented

    def isinstance_(self, ex, v, cls):
        if _in_cmod(ex) and isinstance(cls, BuiltinV) and cls.name == "scipy.sparse_classes":
            c = self._content(ex, v)
            if c is not None:
                ex.assumed.add("isinstance(value, sparse_classes) is the uninterpreted predicate is_sparse(content)")
                return SV(is_sparse(c), TBool)
        return NotImplemented

    def compare_any(self, ex, op, a, b, lineno):
        if op in ("Is", "IsNot") and isinstance(a, Ref) and isinstance(ex.st.heap.get(a.id), _DTypeObj) and isinstance(b, BuiltinV):
            d = ex.st.heap[a.id]
            short = b.name.rsplit(".", 1)[-1]
            if d.level == 1 and short in ("str_", "bytes_"):
                t = (np_dtype_is_str if short == "str_" else np_dtype_is_bytes)(d.content)
                return SV(t if op == "Is" else z3.Not(t), TBool)
        return NotImplemented

    def coerce(self, ex, v, t):
        if t == TVal and isinstance(v, SV) and isinstance(v.ty, _TAddr) and _in_cmod(ex):
            return SV(self._content(ex, v), TVal)  # the array object handed to a helper that only reads its content
        return NotImplemented

    def getitem(self, ex, cont, key, lineno):
        st = ex.st
        if not isinstance(cont, Ref):
            return NotImplemented
        o = st.heap[cont.id]
        f = self._file(ex, cont)
        if f is not None:
            # file[node path]
            if not st.decide(ex.truth(f.fields["node"])):
                raise _raise("KeyError", lineno)
            return st.alloc(H5View("croot", cont, None))
        if isinstance(o, H5View) and o.kind == "croot":
            kt = _str_term(ex, key)
            fo = st.heap[o.parent.id]
            if not st.decide(st.heap[fo.fields["ents"].id].member[kt]):
                raise _raise("KeyError", lineno)
            return st.alloc(H5View("centry", o.parent, kt))
        if isinstance(o, H5View) and o.kind == "centry":
            fo = st.heap[o.parent.id]
            gt = _str_term(ex, key)
            if not st.decide(st.heap[fo.fields["grps"].id].member[h5_path(o.name, gt)]):
                raise _raise("KeyError", lineno)
            return self._cgroup(ex, o.parent, o.name, gt)
        return NotImplemented

    def call_method(self, ex, recv, name, args, kwargs, lineno):
        st = ex.st
        if _in_cmod(ex) and name == "astype" and len(args) == 1:
            c = self._content(ex, recv)
            if c is not None:
                tgt = args[0].name.rsplit(".", 1)[-1] if isinstance(args[0], BuiltinV) else args[0]
                for fact in astype_facts(c):
                    st.assume(fact)
                ex.assumed.add("numpy astype: str -> bytes -> str is the identity on (ASCII) str arrays; a bytes array converted from a str array has dtype bytes_")
                if tgt == "bytes":
                    return SV(np_to_bytes(c), TVal)
                if tgt == "str_" and isinstance(recv, SV) and isinstance(recv.ty, _TAddr):
                    return SV(st.alloc_addr(recv.ty.heap, np_to_str(c), ValS), recv.ty)
        if not isinstance(recv, Ref):
            return NotImplemented
        o = st.heap[recv.id]
        if isinstance(o, _DTypeObj):
            return NotImplemented
        f = self._file(ex, recv)
        nm = name[3:] if name.startswith("h5:") else name
        if f is not None and nm == "require_group":
            was = ex.truth(f.fields["node"])
            f.fields["nmem"] = SV(z3.If(was, f.fields["nmem"].term, f.fields["nmem"].term + 1), TInt)
            f.fields["node"] = True
            return st.alloc(H5View("croot", recv, None))
        if isinstance(o, H5View) and o.kind == "croot":
            fo = st.heap[o.parent.id]
            ents = st.heap[fo.fields["ents"].id]
            kt = _str_term(ex, args[0])
            if nm == "require_group":
                from .models import _set_add

                _set_add(ents, kt)
                return st.alloc(H5View("centry", o.parent, kt))
            if nm == "get" and len(args) == 1:
                if st.decide(ents.member[kt]):
                    return st.alloc(H5View("centry", o.parent, kt))
                return None
        if isinstance(o, H5View) and o.kind == "centry":
            fo = st.heap[o.parent.id]
            hashes, grps = _dict(ex, fo.fields["hashes"]), st.heap[fo.fields["grps"].id]
            if nm == "get" and len(args) == 1 and args[0] == "hash":
                ot = TOpt(TVal)
                return SV(z3.If(hashes.member[o.name], ot.dt.some(hashes.vals[o.name]), ot.dt.none), ot)
            if nm == "create_dataset" and args and args[0] == "hash":
                if st.decide(hashes.member[o.name]):
                    raise _raise("ValueError", lineno)
                _dict_set(hashes, ex, o.name, _val_of(ex, kwargs.get("data", args[1] if len(args) > 1 else None)))
                return None
            gt = _str_term(ex, args[0])
            p = h5_path(o.name, gt)
            if nm == "get" and len(args) == 1:
                if st.decide(grps.member[p]):
                    return self._cgroup(ex, o.parent, o.name, gt)
                return None
            if nm == "require_group":
                if not st.decide(grps.member[p]):
                    from .models import _set_add

                    _set_add(grps, p)
                    gds, gat = _dict(ex, fo.fields["gds"]), _dict(ex, fo.fields["gat"])
                    e1, e2 = DictObj.empty(st, TStr, TVal, ordered=True), DictObj.empty(st, TStr, ATTRS)
                    _dict_set(gds, ex, p, EDS.dt.mk(e1.member, e1.vals, e1.n, e1.keys, e1.pos))
                    _dict_set(gat, ex, p, EAT.dt.mk(e2.member, e2.vals, e2.n))
                return self._cgroup(ex, o.parent, o.name, gt)
        return NotImplemented

    def call_builtin(self, ex, name, args, kwargs, lineno, node=None):
        st = ex.st
        if not _in_cmod(ex):
            return NotImplemented
        short = name.rsplit(".", 1)[-1]
        if name == "str" and len(args) == 1 and ex.num(args[0]) is not None and ex.num(args[0])[1] == TInt:
            return SV(str_of_int(ex.num(args[0])[0]), TStr)
        if short == "array" and name.startswith("numpy") and len(args) == 1:
            a = args[0]
            if isinstance(a, Ref) and isinstance(st.heap[a.id], H5View) and st.heap[a.id].kind == "eds":
                h = st.heap[a.id]
                c = _dict(ex, st.heap[h.parent.id].fields["ds"]).vals[h.name]
                ex.assumed.add("A12: array(dataset) is a new array holding the stored content")
                t = _TAddr("arr", TVal)
                return SV(st.alloc_addr("arr", c, ValS), t)
            if isinstance(a, Ref) and isinstance(st.heap[a.id], ListObj) and "dtype" in kwargs:
                lo = st.heap[a.id]
                if lo.t == TInt and z3.is_int_value(z3.simplify(lo.n)) and z3.simplify(lo.n).as_long() == 1:
                    return SV(hash_bytes(z3.simplify(lo.elems[0])), TVal)
        return NotImplemented


class _DTypeObj(HeapObj):
    """``value.dtype`` (level 0) / ``value.dtype.type`` (level 1) of an array content."""

    def __init__(self, content, level):
        self.content, self.level = content, level

    def clone(self):
        return _DTypeObj(self.content, self.level)


# =============================================================================== design-space group (DesignSpace.to_hdf / from_hdf)
# The group "design_space" of the node: a dataset "names" (sequence of variable names) and one sub-group per variable holding the
# datasets size, l_b, u_b, var_type and - optionally - value.  Flattened model (object kind "dsg"): names / has_names, vgrp (set of
# variable groups), vsize / vlb / vub / vtype / vval (variable -> dataset content; membership = the dataset exists).  Kept between two
# `with h5py.File(..)` blocks in the ghosts h5ds_*.  h5py assumptions A1-A5, A11, A12 as above, plus
#   A17 dataset[()] of a scalar dataset is the stored scalar; group.get(name) is the member or None   (validated natively)
# numpy: ``array([t] * n, dtype="bytes")`` is the opaque value type_rep(t, n) whose element 0 (decoded) is t when n >= 1.
# ASSUMPTION: no variable is called "names" (its group would collide with the dataset of the same name).
DSMOD = "gemseo.algos.design_space"
DS_NAMES = TList(TStr)
from .values import TSet as _TSet2  # noqa: E402

DS_FIELDS = {"names": DS_NAMES, "has_names": TBool, "vgrp": _TSet2(TStr), "vsize": TDict(TStr, TInt), "vlb": TDict(TStr, TNd), "vub": TDict(TStr, TNd),
             "vtype": TDict(TStr, TVal), "vval": TDict(TStr, TNd)}
for _f, _t in DS_FIELDS.items():
    declare_ghost("h5ds_" + _f, _t.sort())
declare_ghost("h5ds_has", z3.BoolSort())
type_rep = z3.Function("np_type_rep", StrS, z3.IntSort(), ValS)  # array([t] * n, dtype="bytes")
type_first = z3.Function("np_type_first", ValS, StrS)  # array(dataset)[0] (decoded by add_variable)
DS_KEYS = {"size": "vsize", "l_b": "vlb", "u_b": "vub", "var_type": "vtype", "value": "vval"}


def _in_dsmod(ex):
    # (opt-in: only for contracts carrying ``c11_hdf = True``, so that the other contracts on gemseo.algos.design_space are not affected)
    return ex.frame.module.name == DSMOD and getattr(ex.contract, "c11_hdf", False)


class HdfDesignSpaceModels:
    def _dsg(self, ex, ref):
        o = ex.st.heap[ref.id] if isinstance(ref, Ref) else None
        return o if _kind(o) == "dsg" else None

    def call_builtin(self, ex, name, args, kwargs, lineno, node=None):
        st = ex.st
        if not _in_dsmod(ex):
            return NotImplemented
        if name == "h5py.File":
            mode = args[1] if len(args) > 1 else kwargs.get("mode", "r")
            if not isinstance(mode, str):
                raise Unsupported("h5py.File with a symbolic mode")
            ex.assumed.add("A1/A14: h5py.File - 'w' truncates, 'a'/'r' give the content left by the last writer (design-space group kept in ghosts h5ds_*)")
            g = PyObj(GROUP, {})
            g.schema_key = GROUP + "#dsg"
            for f, t in DS_FIELDS.items():
                if mode == "w":
                    g.fields[f] = False if t == TBool else (st.alloc(_mk_empty(st, t)))
                else:
                    term = st.ghost_get("h5ds_" + f, t.sort())
                    g.fields[f] = SV(term, TBool) if t == TBool else t.project(st, term)
            node_ = PyObj(GROUP, {"dsg": st.alloc(g), "has": False if mode == "w" else SV(st.ghost_get("h5ds_has", z3.BoolSort()), TBool), "mode": mode})
            node_.schema_key = GROUP + "#dsnode"
            ref = st.alloc(node_)
            st.ghost.setdefault("h5_open", []).append(ref)
            return ref
        short = name.rsplit(".", 1)[-1]
        if short == "array" and name.startswith("numpy") and len(args) == 1:
            a = args[0]
            if isinstance(a, Ref) and isinstance(st.heap[a.id], ListObj) and "dtype" in kwargs:
                return a  # A6: array(names, dtype=bytes_) holds the same sequence of names
            if isinstance(a, SV) and a.ty == TVal and z3.is_app(a.term) and a.term.decl().name() == "np_type_rep":
                return a
            if isinstance(a, Ref) and isinstance(st.heap[a.id], H5View) and st.heap[a.id].kind == "dsval":
                h = st.heap[a.id]
                d = _dict(ex, st.heap[h.parent.id].fields[DS_KEYS[h.name[1]]])
                ex.assumed.add("A12: array(dataset) is the stored content")
                return SV(d.vals[h.name[0]], d.v)
        return NotImplemented

    def enter_context(self, ex, v, node):
        if isinstance(v, Ref) and _kind(ex.st.heap[v.id]) == "dsnode":
            return v
        return NotImplemented

    def exit_context(self, ex, node, exc):
        st = ex.st
        opened = st.ghost.get("h5_open")
        if not opened or _kind(st.heap[opened[-1].id]) != "dsnode":
            return NotImplemented
        o = st.heap[opened.pop().id]
        if o.fields["mode"] in ("w", "a"):
            g = st.heap[o.fields["dsg"].id]
            for f, t in DS_FIELDS.items():
                v = g.fields[f]
                st.ghost_set("h5ds_" + f, (z3.BoolVal(v) if isinstance(v, bool) else v.term) if t == TBool else t.embed(st, v))
            h = o.fields["has"]
            st.ghost_set("h5ds_has", z3.BoolVal(h) if isinstance(h, bool) else h.term)
        return None

    def binop(self, ex, op, a, b, lineno, inplace=False):
        if op == "Mult" and _in_dsmod(ex) and isinstance(a, Ref) and isinstance(ex.st.heap[a.id], ListObj):
            lo = ex.st.heap[a.id]
            n = ex.num(b)
            if lo.t == TStr and z3.is_int_value(z3.simplify(lo.n)) and z3.simplify(lo.n).as_long() == 1 and n is not None and n[1] == TInt:
                ex.assumed.add("numpy: array([t] * n, dtype='bytes') is an opaque value whose element 0 decodes to t when n >= 1")
                return SV(type_rep(z3.simplify(lo.elems[0]), n[0]), TVal)
        return NotImplemented

    def call_repo_model(self, ex, fi, args, kwargs, lineno):
        if fi.qualname in (DSMOD + ".DesignSpace.__to_real", DSMOD + ".DesignSpace._DesignSpace__to_real") and _in_dsmod(ex):
            ex.assumed.add("DesignSpace.__to_real is the identity on real data (complex values: not covered)")
            return args[-1]
        return NotImplemented

    def pyobj_attr(self, ex, ref, o, attr, lineno):
        return NotImplemented

    def getitem(self, ex, cont, key, lineno):
        st = ex.st
        if _in_dsmod(ex) and isinstance(cont, SV) and cont.ty == TVal and key == 0:
            return SV(type_first(cont.term), TStr)  # var_type[0]
        if not isinstance(cont, Ref):
            return NotImplemented
        o = st.heap[cont.id]
        k = _kind(o)
        if k == "dsnode":
            if key == "design_space":
                if not st.decide(ex.truth(o.fields["has"])):
                    raise _raise("KeyError", lineno)
                return o.fields["dsg"]
            if isinstance(key, SV) and key.ty == TStr:
                return cont
            raise Unsupported(f"h5py model: node[{key!r}]")
        if k == "dsg":
            if key == "names":
                if not st.decide(ex.truth(o.fields["has_names"])):
                    raise _raise("KeyError", lineno)
                return st.alloc(H5View("dsnames", cont, None))
            nt = _str_term(ex, key)
            if not st.decide(st.heap[o.fields["vgrp"].id].member[nt]):
                raise _raise("KeyError", lineno)
            return st.alloc(H5View("dsvar", cont, nt))
        if isinstance(o, H5View) and o.kind == "dsvar" and isinstance(key, str) and key in DS_KEYS:
            d = _dict(ex, st.heap[o.parent.id].fields[DS_KEYS[key]])
            if not st.decide(d.member[o.name]):
                raise _raise("KeyError", lineno)
            return st.alloc(H5View("dsval", o.parent, (o.name, key)))
        if isinstance(o, H5View) and o.kind == "dsval" and key == ():
            d = _dict(ex, st.heap[o.parent.id].fields[DS_KEYS[o.name[1]]])
            ex.assumed.add("A17: dataset[()] of a scalar dataset is the stored scalar; group.get(name) is the member or None")
            return SV(d.vals[o.name[0]], d.v)
        return NotImplemented

    def to_iter(self, ex, v, lineno):
        from .engine import IterV

        st = ex.st
        if isinstance(v, Ref) and isinstance(st.heap[v.id], H5View) and st.heap[v.id].kind == "dsnames":
            lo = st.heap[st.heap[st.heap[v.id].parent.id].fields["names"].id]
            n, el = lo.n, lo.elems
            it = IterV(n, lambda i: SV(el[i], TStr))
            it.elem_type = TStr
            return it
        return NotImplemented

    def call_method(self, ex, recv, name, args, kwargs, lineno):
        st = ex.st
        if name == "decode" and isinstance(recv, SV) and recv.ty == TStr and not args and _in_dsmod(ex):
            return recv
        if not isinstance(recv, Ref):
            return NotImplemented
        o = st.heap[recv.id]
        k = _kind(o)
        nm = name[3:] if name.startswith("h5:") else name
        if k == "dsnode" and nm == "require_group":
            if args[0] == "design_space":
                o.fields["has"] = True
                return o.fields["dsg"]
            if isinstance(args[0], SV) and args[0].ty == TStr:
                return recv
        if k == "dsg":
            if nm == "create_dataset" and args[0] == "names":
                if st.decide(ex.truth(o.fields["has_names"])):
                    raise _raise("ValueError", lineno)
                n, el = _list_term(ex, kwargs.get("data", args[1] if len(args) > 1 else None), TStr)
                lo = st.heap[o.fields["names"].id]
                lo.n, lo.elems, lo.is_empty_literal = n, el, False
                o.fields["has_names"] = True
                return None
            if nm == "require_group":
                from .models import _set_add

                nt = _str_term(ex, args[0])
                _set_add(st.heap[o.fields["vgrp"].id], nt)
                return st.alloc(H5View("dsvar", recv, nt))
            if nm == "get" and args and isinstance(args[0], str) and args[0] in DS_KEYS:
                return None  # (the group itself has no such dataset: no variable is called size / l_b / u_b / var_type / value)
        if isinstance(o, H5View) and o.kind == "dsvar":
            g = st.heap[o.parent.id]
            key = args[0] if args else None
            if isinstance(key, str) and key in DS_KEYS:
                d = _dict(ex, g.fields[DS_KEYS[key]])
                if nm == "create_dataset":
                    if st.decide(d.member[o.name]):
                        raise _raise("ValueError", lineno)
                    data = kwargs.get("data", args[1] if len(args) > 1 else None)
                    if isinstance(data, SV) and isinstance(data.ty, TOpt):
                        data = SV(data.ty.dt.get(data.term), data.ty.inner)
                    _dict_set(d, ex, o.name, d.v.embed(st, data))
                    return None
                if nm == "get":
                    ex.assumed.add("A17: dataset[()] of a scalar dataset is the stored scalar; group.get(name) is the member or None")
                    if st.decide(d.member[o.name]):
                        return st.alloc(H5View("dsval", o.parent, (o.name, key)))
                    return None
        return NotImplemented


def _mk_empty(st, t):
    if isinstance(t, TDict):
        o = DictObj.empty(st, t.k, t.v, t.ordered)
        o.ty = t
        return o
    if isinstance(t, TList):
        o = ListObj(t.t, z3.IntVal(0), st.fresh_const("el", z3.ArraySort(z3.IntSort(), t.t.sort())))
        o.ty = t
        return o
    from .values import SetObj

    o = SetObj(t.k, z3.K(t.k.sort(), z3.BoolVal(False)), z3.IntVal(0))
    o.ty = t
    return o
