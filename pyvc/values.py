"""Value model of the symbolic executor (DESIGN.md §2.3).

Python-level concrete values (int, bool, str, None, float, tuple) are used as they are.
Symbolic scalars are ``SV(term, ty)``.  Mutable containers and class instances live in the
executor's heap and are referred to by ``Ref``.  Every type knows how to embed a value into a
z3 term (to be stored inside a symbolic container) and how to project it back.
"""
from __future__ import annotations

import itertools
from fractions import Fraction

import z3

# --------------------------------------------------------------------------- sorts
StrS = z3.DeclareSort("Str")
ValS = z3.DeclareSort("Val")  # opaque python values compared by content
str_lit_id = z3.Function("str_lit_id", StrS, z3.IntSort())
_str_lits: dict[str, z3.ExprRef] = {}


def str_lit(s: str) -> z3.ExprRef:
    if s not in _str_lits:
        _str_lits[s] = z3.Const(f"str!{len(_str_lits)}!{_safe(s)}", StrS)
    return _str_lits[s]


def str_lit_facts() -> list:
    return [str_lit_id(c) == i for i, (s, c) in enumerate(_str_lits.items())]


def str_lit_of_term(t):
    for s, c in _str_lits.items():
        if c.eq(t):
            return s
    return None


def _safe(s: str) -> str:
    return "".join(ch if ch.isalnum() else "_" for ch in s)[:24]


class Unsupported(Exception):
    """Construct outside the supported subset -> the check is undecided (exit 2)."""


# --------------------------------------------------------------------------- types
class T:
    """A (contract-declared) type: z3 embedding sort + fresh symbolic values."""

    name = "T"

    def sort(self):
        raise NotImplementedError

    def embed(self, st, v):
        """Value -> z3 term of ``self.sort()``."""
        raise NotImplementedError

    def project(self, st, term, origin=None):
        """z3 term -> Value."""
        return SV(term, self)

    def fresh(self, st, hint: str):
        return self.project(st, st.fresh_const(hint, self.sort()))

    def wf(self, st, term):
        """Type invariant of an embedded term (list of z3 facts)."""
        return []

    def __repr__(self):
        return self.name

    def __eq__(self, o):
        return type(self) is type(o) and repr(self) == repr(o)

    def __hash__(self):
        return hash(repr(self))


class _TInt(T):
    name = "Int"

    def sort(self):
        return z3.IntSort()

    def embed(self, st, v):
        if isinstance(v, bool):
            return z3.IntVal(int(v))
        if isinstance(v, int):
            return z3.IntVal(v)
        if isinstance(v, SV):
            if v.ty == TBool:
                return z3.If(v.term, z3.IntVal(1), z3.IntVal(0))
            if v.ty == TInt:
                return v.term
        raise Unsupported(f"cannot embed {v!r} as Int")


class _TBool(T):
    name = "Bool"

    def sort(self):
        return z3.BoolSort()

    def embed(self, st, v):
        if isinstance(v, bool):
            return z3.BoolVal(v)
        if isinstance(v, SV) and v.ty == TBool:
            return v.term
        raise Unsupported(f"cannot embed {v!r} as Bool")


class _TReal(T):
    name = "Real"

    def sort(self):
        return z3.RealSort()

    def embed(self, st, v):
        if isinstance(v, bool):
            return z3.RealVal(int(v))
        if isinstance(v, int):
            return z3.RealVal(v)
        if isinstance(v, float):
            fr = Fraction(v)
            return z3.RealVal(fr.numerator) / z3.RealVal(fr.denominator) if fr.denominator != 1 else z3.RealVal(fr.numerator)
        if isinstance(v, SV):
            if v.ty == TReal:
                return v.term
            if v.ty == TInt:
                return z3.ToReal(v.term)
            if v.ty == TBool:
                return z3.If(v.term, z3.RealVal(1), z3.RealVal(0))
        raise Unsupported(f"cannot embed {v!r} as Real")


class _TStr(T):
    name = "Str"

    def sort(self):
        return StrS

    def embed(self, st, v):
        if isinstance(v, str):
            return str_lit(v)
        if isinstance(v, SV) and v.ty == TStr:
            return v.term
        raise Unsupported(f"cannot embed {v!r} as Str")


class _TVal(T):
    """Opaque value compared by content (e.g. an output array whose content is irrelevant)."""

    name = "Val"

    def sort(self):
        return ValS

    def embed(self, st, v):
        if isinstance(v, SV) and v.ty.sort() == ValS:
            return v.term
        if v is None:
            return val_none
        if isinstance(v, SV) and v.ty in _val_inj:
            return _val_inj[v.ty](v.term)
        if isinstance(v, (bool, int)) and not isinstance(v, bool):
            return val_of_int(z3.IntVal(v))
        if isinstance(v, str):
            return val_of_str(str_lit(v))
        raise Unsupported(f"cannot embed {v!r} as Val")


class _TNd(_TVal):
    """An opaque numpy array (content only; ``isinstance(v, ndarray)`` holds)."""

    name = "Nd"


class _TCallable(_TVal):
    """An opaque callable stored in a container (listeners, evaluation sequences)."""

    name = "Callable"


class _TNone(T):
    """A field/parameter that is None (contract variant)."""

    name = "None"

    def fresh(self, st, hint):
        return None

    def sort(self):
        raise Unsupported("None type has no sort")


TInt, TBool, TReal, TStr, TVal = _TInt(), _TBool(), _TReal(), _TStr(), _TVal()
TNd, TCallable, TNone = _TNd(), _TCallable(), _TNone()
val_none = z3.Const("val_none", ValS)
val_of_int = z3.Function("val_of_int", z3.IntSort(), ValS)
val_of_str = z3.Function("val_of_str", StrS, ValS)
_val_inj = {TInt: val_of_int, TStr: val_of_str}

_dt_cache: dict[str, object] = {}


class TOpt(T):
    def __init__(self, inner: T):
        self.inner = inner
        self.name = f"Opt[{inner!r}]"
        key = self.name
        if key not in _dt_cache:
            dt = z3.Datatype(f"Opt_{_safe(repr(inner))}_{len(_dt_cache)}")
            dt.declare("none")
            dt.declare("some", ("get", inner.sort()))
            _dt_cache[key] = dt.create()
        self.dt = _dt_cache[key]

    def sort(self):
        return self.dt

    def embed(self, st, v):
        if v is None:
            return self.dt.none
        if isinstance(v, SV) and v.ty == self:
            return v.term
        return self.dt.some(self.inner.embed(st, v))

    def is_none(self, term):
        return self.dt.is_none(term)

    def get(self, st, term, origin=None):
        return self.inner.project(st, self.dt.get(term), origin)

    def wf(self, st, term):
        return []


class TRec(T):
    """Immutable record (z3 datatype) - ranges, small value objects."""

    def __init__(self, name: str, fields: dict[str, T], cls: str | None = None):
        self.rname = name
        self.fields = dict(fields)
        self.cls = cls
        self.name = f"Rec[{name}]"
        if self.name not in _dt_cache:
            dt = z3.Datatype(f"Rec_{_safe(name)}")
            dt.declare("mk", *[(f"{_safe(name)}_{f}", t.sort()) for f, t in fields.items()])
            _dt_cache[self.name] = dt.create()
        self.dt = _dt_cache[self.name]

    def sort(self):
        return self.dt

    def accessor(self, f: str):
        return self.dt.accessor(0, list(self.fields).index(f))

    def embed(self, st, v):
        if isinstance(v, SV) and v.ty == self:
            return v.term
        if isinstance(v, RecV) and v.ty == self:
            return self.dt.mk(*[self.fields[f].embed(st, v.vals[f]) for f in self.fields])
        raise Unsupported(f"cannot embed {v!r} as {self}")

    def project(self, st, term, origin=None):
        return SV(term, self, origin)

    def get_field(self, st, term, f, origin=None):
        return self.fields[f].project(st, self.accessor(f)(term), origin)

    def mk(self, st, **vals):
        return SV(self.dt.mk(*[self.fields[f].embed(st, vals[f]) for f in self.fields]), self)

    def update(self, st, term, f, v):
        args = [self.fields[g].embed(st, v) if g == f else self.accessor(g)(term) for g in self.fields]
        return self.dt.mk(*args)


TRange = TRec("range", {"start": TInt, "stop": TInt})


class TTuple(T):
    def __init__(self, *items: T):
        self.items = items
        self.name = f"Tuple[{','.join(map(repr, items))}]"
        if self.name not in _dt_cache:
            dt = z3.Datatype(f"Tup_{len(_dt_cache)}")
            dt.declare("mk", *[(f"tup{len(_dt_cache)}_{i}", t.sort()) for i, t in enumerate(items)])
            _dt_cache[self.name] = dt.create()
        self.dt = _dt_cache[self.name]

    def sort(self):
        return self.dt

    def embed(self, st, v):
        if isinstance(v, SV) and v.ty == self:
            return v.term
        if isinstance(v, tuple) and len(v) == len(self.items):
            return self.dt.mk(*[t.embed(st, x) for t, x in zip(self.items, v)])
        raise Unsupported(f"cannot embed {v!r} as {self}")

    def project(self, st, term, origin=None):
        # a mutable container held in a tuple stored in a container: its origin names the slot and the tuple item,
        # so that an in-place mutation (d[k][1].extend(...)) is written back (engine.writeback)
        sub = (lambda i: (origin[0], origin[1], ("tuple", origin[2], self, i))) if origin is not None else (lambda i: None)
        return tuple(t.project(st, self.dt.accessor(0, i)(term), sub(i)) for i, t in enumerate(self.items))


class TDict(T):
    """dict[K, V]; ``ordered`` adds the insertion-order view (keys/pos)."""

    def __init__(self, k: T, v: T, ordered: bool = False):
        self.k, self.v, self.ordered = k, v, ordered
        self.name = f"Dict[{k!r},{v!r}{',ord' if ordered else ''}]"
        if self.name not in _dt_cache:
            dt = z3.Datatype(f"Dict_{len(_dt_cache)}")
            fs = [("d_member", z3.ArraySort(k.sort(), z3.BoolSort())), ("d_vals", z3.ArraySort(k.sort(), v.sort())), ("d_n", z3.IntSort())]
            if ordered:
                fs += [("d_keys", z3.ArraySort(z3.IntSort(), k.sort())), ("d_pos", z3.ArraySort(k.sort(), z3.IntSort()))]
            i = len(_dt_cache)
            dt.declare("mk", *[(f"{n}{i}", s) for n, s in fs])
            _dt_cache[self.name] = dt.create()
        self.dt = _dt_cache[self.name]

    def sort(self):
        return self.dt

    def acc(self, i):
        return self.dt.accessor(0, i)

    def embed(self, st, v):
        if isinstance(v, Ref):
            o = st.heap[v.id]
            if isinstance(o, DictObj):
                if o.k.sort() != self.k.sort() or o.v.sort() != self.v.sort():
                    if o.is_empty_literal:
                        o = DictObj.empty(st, self.k, self.v, self.ordered)
                    else:
                        raise Unsupported(f"dict type mismatch: {o.k},{o.v} vs {self}")
                args = [o.member, o.vals, o.n]
                if self.ordered:
                    o.ensure_order(st)
                    args += [o.keys, o.pos]
                return self.dt.mk(*args)
        raise Unsupported(f"cannot embed {v!r} as {self}")

    def project(self, st, term, origin=None):
        o = DictObj(self.k, self.v, self.acc(0)(term), self.acc(1)(term), self.acc(2)(term))
        if self.ordered:
            o.keys, o.pos = self.acc(3)(term), self.acc(4)(term)
        o.origin = origin
        o.ty = self
        for f in o.wf_facts(st):
            st.assume(f)
        return st.alloc(o)

    def fresh(self, st, hint):
        o = DictObj(self.k, self.v, st.fresh_const(hint + "_mem", z3.ArraySort(self.k.sort(), z3.BoolSort())),
                    st.fresh_const(hint + "_vals", z3.ArraySort(self.k.sort(), self.v.sort())), st.fresh_const(hint + "_n", z3.IntSort()))
        o.ty = self
        if self.ordered:
            o.keys = st.fresh_const(hint + "_keys", z3.ArraySort(z3.IntSort(), self.k.sort()))
            o.pos = st.fresh_const(hint + "_pos", z3.ArraySort(self.k.sort(), z3.IntSort()))
        for f in o.wf_facts(st):
            st.assume(f)
        return st.alloc(o)


class TSet(T):
    def __init__(self, k: T):
        self.k = k
        self.name = f"Set[{k!r}]"
        if self.name not in _dt_cache:
            i = len(_dt_cache)
            dt = z3.Datatype(f"Set_{i}")
            dt.declare("mk", (f"s_member{i}", z3.ArraySort(k.sort(), z3.BoolSort())), (f"s_n{i}", z3.IntSort()))
            _dt_cache[self.name] = dt.create()
        self.dt = _dt_cache[self.name]

    def sort(self):
        return self.dt

    def embed(self, st, v):
        if isinstance(v, Ref):
            o = st.heap[v.id]
            if isinstance(o, SetObj):
                return self.dt.mk(o.member, o.n)
        raise Unsupported(f"cannot embed {v!r} as {self}")

    def project(self, st, term, origin=None):
        o = SetObj(self.k, self.dt.accessor(0, 0)(term), self.dt.accessor(0, 1)(term))
        o.origin = origin
        o.ty = self
        for f in o.wf_facts(st):
            st.assume(f)
        return st.alloc(o)

    def fresh(self, st, hint):
        o = SetObj(self.k, st.fresh_const(hint + "_mem", z3.ArraySort(self.k.sort(), z3.BoolSort())), st.fresh_const(hint + "_n", z3.IntSort()))
        o.ty = self
        for f in o.wf_facts(st):
            st.assume(f)
        return st.alloc(o)


class TList(T):
    def __init__(self, t: T):
        self.t = t
        self.name = f"List[{t!r}]"
        if self.name not in _dt_cache:
            i = len(_dt_cache)
            dt = z3.Datatype(f"List_{i}")
            dt.declare("mk", (f"l_n{i}", z3.IntSort()), (f"l_el{i}", z3.ArraySort(z3.IntSort(), t.sort())))
            _dt_cache[self.name] = dt.create()
        self.dt = _dt_cache[self.name]

    def sort(self):
        return self.dt

    def embed(self, st, v):
        if isinstance(v, Ref):
            o = st.heap[v.id]
            if isinstance(o, ListObj):
                return self.dt.mk(o.n, o.elems)
        if isinstance(v, tuple):
            arr = z3.K(z3.IntSort(), self.t.embed(st, v[0])) if v else st.fresh_const("emptyl", z3.ArraySort(z3.IntSort(), self.t.sort()))
            for i, x in enumerate(v):
                arr = z3.Store(arr, i, self.t.embed(st, x))
            return self.dt.mk(z3.IntVal(len(v)), arr)
        raise Unsupported(f"cannot embed {v!r} as {self}")

    def project(self, st, term, origin=None):
        o = ListObj(self.t, self.dt.accessor(0, 0)(term), self.dt.accessor(0, 1)(term))
        o.origin = origin
        o.ty = self
        st.assume(o.n >= 0)
        return st.alloc(o)

    def fresh(self, st, hint):
        o = ListObj(self.t, st.fresh_const(hint + "_n", z3.IntSort()), st.fresh_const(hint + "_el", z3.ArraySort(z3.IntSort(), self.t.sort())))
        o.ty = self
        st.assume(o.n >= 0)
        return st.alloc(o)


class TObj(T):
    """Instance of a class with a declared field schema; lives in the concrete-shape heap.

    Not embeddable into symbolic containers (use TRec / TAddr for that).
    """

    def __init__(self, cls: str, nullable: bool = False, schema_key: str | None = None):
        self.cls = cls
        self.schema_key = schema_key
        self.name = f"Obj[{cls}{'#' + schema_key if schema_key else ''}]"

    def sort(self):
        raise Unsupported(f"{self} cannot be stored in a symbolic container")

    def fresh(self, st, hint):
        from . import contract as C

        schema = C.class_schema(self.schema_key or self.cls)
        o = PyObj(self.cls, {})
        o.schema_key = self.schema_key
        ref = st.alloc(o)
        for f, t in schema.items():
            # owner-aware field types (cyclic object graphs, e.g. a back-reference to the owner) define fresh_in(st, hint, owner_ref)
            fresh_in = getattr(t, "fresh_in", None)
            o.fields[f] = fresh_in(st, f"{hint}.{f}", ref) if fresh_in is not None else t.fresh(st, f"{hint}.{f}")
        return ref


SYMHEAP_SORTS: dict = {}
GHOST_SORTS: dict = {}  # ghost variable name -> z3 sort (declared by contract modules)


def declare_ghost(name: str, sort):
    GHOST_SORTS[name] = sort


class TAddr(T):
    """Reference (address) to a mutable object whose content lives in a symbolic heap map.

    ``heap``: name of the heap map (state.symheaps[heap]: Array Int content_sort).
    Used for numpy arrays stored in dicts when identity/aliasing matters (caches).
    """

    def __init__(self, heap: str, content: T):
        self.heap, self.content = heap, content
        self.name = f"Addr[{heap}]"
        SYMHEAP_SORTS[heap] = content.sort()

    def sort(self):
        return z3.IntSort()

    def embed(self, st, v):
        if isinstance(v, SV) and v.ty == self:
            return v.term
        raise Unsupported(f"cannot embed {v!r} as {self}")


class TStruct(T):
    """Concrete-shape immutable record of typed fields (NamedTuple instances, small result objects)."""

    def __init__(self, cls: str, fields: dict):
        self.cls, self.fields = cls, dict(fields)
        self.name = f"Struct[{cls}]"

    def sort(self):
        raise Unsupported(f"{self} cannot be stored in a symbolic container")

    def fresh(self, st, hint):
        return RecV(self, {f: t.fresh(st, f"{hint}.{f}") for f, t in self.fields.items()})


class TFun(T):
    """A callable passed in (uninterpreted function with an optional ghost call log)."""

    def __init__(self, fname: str, args: list, ret: T, logged: bool = False):
        self.fname, self.args, self.ret, self.logged = fname, args, ret, logged
        self.name = f"Fun[{fname}]"

    def fresh(self, st, hint):
        return FunV(self)

    def sort(self):
        raise Unsupported("functions cannot be stored in symbolic containers")


# --------------------------------------------------------------------------- values
class SV:
    """Symbolic scalar / embedded value."""

    __slots__ = ("term", "ty", "origin", "narrow")

    def __init__(self, term, ty: T, origin=None):
        self.term, self.ty, self.origin = term, ty, origin
        self.narrow = None  # (local name, value when the test is true, value when it is false) for `x is [not] None` tests

    def __repr__(self):
        return f"SV({self.term}:{self.ty})"


class RecV:
    """Concrete-shape record value (fields are Values)."""

    def __init__(self, ty: TRec, vals: dict):
        self.ty, self.vals = ty, vals


class Ref:
    __slots__ = ("id",)

    def __init__(self, id: int):
        self.id = id

    def __repr__(self):
        return f"Ref({self.id})"

    def __eq__(self, o):
        return isinstance(o, Ref) and o.id == self.id

    def __hash__(self):
        return hash(("ref", self.id))


class FunV:
    def __init__(self, ty: TFun):
        self.ty = ty


class ClassV:
    """A class object (for isinstance, exception handlers, constructors, class attributes)."""

    def __init__(self, qualname: str):
        self.qualname = qualname

    def __repr__(self):
        return f"ClassV({self.qualname})"


class BoundMethod:
    def __init__(self, recv, finfo=None, name=None):
        self.recv, self.finfo, self.name = recv, finfo, name


class FuncV:
    """A module-level function of the repository (by qualified name)."""

    def __init__(self, qualname: str):
        self.qualname = qualname


class BuiltinV:
    def __init__(self, name: str):
        self.name = name

    def __repr__(self):
        return f"BuiltinV({self.name})"


class ModuleV:
    def __init__(self, name: str):
        self.name = name


class Unbound:
    """Marker for a local name that is not definitely assigned."""


UNBOUND = Unbound()


# --------------------------------------------------------------------------- heap objects
class HeapObj:
    origin = None
    ty = None

    def clone(self):
        import copy

        c = copy.copy(self)
        return c


class PyObj(HeapObj):
    def __init__(self, cls: str, fields: dict):
        self.cls, self.fields = cls, fields

    schema_key = None

    def clone(self):
        c = PyObj(self.cls, dict(self.fields))
        c.schema_key = self.schema_key
        return c


def _pattern_ok(p) -> bool:
    """No lambda / quantifier / If inside the trigger (z3 rejects them after beta-reduction)."""
    stack, seen = [p], set()
    while stack:
        t = stack.pop()
        if t.get_id() in seen:
            continue
        seen.add(t.get_id())
        if z3.is_quantifier(t):
            return False
        if z3.is_app(t) and t.decl().kind() in (z3.Z3_OP_ITE, z3.Z3_OP_OR, z3.Z3_OP_AND, z3.Z3_OP_NOT, z3.Z3_OP_EQ):
            return False
        stack.extend(t.children())
    return True


def forall_pat(vs, body, *patterns):
    """ForAll with explicit (alternative) triggers when z3 accepts them (a beta-reduced lambda may not be one)."""
    ok = [p for p in patterns if z3.is_app(p) and p.decl().kind() in (z3.Z3_OP_SELECT, z3.Z3_OP_UNINTERPRETED) and _pattern_ok(p)]
    try:
        if ok:
            return z3.ForAll(vs, body, patterns=ok)
    except z3.Z3Exception:
        pass
    return z3.ForAll(vs, body)


class DictObj(HeapObj):
    """CPython dict: membership, values, size, and (when materialised) insertion order.

    Order view: keys[0..n) pairwise distinct, pos[keys[i]] = i, member[k] <=> keys[pos[k]] = k with
    0 <= pos[k] < n.  Insertion appends, re-assignment keeps the position, deletion closes the gap.
    """

    is_empty_literal = False

    def __init__(self, k: T, v: T, member, vals, n, keys=None, pos=None):
        self.k, self.v = k, v
        self.member, self.vals, self.n = member, vals, n
        self.keys, self.pos = keys, pos

    @staticmethod
    def empty(st, k: T, v: T, ordered=False):
        o = DictObj(k, v, z3.K(k.sort(), z3.BoolVal(False)), st.fresh_const("emptyvals", z3.ArraySort(k.sort(), v.sort())), z3.IntVal(0))
        if ordered:
            o.keys = st.fresh_const("emptykeys", z3.ArraySort(z3.IntSort(), k.sort()))
            o.pos = st.fresh_const("emptypos", z3.ArraySort(k.sort(), z3.IntSort()))
        return o

    def wf_facts(self, st):
        k = z3.Const("k!wf", self.k.sort())
        facts = [self.n >= 0, forall_pat([k], z3.Implies(self.member[k], self.n >= 1), self.member[k])]
        w = st.fresh_const("wit", self.k.sort())
        facts.append(z3.Implies(self.n >= 1, self.member[w]))
        if self.keys is not None:
            facts += self.order_facts()
        return facts

    def order_facts(self):
        k = z3.Const("k!ord", self.k.sort())
        i = z3.Int("i!ord")
        return [
            forall_pat([k], z3.Implies(self.member[k], z3.And(0 <= self.pos[k], self.pos[k] < self.n, self.keys[self.pos[k]] == k)), self.pos[k]),
            forall_pat([i], z3.Implies(z3.And(0 <= i, i < self.n), z3.And(self.member[self.keys[i]], self.pos[self.keys[i]] == i)), self.keys[i]),
        ]

    def ensure_order(self, st):
        if self.keys is None:
            self.keys = st.fresh_const("okeys", z3.ArraySort(z3.IntSort(), self.k.sort()))
            self.pos = st.fresh_const("opos", z3.ArraySort(self.k.sort(), z3.IntSort()))
            for f in self.order_facts():
                st.assume(f)

    # -- operations (value level; the interpreter generates the safety obligations)
    def has(self, kt):
        return self.member[kt]

    def get(self, kt):
        return self.vals[kt]

    def set(self, st, kt, vt):
        was = self.member[kt]
        if st is not None and hasattr(st, "solver") and not self.is_empty_literal:
            try:
                known = st.solver.check(z3.Not(was)) == z3.unsat
            except z3.Z3Exception:
                known = False
            if known:
                # re-assignment of an existing key: only the value changes (position, membership and size are kept)
                self.vals = z3.Store(self.vals, kt, vt)
                return
        if self.keys is not None:
            self.keys = z3.If(was, self.keys, z3.Store(self.keys, self.n, kt))
            self.pos = z3.If(was, self.pos, z3.Store(self.pos, kt, self.n))
        self.n = z3.If(was, self.n, self.n + 1)
        self.member = z3.Store(self.member, kt, z3.BoolVal(True))
        self.vals = z3.Store(self.vals, kt, vt)
        self.is_empty_literal = False

    def delete(self, st, kt):
        """Precondition (checked by the caller): member[kt]."""
        if self.keys is not None:
            p = self.pos[kt]
            i = z3.Int("i!del")
            k = z3.Const("k!del", self.k.sort())
            oldkeys, oldpos = self.keys, self.pos
            self.keys = z3.Lambda([i], z3.If(i < p, oldkeys[i], oldkeys[i + 1]))
            self.pos = z3.Lambda([k], z3.If(oldpos[k] > p, oldpos[k] - 1, oldpos[k]))
        self.n = self.n - 1
        self.member = z3.Store(self.member, kt, z3.BoolVal(False))

    def clone(self):
        c = DictObj(self.k, self.v, self.member, self.vals, self.n, self.keys, self.pos)
        c.origin, c.ty, c.is_empty_literal = self.origin, self.ty, self.is_empty_literal
        return c


class SetObj(HeapObj):
    def __init__(self, k: T, member, n):
        self.k, self.member, self.n = k, member, n
        self.is_empty_literal = False

    def wf_facts(self, st):
        k = z3.Const("k!wfs", self.k.sort())
        w = st.fresh_const("wits", self.k.sort())
        return [self.n >= 0, forall_pat([k], z3.Implies(self.member[k], self.n >= 1), self.member[k]), z3.Implies(self.n >= 1, self.member[w])]

    def clone(self):
        c = SetObj(self.k, self.member, self.n)
        c.origin, c.ty, c.is_empty_literal = self.origin, self.ty, self.is_empty_literal
        return c


class ListObj(HeapObj):
    def __init__(self, t: T, n, elems):
        self.t, self.n, self.elems = t, n, elems
        self.is_empty_literal = False

    def clone(self):
        c = ListObj(self.t, self.n, self.elems)
        c.origin, c.ty, c.is_empty_literal = self.origin, self.ty, self.is_empty_literal
        return c


class ExcObj(HeapObj):
    """An exception instance: class + opaque payload."""

    def __init__(self, cls: str, args=()):
        self.cls, self.args = cls, args

    def clone(self):
        return ExcObj(self.cls, self.args)


# --------------------------------------------------------------------------- helpers
def is_concrete(v) -> bool:
    return v is None or isinstance(v, (bool, int, float, str, tuple, Fraction))


def type_of_value(st, v) -> T:
    if isinstance(v, bool):
        return TBool
    if isinstance(v, int):
        return TInt
    if isinstance(v, float):
        return TReal
    if isinstance(v, str):
        return TStr
    if isinstance(v, SV):
        return v.ty
    if isinstance(v, Ref):
        o = st.heap[v.id]
        if o.ty is not None:
            return o.ty
        if isinstance(o, DictObj):
            return TDict(o.k, o.v, o.keys is not None)
        if isinstance(o, SetObj):
            return TSet(o.k)
        if isinstance(o, ListObj):
            return TList(o.t)
    if isinstance(v, tuple) and v:
        return TTuple(*[type_of_value(st, x) for x in v])
    raise Unsupported(f"no type for {v!r}")
