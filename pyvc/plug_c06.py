"""C06 plugin (partial correctness of the MDA solvers): every hook is gated on the opt-in attribute ``c06 = True`` of the contract
being verified (``ex.contract``), or fires only on this module's own value types.

* ``BaseMDA.ResidualScaling`` (a ``LowercaseStrEnum`` with ``auto()`` members): a member IS its lower-case name; calling the class on
  a string that is no member raises ``ValueError`` (StrEnum casting).
* Vectors are opaque arrays (``TNd``).  ``numpy.linalg.norm(v)`` is the uninterpreted real ``c06_norm(v) >= 0`` *typed as a numpy
  scalar* (``TNpReal``): dividing a numpy scalar never raises (``x / 0`` is inf/nan with a warning): the quotient is ``x / y`` when
  ``y != 0`` and the unconstrained ``c06_div_by_zero(x)`` otherwise.  ``float(numpy scalar)`` is the Python float with the same value.
* ``n ** 0.5``: the uninterpreted ``c06_sqrt(n)`` with ``c06_sqrt(n) >= 0`` and ``c06_sqrt(n) == 0 <=> n == 0`` (n >= 0).
* ``array([x])`` of a real: the opaque array ``c06_array1(x)``.
* Data converters (``grammar.data_converter``) are opaque values of sort ``Conv``: ``convert_data_to_array([name], data)`` is the
  uninterpreted ``c06_value_array(conv, name, data[name])`` (ASSUMED: depends on the value stored under the name only; the KeyError of
  a missing name is not modelled: the resolved names are keys of the data by grammar validation).
* Opaque disciplines (sort ``Disc`` of plug_graph): ``d.execute(data)`` records the content of ``data`` in the ghost maps
  ``c06_exec_m / c06_exec_v`` (what the discipline was last executed on); ``d.io.get_output_data()`` is a new mapping, the
  uninterpreted function ``c06_out_m / c06_out_v`` of the discipline and of the data it was last executed on (ASSUMED: disciplines are
  deterministic; ``execute`` does not modify the mapping it is given).
"""
from __future__ import annotations

import z3

from .plug_graph import DataM, DataV, DiscS, TDisc
from .values import (BoundMethod, ClassV, DictObj, ListObj, Ref, SV, StrS, T, TInt, TNd, TReal, TStr, Unsupported, ValS, declare_ghost, str_lit)

R = z3.RealSort()
I = z3.IntSort()  # noqa: E741
B = z3.BoolSort()

RS_CLS = "gemseo.mda.base_mda.BaseMDA.ResidualScaling"
RS_MEMBERS = ("NO_SCALING", "INITIAL_RESIDUAL_NORM", "INITIAL_SUBRESIDUAL_NORM", "N_COUPLING_VARIABLES", "INITIAL_RESIDUAL_COMPONENT",
              "SCALED_INITIAL_RESIDUAL_COMPONENT")


def rs(name: str):
    """The value of a ResidualScaling member (a LowercaseStrEnum member is its lower-case name)."""
    return str_lit(name.lower())


# ---- numpy scalars
class _TNpReal(T):
    name = "NpReal"

    def sort(self):
        return R

    def embed(self, st, v):
        if isinstance(v, SV) and v.ty.sort() == R:
            return v.term
        raise Unsupported(f"cannot embed {v!r} as a numpy scalar")

    def project(self, st, term, origin=None):
        return SV(term, self, origin)


TNpReal = _TNpReal()
c06_norm = z3.Function("c06_norm", ValS, R)
c06_div0 = z3.Function("c06_div_by_zero", R, R)
c06_sqrt = z3.Function("c06_sqrt", I, R)
c06_array1 = z3.Function("c06_array1", R, ValS)
c06_scalar = z3.Function("c06_scalar", ValS, R)  # the real a 0-d numpy value denotes

# ---- converters
ConvS = z3.DeclareSort("Conv")


class _TConv(T):
    name = "Conv"

    def sort(self):
        return ConvS

    def embed(self, st, v):
        if isinstance(v, SV) and v.ty.sort() == ConvS:
            return v.term
        raise Unsupported(f"cannot embed {v!r} as a data converter")

    def project(self, st, term, origin=None):
        return SV(term, self, origin)


TConv = _TConv()
c06_value_array = z3.Function("c06_value_array", ConvS, StrS, B, ValS, ValS)  # (converter, name, name in data, data[name])

# ---- opaque disciplines
EXM_S, EXV_S = z3.ArraySort(DiscS, DataM), z3.ArraySort(DiscS, DataV)
declare_ghost("c06_exec_m", EXM_S)
declare_ghost("c06_exec_v", EXV_S)
c06_out_m = z3.Function("c06_out_m", DiscS, DataM, DataV, DataM)  # keys / values of d.io.get_output_data() after d.execute(data)
c06_out_v = z3.Function("c06_out_v", DiscS, DataM, DataV, DataV)


# ---- MDASequential: the MDAs of the sequence are opaque disciplines; an execution is identified by a ghost epoch counter
declare_ghost("c06_epoch", I)
c06_mda_res_m = z3.Function("c06_mda_result_member", DiscS, I, DataM, DataV, DataM)  # (mda, epoch, input data) -> keys / values of the data execute() returns
c06_mda_res_v = z3.Function("c06_mda_result_vals", DiscS, I, DataM, DataV, DataV)
c06_mda_normed = z3.Function("c06_mda_normed_residual", DiscS, I, R)  # mda.normed_residual after the execution of that epoch
c06_mda_history = z3.Function("c06_mda_residual_history", DiscS, I, z3.ArraySort(I, R))
c06_mda_history_n = z3.Function("c06_mda_residual_history_len", DiscS, I, I)


# ---- scaling setters of the composed MDAs: the inner MDAs are opaque; their scaling method / scaling data are ghost maps
declare_ghost("c06_mda_scaling", z3.ArraySort(DiscS, StrS))
declare_ghost("c06_mda_scaling_data", z3.ArraySort(DiscS, ValS))


# ---- Newton step: the Jacobian assembly is an opaque value; the disciplines' linearization state is a ghost (point, execute flag)
AsmS = z3.DeclareSort("C06Assembly")


class _TAsm(T):
    name = "C06Assembly"

    def sort(self):
        return AsmS

    def embed(self, st, v):
        if isinstance(v, SV) and v.ty.sort() == AsmS:
            return v.term
        raise Unsupported(f"cannot embed {v!r} as a Jacobian assembly")

    def project(self, st, term, origin=None):
        return SV(term, self, origin)


TAsm = _TAsm()
declare_ghost("c06_lin_m", EXM_S)  # the data a discipline was last linearized at ...
declare_ghost("c06_lin_v", EXV_S)
declare_ghost("c06_lin_exec", z3.ArraySort(DiscS, B))  # ... and whether it was executed there before
_NL = None


def names_sort():
    from .values import TList

    return TList(TStr).sort()


def asm_step_fn():
    """JacobianAssembly.compute_newton_step(in_data, couplings, linear_solver, matrix_type=, residuals=, resolved_residual_names=, **settings)[0] as an
    uninterpreted function of the assembly, the linearization state of the disciplines and the arguments (its contract is VERIFIED in C07)."""
    ns = names_sort()
    return z3.Function("c06_assembly_newton_step", AsmS, EXM_S, EXV_S, z3.ArraySort(DiscS, B), DataM, DataV, ns, StrS, ValS, ValS, ns, ValS, ValS)


def asm_residuals_fn():
    return z3.Function("c06_assembly_residuals", AsmS, EXM_S, EXV_S, DataM, DataV, names_sort(), ValS)


def _on(ex):
    return getattr(ex.contract, "c06", False)


def _is_np(v):
    return isinstance(v, SV) and v.ty is TNpReal


class C06Models:
    # ------------------------------------------------------------------ ResidualScaling
    def class_constant(self, ex, ci, name):
        if ci.qualname == RS_CLS and name in RS_MEMBERS:
            return name.lower()
        return NotImplemented

    def module_constant(self, ex, mi, name):
        if name == "READ_ONLY_EMPTY_DICT" and _on(ex):
            return ex.models.make_dict(ex, [], [])  # MappingProxyType({}): an empty mapping
        return NotImplemented

    def construct(self, ex, cv, args, kwargs, lineno):
        if not _on(ex):
            return NotImplemented
        if cv.qualname.rsplit(".", 1)[-1] == "DisciplineData" and len(args) == 1 and not kwargs and isinstance(args[0], Ref) and isinstance(ex.st.heap[args[0].id], DictObj):
            c = ex.st.heap[args[0].id].clone()  # DisciplineData(mapping): a shallow copy
            c.origin = None
            return ex.st.alloc(c)
        if cv.qualname == RS_CLS and len(args) == 1 and not kwargs:
            from .engine import PyRaise

            t = TStr.embed(ex.st, args[0])
            if ex.st.decide(z3.Or(*[t == rs(m) for m in RS_MEMBERS])):
                return SV(t, TStr)
            raise PyRaise("ValueError", lineno)
        return NotImplemented

    # ------------------------------------------------------------------ numpy scalars, sqrt
    def call_builtin(self, ex, name, args, kwargs, lineno, node=None):
        if not _on(ex):
            return NotImplemented
        st = ex.st
        if name == "numpy.linalg.norm" and len(args) == 1 and not kwargs and isinstance(args[0], SV) and args[0].ty.sort() == ValS:
            t = c06_norm(args[0].term)
            st.assume(t >= 0)
            ex.assumed.add("numpy.linalg.norm on an opaque vector: an uninterpreted non-negative real (a numpy scalar: its division never raises)")
            return SV(t, TNpReal)
        if name == "float" and len(args) == 1 and _is_np(args[0]):
            return SV(args[0].term, TReal)
        if name == "max" and len(args) == 1 and set(kwargs) <= {"default"} and isinstance(args[0], Ref) and isinstance(st.heap[args[0].id], ListObj):
            # max(list of reals[, default=d]): the largest element (ValueError on an empty list without default)
            from .engine import PyRaise

            o = st.heap[args[0].id]
            if o.is_empty_literal or o.t.sort() != R:
                if o.is_empty_literal and "default" in kwargs:
                    return kwargs["default"]
                if o.is_empty_literal:
                    raise PyRaise("ValueError", lineno)
                return NotImplemented
            if not st.decide(o.n >= 1):
                if "default" in kwargs:
                    return kwargs["default"]
                raise PyRaise("ValueError", lineno)
            r, w = st.fresh_const("listmax", R), st.fresh_int("argmax")
            i = z3.Int("i!mx")
            st.assume(z3.And(0 <= w, w < o.n, r == o.elems[w]))
            st.assume(z3.ForAll([i], z3.Implies(z3.And(0 <= i, i < o.n), o.elems[i] <= r)))
            return SV(r, TNpReal if o.t is TNpReal else TReal)
        if name == "numpy.array" and len(args) == 1 and not kwargs and isinstance(args[0], Ref) and isinstance(st.heap[args[0].id], ListObj):
            o = st.heap[args[0].id]
            if not o.is_empty_literal and o.t in (TReal, TNpReal) and z3.is_int_value(z3.simplify(o.n)) and z3.simplify(o.n).as_long() == 1:
                return SV(c06_array1(z3.simplify(o.elems[0])), TNd)
        return NotImplemented

    def binop(self, ex, op, a, b, lineno, inplace=False):
        if not _on(ex):
            return NotImplemented
        st = ex.st
        if op == "Pow" and isinstance(b, float) and b == 0.5:
            n = ex.num(a)
            if n is not None and n[1] == TInt:
                t = c06_sqrt(n[0])
                st.assume(z3.And(t >= 0, (t == 0) == (n[0] == 0)))
                ex.assumed.add("n ** 0.5 on an integer: uninterpreted c06_sqrt(n) >= 0, zero iff n == 0")
                return SV(t, TReal)
        if op == "Div" and _is_np(a):
            nb = ex.num(b) if not _is_np(b) else (b.term, TReal)
            if nb is not None:
                tb = z3.ToReal(nb[0]) if nb[1] == TInt else nb[0]
                return SV(z3.If(tb == 0, c06_div0(a.term), a.term / tb), TNpReal)
        return NotImplemented

    def set_attr(self, ex, obj, attr, v, lineno):
        if _on(ex) and attr == "scaling" and isinstance(obj, SV) and obj.ty.sort() == DiscS:
            # `mda.scaling = value` on an opaque inner MDA: the contract of the base setter (verified: BaseMDA.scaling), i.e. the scaling method is
            # set and the scaling data are reset to None
            from .values import val_none

            st = ex.st
            sc, sd = st.ghost_get("c06_mda_scaling", z3.ArraySort(DiscS, StrS)), st.ghost_get("c06_mda_scaling_data", z3.ArraySort(DiscS, ValS))
            st.ghost_set("c06_mda_scaling", z3.Store(sc, obj.term, TStr.embed(st, v)))
            st.ghost_set("c06_mda_scaling_data", z3.Store(sd, obj.term, val_none))
            ex.assumed.add("inner MDAs (opaque): `mda.scaling = s` acts as the verified contract of BaseMDA.scaling's setter states (scaling := s, scaling data := None) "
                           "on the ghost maps c06_mda_scaling / c06_mda_scaling_data")
            return None
        return NotImplemented

    def coerce(self, ex, v, t):
        if _is_np(v) and t == TReal:
            return SV(v.term, TReal)
        if _on(ex) and t == TReal and isinstance(v, SV) and v.ty == TNd:
            ex.assumed.add("a 0-d numpy value stored in a float attribute: the real c06_scalar(value) it denotes")
            return SV(c06_scalar(v.term), TReal)
        return NotImplemented

    # ------------------------------------------------------------------ converters, opaque disciplines
    def value_attr(self, ex, obj, attr, lineno):
        if isinstance(obj, SV) and obj.ty is TConv and attr in ("convert_data_to_array",):
            return BoundMethod(obj, None, f"c06conv.{attr}")
        if isinstance(obj, SV) and obj.ty is TAsm and attr in ("compute_newton_step", "residuals"):
            return BoundMethod(obj, None, f"c06asm.{attr}")
        if _on(ex) and isinstance(obj, SV) and obj.ty.sort() == DiscS and type(obj.ty).__name__ == "_TDisc" and attr == "linearize":
            return BoundMethod(obj, None, "disc.linearize")
        if not _on(ex):
            return NotImplemented
        if getattr(ex.contract, "c06_sequential", False) and isinstance(obj, SV) and obj.ty.sort() == DiscS and attr in ("normed_residual", "residual_history"):
            st = ex.st
            e = st.ghost_get("c06_epoch", I)
            if attr == "normed_residual":
                return SV(c06_mda_normed(obj.term, e), TReal)
            from .values import TList

            n = c06_mda_history_n(obj.term, e)
            st.assume(n >= 0)
            o = ListObj(TReal, n, c06_mda_history(obj.term, e))
            o.ty = TList(TReal)
            return st.alloc(o)
        if isinstance(obj, SV) and obj.ty.sort() == DiscS and type(obj.ty).__name__ == "_TDiscIO" and attr == "get_output_data":
            return BoundMethod(obj, None, "c06disc.get_output_data")
        if isinstance(obj, SV) and obj.ty.sort() == DiscS and type(obj.ty).__name__ == "_TDisc" and attr == "get_output_data":
            return BoundMethod(obj, None, "c06disc.get_output_data")
        return NotImplemented

    def pyobj_attr(self, ex, ref, o, attr, lineno):
        # serial mode (n_processes == 1): __init__ binds the instance attributes _execute_disciplines / _linearize_disciplines to the sequential methods
        if _on(ex) and getattr(ex.contract, "c06_serial", False) and attr in ("_execute_disciplines", "_linearize_disciplines"):
            from . import source as S

            m = S.find_method(o.cls, attr + "_sequentially")
            if m is not None:
                ex.assumed.add(f"serial mode (settings.n_processes == 1): self.{attr} is the bound method {attr}_sequentially (set by __init__)")
                return BoundMethod(ref, m)
        return NotImplemented

    def call_method(self, ex, recv, name, args, kwargs, lineno):
        st = ex.st
        if name == "append" and len(args) == 1 and _is_np(args[0]) and isinstance(recv, Ref) and isinstance(st.heap[recv.id], ListObj) and st.heap[recv.id].t == TReal:
            args[0] = SV(args[0].term, TReal)  # a numpy scalar appended to a list of floats: the same real (then the base model of list.append)
            return NotImplemented
        if name == "c06conv.convert_data_to_array" and len(args) == 2 and not kwargs:
            names, data = args
            no = st.heap[names.id] if isinstance(names, Ref) else None
            do = st.heap[data.id] if isinstance(data, Ref) else None
            if not (isinstance(no, ListObj) and not no.is_empty_literal and z3.is_int_value(z3.simplify(no.n)) and z3.simplify(no.n).as_long() == 1):
                raise Unsupported("convert_data_to_array with a list of names that is not [name]")
            if not isinstance(do, DictObj) or do.is_empty_literal or do.k != TStr or do.v.sort() != ValS:
                raise Unsupported("convert_data_to_array on a mapping that is not str -> value")
            nm = z3.simplify(no.elems[0])
            ex.assumed.add("data converters: convert_data_to_array([name], data) is a deterministic function of (converter, name, data[name]) (KeyError of a missing name not modelled)")
            return SV(c06_value_array(recv.term, nm, do.member[nm], do.vals[nm]), TNd)
        if name == "c06asm.residuals" and len(args) == 2 and not kwargs:
            from .values import TList

            do = st.heap[args[0].id] if isinstance(args[0], Ref) else None
            if not isinstance(do, DictObj) or do.is_empty_literal or do.k != TStr or do.v.sort() != ValS:
                raise Unsupported("residuals on a mapping that is not str -> value")
            ex.assumed.add("JacobianAssembly.residuals(in_data, names) (assumed in C07: computed value - prescribed value per name): an uninterpreted function of the assembly, "
                           "of the points the disciplines were last executed on, and of its arguments")
            return SV(asm_residuals_fn()(recv.term, st.ghost_get("c06_exec_m", EXM_S), st.ghost_get("c06_exec_v", EXV_S), do.member, do.vals, TList(TStr).embed(st, args[1])), TNd)
        if name == "c06asm.compute_newton_step" and len(args) == 3 and set(kwargs) <= {"matrix_type", "residuals", "resolved_residual_names", "**"} \
                and {"matrix_type", "residuals", "resolved_residual_names"} <= set(kwargs):
            from .gmodels import to_val
            from .values import TBool, TList, val_none

            data, couplings, solver = args
            do = st.heap[data.id] if isinstance(data, Ref) else None
            if not isinstance(do, DictObj) or do.is_empty_literal or do.k != TStr or do.v.sort() != ValS:
                raise Unsupported("compute_newton_step on a mapping that is not str -> value")
            nl = TList(TStr)
            extra = kwargs.get("**")
            ops = [to_val(ex, kwargs["matrix_type"]), to_val(ex, kwargs["residuals"]), to_val(ex, extra) if extra is not None else val_none]
            if any(o is None for o in ops):
                raise Unsupported("compute_newton_step: argument that is no value")
            step = asm_step_fn()(recv.term, st.ghost_get("c06_lin_m", EXM_S), st.ghost_get("c06_lin_v", EXV_S), st.ghost_get("c06_lin_exec", z3.ArraySort(DiscS, B)),
                                 do.member, do.vals, nl.embed(st, couplings), TStr.embed(st, solver), ops[0], ops[1], nl.embed(st, kwargs["resolved_residual_names"]), ops[2])
            ex.assumed.add("JacobianAssembly.compute_newton_step (contract verified in C07: (dR/dy) step = -R): here an uninterpreted function of the assembly, the "
                           "linearization state of the disciplines and its arguments; the second result (solver converged) is unconstrained")
            return (SV(step, TNd), SV(st.fresh_const("newton_linear_solver_converged", B), TBool))
        if name == "c06disc.get_output_data" and not args and not kwargs:
            d = recv.term
            em, ev = st.ghost_get("c06_exec_m", EXM_S), st.ghost_get("c06_exec_v", EXV_S)
            o = DictObj(TStr, _data_v(), c06_out_m(d, em[d], ev[d]), c06_out_v(d, em[d], ev[d]), st.fresh_int("outn"))
            for f in o.wf_facts(st):
                st.assume(f)
            ex.assumed.add("opaque disciplines: io.get_output_data() is a new mapping, a deterministic function of (discipline, content of the data it was last executed on)")
            return st.alloc(o)
        return NotImplemented

    def disc_method(self, ex, recv, name, args, kwargs, lineno):
        if not _on(ex):
            return NotImplemented
        st = ex.st
        if name == "linearize" and len(args) == 1 and set(kwargs) <= {"execute"} and isinstance(args[0], Ref) and isinstance(st.heap[args[0].id], DictObj):
            src = st.heap[args[0].id]
            if src.is_empty_literal or src.k != TStr or src.v.sort() != ValS:
                raise Unsupported("linearize() on a mapping that is not str -> value")
            e = ex.truth(kwargs.get("execute", True))
            e = z3.BoolVal(e) if isinstance(e, bool) else e
            d = recv.term
            st.ghost_set("c06_lin_m", z3.Store(st.ghost_get("c06_lin_m", EXM_S), d, src.member))
            st.ghost_set("c06_lin_v", z3.Store(st.ghost_get("c06_lin_v", EXV_S), d, src.vals))
            st.ghost_set("c06_lin_exec", z3.Store(st.ghost_get("c06_lin_exec", z3.ArraySort(DiscS, B)), d, e))
            ex.assumed.add("opaque disciplines: linearize(data, execute=e) only records (content of data, e) as the discipline's linearization state; data itself is not modified")
            return None
        if getattr(ex.contract, "c06_sequential", False) and name == "execute" and len(args) == 1 and not kwargs and isinstance(args[0], Ref) \
                and isinstance(st.heap[args[0].id], DictObj):
            # an MDA of the sequence: the returned data are an uninterpreted function of (mda, execution epoch, content of the input data)
            src = st.heap[args[0].id]
            if src.is_empty_literal or src.k != TStr or src.v.sort() != ValS:
                raise Unsupported("execute() on a mapping that is not str -> value")
            e = st.ghost_get("c06_epoch", I) + 1
            st.ghost_set("c06_epoch", e)
            o = DictObj(TStr, src.v, c06_mda_res_m(recv.term, e, src.member, src.vals), c06_mda_res_v(recv.term, e, src.member, src.vals), st.fresh_int("resn"))
            for f in o.wf_facts(st):
                st.assume(f)
            ex.assumed.add("MDAs of a sequence: opaque; execute(data) returns a new mapping c06_mda_result(mda, execution epoch, content of data); normed_residual / "
                           "residual_history read afterwards are those of that execution (epoch: a ghost counter, so that nothing is assumed equal across executions)")
            return st.alloc(o)
        if name == "execute" and len(args) == 1 and not kwargs and isinstance(args[0], Ref) and isinstance(st.heap[args[0].id], DictObj):
            src = st.heap[args[0].id]
            if src.is_empty_literal or src.k != TStr or src.v.sort() != ValS:
                raise Unsupported("execute() on a mapping that is not str -> value")
            d = recv.term
            st.ghost_set("c06_exec_m", z3.Store(st.ghost_get("c06_exec_m", EXM_S), d, src.member))
            st.ghost_set("c06_exec_v", z3.Store(st.ghost_get("c06_exec_v", EXV_S), d, src.vals))
            ex.assumed.add("opaque disciplines: execute(data) only records the content of data as the discipline's last execution point; data itself is not modified")
            return None
        return NotImplemented


def _data_v():
    from .values import TVal

    return TVal
