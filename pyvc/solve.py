"""Discharge of obligations: z3 (Python API, per-obligation process) with cvc5 / z3 CLI fallback."""
from __future__ import annotations

import multiprocessing as mp
import os
import subprocess
import tempfile
import time

import z3

from .state import Obligation


def to_smt2(ob: Obligation) -> str:
    s = z3.Solver()
    for h in ob.hyps:
        s.add(h)
    s.add(z3.Not(ob.goal))
    for name, term in ob.tracked.items():
        s.add(z3.Const(f"track!{name}", term.sort()) == term)
    return s.to_smt2()


_OBS: list = []  # obligations of the current batch, inherited by the forked workers (no SMT-LIB round trip needed)


def _solve_one(task):
    idx, timeout_ms, want_model = task
    ob = _OBS[idx]
    name = ob.name
    t0 = time.time()
    res, model, backend = "unknown", "", "z3-5.1(py)"
    try:
        s = z3.Solver()
        s.set("timeout", timeout_ms)
        for h in ob.hyps:
            s.add(h)
        s.add(z3.Not(ob.goal))
        for nm, term in ob.tracked.items():
            s.add(z3.Const(f"track!{nm}", term.sort()) == term)
        r = s.check()
        res = str(r)
        if r == z3.sat and want_model:
            m = s.model()
            model = "\n".join(f"{d.name()} = {m[d]}" for d in sorted(m.decls(), key=lambda d: d.name()) if d.arity() == 0)[:20000]
        if r == z3.unknown:
            res = "unknown"
            model = s.reason_unknown()
    except Exception as e:  # noqa: BLE001
        res, model = "error", repr(e)
    smt2 = ""
    if res in ("unknown", "error"):
        # second back end: cvc5 CLI, then the other z3 build (through SMT-LIB; skipped when the dump is not re-parsable)
        try:
            smt2 = to_smt2(ob)
        except Exception:  # noqa: BLE001
            smt2 = ""
    if smt2:
        with tempfile.NamedTemporaryFile("w", suffix=".smt2", delete=False, dir=os.environ.get("PYVC_TMP", None)) as f:
            f.write(smt2)
            path = f.name
        try:
            for cmd, be in ((["/usr/bin/cvc5", f"--tlimit={timeout_ms}", "--full-saturate-quant", path], "cvc5-1.0.3"),
                            (["/usr/bin/z3", f"-T:{max(1, timeout_ms // 1000)}", path], "z3-4.8.12")):
                try:
                    out = subprocess.run(cmd, capture_output=True, text=True, timeout=timeout_ms / 1000 + 5).stdout.strip().splitlines()
                except Exception:  # noqa: BLE001
                    continue
                if out and out[0] in ("unsat", "sat"):
                    # a `sat` from a fallback solver on a quantified problem is not trusted as a counterexample
                    if out[0] == "unsat":
                        res, backend, model = "unsat", be, ""
                        break
        finally:
            os.unlink(path)
    return idx, res, backend, time.time() - t0, model


def discharge(obs: list[Obligation], timeout_ms: int = 10000, procs: int | None = None, want_model: bool = True):
    """Fill result/backend/seconds/model of each obligation."""
    global _OBS
    procs = procs or min(16, os.cpu_count() or 4)
    todo = [ob for ob in obs if not ob.result]
    if not todo:
        return
    _OBS = todo
    # vacuity canaries only have to be "not proved": a short budget is enough (a contradiction shows up at once)
    tasks = [(i, min(timeout_ms, 2500) if todo[i].kind == "canary" else timeout_ms, want_model and todo[i].kind != "canary") for i in range(len(todo))]
    ctx = mp.get_context("fork")
    # z3's own timeout is cooperative: a query can sit for hours in one simplex pivot over huge rationals and never look at
    # it. Hard wall-clock guard: when no result at all has arrived for (3 solver budgets incl. the CLI fall-backs + 60 s), the
    # workers still busy are stuck; the pool is terminated and what they held stays undecided ("unknown").
    hard = 3 * (timeout_ms / 1000.0 + 5) + 60
    pool = ctx.Pool(min(procs, len(tasks)))
    done = set()
    try:
        it = pool.imap_unordered(_solve_one, tasks, chunksize=1)
        while len(done) < len(tasks):
            try:
                idx, res, backend, secs, model = it.next(timeout=hard)
            except mp.TimeoutError:
                break
            except StopIteration:
                break
            ob = todo[idx]
            ob.result, ob.backend, ob.seconds, ob.model = res, backend, secs, model
            done.add(idx)
    finally:
        pool.terminate()
        pool.join()
    for i, ob in enumerate(todo):
        if i not in done:
            ob.result, ob.backend, ob.seconds = "unknown", "z3-5.1(py)", hard
            ob.model = f"(hard wall-clock limit of {hard:.0f} s reached: the solver did not honour its own timeout)"
    _OBS = []
