"""Graph plugin (C08/C09): opaque disciplines and a model of the networkx calls gemseo makes.

* A discipline is an opaque value of sort ``Disc``; ``d.io.input_grammar`` / ``d.io.output_grammar``
  are the *sets of names* ``in_names(d)`` / ``out_names(d)`` (uninterpreted functions of the
  discipline: the grammars are not modified by the functions under contract).
* ``networkx.DiGraph`` = (insertion-ordered node set, edge relation, edge attribute ``io``).
  The condensation graph (integer nodes, node attribute ``members``) additionally carries *ghost
  history fields* recording what ``remove_nodes_from`` removed and when (``rm_*``), the original
  node count / edge relation, and the assumed topological rank.

ASSUMED (networkx is external, listed in the evidence through ``ex.assumed``):
  - strongly_connected_components(G): the partition of the nodes of G into classes of mutually
    reachable nodes (``reach`` = reflexive-transitive closure of the edge relation);
  - condensation(G, scc): nodes 0..m-1 in the order of ``scc``, ``members``, ``mapping``, an edge a->b
    iff a != b and some member edge crosses, and the result is acyclic (stated with a rank function);
  - edge_bfs(G, s): enumerates exactly the edges (u, v) of G with u reachable from s, each once.
"""
from __future__ import annotations

import z3

from .values import (BoundMethod, BuiltinV, DictObj, ListObj, PyObj, Ref, SetObj, SV, T, TBool, TDict, TInt, TList, TSet, TStr, StrS, Unsupported, ValS, declare_ghost)

DiscS = z3.DeclareSort("Disc")
B = z3.BoolSort()
I = z3.IntSort()  # noqa: E741


class _TDisc(T):
    name = "Disc"

    def sort(self):
        return DiscS

    def embed(self, st, v):
        if isinstance(v, SV) and v.ty.sort() == DiscS:
            return v.term
        raise Unsupported(f"cannot embed {v!r} as Disc")


class _TDiscIO(_TDisc):
    name = "DiscIO"


TDisc, TDiscIO = _TDisc(), _TDiscIO()


class TZ(T):
    """A raw z3 sort as a field type (relations and ghost maps of the graph model)."""

    def __init__(self, sort, name):
        self._s, self.name = sort, f"Z[{name}]"

    def sort(self):
        return self._s

    def embed(self, st, v):
        if isinstance(v, SV) and v.ty.sort() == self._s:
            return v.term
        raise Unsupported(f"cannot embed {v!r} as {self}")


NAMES = TSet(TStr)
DLIST = TList(TDisc)
ILIST = TList(TInt)
NameSetS = z3.ArraySort(StrS, B)

in_names = z3.Function("in_names", DiscS, NameSetS)
out_names = z3.Function("out_names", DiscS, NameSetS)
in_n = z3.Function("in_n", DiscS, I)
out_n = z3.Function("out_n", DiscS, I)
rts_member = z3.Function("rts_member", DiscS, NameSetS)  # io.residual_to_state_variable
rts_vals = z3.Function("rts_vals", DiscS, z3.ArraySort(StrS, StrS))
rts_n = z3.Function("rts_n", DiscS, I)
is_continuous = z3.Function("is_continuous", DiscS, B, StrS, B)  # (discipline, input grammar?, name)  # grammar.data_converter.is_continuous(name)

DataM, DataV = z3.ArraySort(StrS, B), z3.ArraySort(StrS, ValS)
exec_member = z3.Function("exec_member", DiscS, DataM, DataV, DataM)  # keys / values of d.execute(data)
exec_vals = z3.Function("exec_vals", DiscS, DataM, DataV, DataV)

NAME_LIST = TList(TStr)
lset = z3.Function("lset", NAME_LIST.sort(), NameSetS)  # the set of the elements of a list of names (defined: lset_definition)


def lset_definition():
    t = z3.Const("t!ls", NAME_LIST.sort())
    k = z3.Const("k!ls", StrS)
    i = z3.Int("i!ls")
    return z3.ForAll([t, k], lset(t)[k] == z3.Exists([i], z3.And(0 <= i, i < ln(t), le(t, i) == k)), patterns=[lset(t)[k]])


DIFF_S = z3.ArraySort(DiscS, NameSetS)  # discipline -> set of differentiated input (output) names
declare_ghost("c09_diff_in", DIFF_S)
declare_ghost("c09_diff_out", DIFF_S)

NXG = "networkx.DiGraph"
NXC = "networkx.DiGraph[condensation]"


def _forall(vs, body, patterns=None):
    """ForAll with explicit triggers when z3 accepts them (a select on a lambda is not a valid pattern)."""
    if patterns:
        try:
            return z3.ForAll(vs, body, patterns=patterns)
        except z3.Z3Exception:
            pass
    return z3.ForAll(vs, body)


def rel(s):
    return z3.ArraySort(s, z3.ArraySort(s, B))


REL_D, REL_I = rel(DiscS), rel(I)
IO_S = z3.ArraySort(DiscS, z3.ArraySort(DiscS, NAMES.sort()))
reach = z3.Function("reach", REL_D, DiscS, DiscS, B)  # reflexive-transitive closure of an edge relation (axiomatised: reach_axioms)

GRAPH_FIELDS = {
    "_nodes": TDict(TDisc, TBool, ordered=True),
    "edge": TZ(REL_D, "rel Disc"),
    "io": TZ(IO_S, "edge io"),
}
COND_FIELDS = {
    "_nodes": TDict(TInt, TBool, ordered=True),
    "edge": TZ(REL_I, "rel Int"),
    "members": TZ(z3.ArraySort(I, DLIST.sort()), "members"),
    "comp_of": TZ(z3.ArraySort(DiscS, I), "mapping"),
    # ghost fields
    "member_idx": TZ(z3.ArraySort(DiscS, I), "member index"),
    "rank": TZ(z3.ArraySort(I, I), "rank"),
    "n0": TInt,
    "edge0": TZ(REL_I, "rel Int"),
    "rm_time": TZ(z3.ArraySort(I, I), "rm_time"),
    "rm_slot": TZ(z3.ArraySort(I, I), "rm_slot"),
    "rm_count": TInt,
    "rm_batch": TZ(z3.ArraySort(I, ILIST.sort()), "rm_batch"),
}


def reach_axioms(E):
    """Sound consequences of 'reach(E) is the reflexive-transitive closure of E' (closure axioms)."""
    u, v, w = z3.Consts("u!ra v!ra w!ra", DiscS)
    return [
        _forall([u], reach(E, u, u), patterns=[reach(E, u, u)]),
        _forall([u, v], z3.Implies(E[u][v], reach(E, u, v)), patterns=[E[u][v]]),
        _forall([u, v, w], z3.Implies(z3.And(reach(E, u, v), reach(E, v, w)), reach(E, u, w)), patterns=[z3.MultiPattern(reach(E, u, v), reach(E, v, w))]),
    ]


class NodesView:
    def __init__(self, ref):
        self.ref = ref


class NodeAttrs:
    def __init__(self, ref, key):
        self.ref, self.key = ref, key


class EdgeData:
    def __init__(self, ref, u, v):
        self.ref, self.u, self.v = ref, u, v


class ReverseView:
    """networkx.reverse_view(G): same nodes, edges (and their data) reversed; read-only."""

    def __init__(self, ref):
        self.ref = ref


def ln(t):
    """length of an embedded list term"""
    return t.sort().accessor(0, 0)(t)


def le(t, i):
    return t.sort().accessor(0, 1)(t)[i]


def set_member(t):
    return NAMES.dt.accessor(0, 0)(t)


def set_n(t):
    return NAMES.dt.accessor(0, 1)(t)


def _graph(ex, v):
    if isinstance(v, Ref):
        o = ex.st.heap[v.id]
        if isinstance(o, PyObj) and o.cls in (NXG, NXC):
            return o
    return None


def _nodes(ex, o) -> DictObj:
    return ex.st.heap[o.fields["_nodes"].id]


def _node_t(o):
    return TDisc if o.cls == NXG else TInt


class ConverterV:
    """grammar.data_converter of a discipline's input/output grammar"""

    def __init__(self, d, which):
        self.d, self.which = d, which


def _names_set(ex, member, n, grammar_of=None):
    st = ex.st
    o = SetObj(TStr, member, n)
    o.ty = NAMES
    o.grammar_of = grammar_of
    o.enum_trigger_on_member = True  # member = in_names(d) / out_names(d): a valid trigger
    for f in o.wf_facts(st):
        st.assume(f)
    return st.alloc(o)


def new_graph(ex, cls=NXG):
    st = ex.st
    t = TDisc if cls == NXG else TInt
    nodes = DictObj.empty(st, t, TBool, ordered=True)
    nodes.ty = TDict(t, TBool, ordered=True)
    fields = {"_nodes": st.alloc(nodes), "edge": SV(z3.K(t.sort(), z3.K(t.sort(), z3.BoolVal(False))), (GRAPH_FIELDS if cls == NXG else COND_FIELDS)["edge"])}
    if cls == NXG:
        fields["io"] = SV(st.fresh_const("io0", IO_S), GRAPH_FIELDS["io"])
    return st.alloc(PyObj(cls, fields))


class GraphModels:
    # ------------------------------------------------------------------ disciplines
    def value_attr(self, ex, obj, attr, lineno):
        st = ex.st
        if isinstance(obj, SV) and obj.ty is TDisc or (isinstance(obj, SV) and obj.ty == TDisc and type(obj.ty) is _TDisc):
            if attr == "io":
                return SV(obj.term, TDiscIO)
            if attr in ("execute", "add_differentiated_inputs", "add_differentiated_outputs"):
                return BoundMethod(obj, None, f"disc.{attr}")
            return NotImplemented
        if isinstance(obj, SV) and type(obj.ty) is _TDiscIO:
            d = obj.term
            if attr == "input_grammar":
                return _names_set(ex, in_names(d), in_n(d), (d, "in"))
            if attr == "output_grammar":
                return _names_set(ex, out_names(d), out_n(d), (d, "out"))
            if attr == "residual_to_state_variable":
                o = DictObj(TStr, TStr, rts_member(d), rts_vals(d), rts_n(d))
                o.ty = TDict(TStr, TStr)
                for f in o.wf_facts(st):
                    st.assume(f)
                return st.alloc(o)
            return NotImplemented
        if isinstance(obj, (NodesView, ReverseView)):
            return BoundMethod(obj, None, attr)
        if isinstance(obj, BoundMethod) and obj.finfo is None and obj.name == "data_converter" and isinstance(obj.recv, Ref):
            g = getattr(st.heap[obj.recv.id], "grammar_of", None)
            if g is not None and attr == "is_continuous":
                return BoundMethod(ConverterV(*g), None, "conv.is_continuous")
        return NotImplemented

    def equals(self, ex, a, b, lineno):
        if isinstance(a, SV) and isinstance(b, SV) and a.ty.sort() == DiscS and b.ty.sort() == DiscS:
            return SV(a.term == b.term, TBool)
        return NotImplemented

    # ------------------------------------------------------------------ graph attributes
    def pyobj_attr(self, ex, ref, o, attr, lineno):
        if o.cls in (NXG, NXC):
            if attr == "nodes":
                return NodesView(ref)
            if attr in ("add_nodes_from", "add_edge", "out_degree", "remove_nodes_from", "edges", "get_edge_data"):
                return BoundMethod(ref, None, f"nx.{attr}")
        return NotImplemented

    def to_iter(self, ex, v, lineno):
        if isinstance(v, NodesView):
            o = _graph(ex, v.ref)
            seq = ex.to_iter(o.fields["_nodes"], lineno)
            seq.elem_type = _node_t(o)
            return seq
        return NotImplemented

    def length(self, ex, v, lineno):
        if isinstance(v, NodesView):
            return SV(_nodes(ex, _graph(ex, v.ref)).n, TInt)
        return NotImplemented

    def contains(self, ex, cont, item, lineno):
        if isinstance(cont, NodesView):
            o = _graph(ex, cont.ref)
            return SV(_nodes(ex, o).member[_node_t(o).embed(ex.st, item)], TBool)
        return NotImplemented

    def getitem(self, ex, cont, key, lineno):
        st = ex.st
        if isinstance(cont, NodesView):
            o = _graph(ex, cont.ref)
            kt = _node_t(o).embed(st, key)
            self._node_exists(ex, _nodes(ex, o).member[kt], lineno)
            return NodeAttrs(cont.ref, kt)
        if isinstance(cont, NodeAttrs):
            o = _graph(ex, cont.ref)
            if key == "members" and o.cls == NXC:
                return DLIST.project(st, o.fields["members"].term[cont.key])
            from .engine import PyRaise

            raise PyRaise("KeyError", lineno)
        if isinstance(cont, EdgeData):
            o = _graph(ex, cont.ref)
            if key == "io" and o.cls == NXG:
                return NAMES.project(st, o.fields["io"].term[cont.u][cont.v])
            from .engine import PyRaise

            raise PyRaise("KeyError", lineno)
        return NotImplemented

    def setitem(self, ex, cont, key, v, lineno):
        """d[k] = (list, list, ...) on a dict of tuples of lists: the tuple is stored by value; the lists it holds become
        the lists *of that slot* (later in-place mutations through the local names are written back)."""
        from .values import TTuple

        st = ex.st
        o = st.heap[cont.id] if isinstance(cont, Ref) else None
        if isinstance(o, DictObj) and not o.is_empty_literal and isinstance(o.v, TTuple) and isinstance(v, tuple) and len(v) == len(o.v.items) \
                and any(isinstance(x, Ref) for x in v):
            v = tuple(ex.coerce(x, t) for x, t in zip(v, o.v.items))
            kt = o.k.embed(st, key)
            o.set(st, kt, o.v.embed(st, v))
            ex.writeback(o)
            for i, x in enumerate(v):
                if isinstance(x, Ref) and isinstance(st.heap[x.id], (ListObj, SetObj, DictObj)):
                    h = st.heap[x.id]
                    h.origin = (cont, kt, ("tuple", "dict", o.v, i))
                    h.ty = o.v.items[i]
            return True
        return NotImplemented

    def _node_exists(self, ex, cond, lineno):
        from .engine import PyRaise

        if ex.no_fork:
            # inside a comprehension element: the KeyError path becomes a safety obligation
            ex.check(cond, "safety", "node-exists", lineno, aux=True)
            return
        if not ex.st.decide(cond):
            raise PyRaise("KeyError", lineno)

    # ------------------------------------------------------------------ graph methods
    def call_method(self, ex, recv, name, args, kwargs, lineno):
        st = ex.st
        if name.startswith("disc."):
            return self._disc_method(ex, recv, name[5:], args, kwargs, lineno)
        if name == "extend" and isinstance(recv, Ref) and isinstance(st.heap[recv.id], ListObj) and len(args) == 1 and \
                (st.heap[recv.id].t == TStr and not st.heap[recv.id].is_empty_literal):
            # list-of-names.extend(iterable): the base model, plus the (derivable) fact on the *set* of elements
            o = st.heap[recv.id]
            old_term = NAME_LIST.dt.mk(o.n, o.elems)
            mb = ex.models._iter_member(ex, args[0], TStr)
            ex.models.list_method(ex, recv, o, "extend", args, kwargs, lineno)
            new_term = NAME_LIST.dt.mk(o.n, o.elems)
            k = z3.Const("k!lx", StrS)
            st.assume(_forall([k], lset(new_term)[k] == z3.Or(lset(old_term)[k], z3.simplify(mb[k])), patterns=[lset(new_term)[k]]))
            return None
        if name == "intersection" and isinstance(recv, Ref) and isinstance(st.heap[recv.id], SetObj) and len(args) == 1 and \
                getattr(ex.contract, "set_of_list_via_lset", False) and not st.heap[recv.id].is_empty_literal and st.heap[recv.id].k == TStr:
            # same set as the base model, described by a fresh membership array + its definition instead of a lambda term
            a = st.heap[recv.id]
            mb = ex.models._iter_member(ex, args[0], TStr)
            k = z3.Const("k!ix", StrS)
            m = st.fresh_const("ixmem", NameSetS)
            st.assume(_forall([k], m[k] == z3.And(a.member[k], z3.simplify(mb[k])), patterns=[m[k]] + ([a.member[k]] if _pat_ok(a.member[k]) else [])))
            o = SetObj(TStr, m, st.fresh_int("setn"))
            for f in o.wf_facts(st):
                st.assume(f)
            st.assume(o.n <= a.n)
            return st.alloc(o)
        if name in ("append", "extend") and isinstance(recv, Ref) and isinstance(st.heap[recv.id], ListObj) and len(args) == 1 and \
                st.heap[recv.id].t in (TDisc, DLIST) and not st.heap[recv.id].is_empty_literal:
            # lists of disciplines / of groups: the same lists as the base model (old elements kept, new ones appended in order),
            # described by a fresh array and axioms with usable triggers (in both directions) instead of store/lambda terms
            o = st.heap[recv.id]
            if name == "append":
                self._append_fresh(ex, o, o.t.embed(st, args[0]))
                return None
            src = st.heap[args[0].id] if isinstance(args[0], Ref) else None
            if isinstance(src, ListObj) and o.t == TDisc and (src.is_empty_literal or src.t == TDisc):
                sn = z3.simplify(src.n)
                if src.is_empty_literal:
                    return None
                if z3.is_int_value(sn) and sn.as_long() <= 12:
                    for q in range(sn.as_long()):
                        self._append_fresh(ex, o, z3.simplify(src.elems[q]))
                    return None
                oldn, olde = o.n, o.elems
                ne = st.fresh_const("xel", olde.sort())
                i = z3.Int("i!dx")
                st.assume(_forall([i], z3.Implies(z3.And(0 <= i, i < oldn), ne[i] == olde[i]), patterns=[ne[i]] + ([olde[i]] if _pat_ok(olde[i]) else [])))
                st.assume(_forall([i], z3.Implies(z3.And(oldn <= i, i < oldn + src.n), ne[i] == src.elems[i - oldn]), patterns=[ne[i]]))
                st.assume(_forall([i], z3.Implies(z3.And(0 <= i, i < src.n), ne[oldn + i] == src.elems[i]), patterns=[src.elems[i]] if _pat_ok(src.elems[i]) else None))
                o.elems, o.n = ne, oldn + src.n
                ex.writeback(o)
                return None
            return NotImplemented
        if name == "update" and isinstance(recv, Ref) and isinstance(st.heap[recv.id], SetObj) and len(args) == 1 and \
                isinstance(args[0], tuple) and len(args[0]) == 2 and args[0][0] == "*":
            # s.update(*(set_i for i in ...)): s | union of the sets produced by the generator (same skolemised description as _chain)
            o = st.heap[recv.id]
            gen = ex.to_iter(args[0][1], lineno)
            bi = st.fresh_int("bi")
            e = gen.elem(bi)
            eo = st.heap[e.id] if isinstance(e, Ref) else None
            if not isinstance(eo, SetObj):
                raise Unsupported("set.update(*iterables) over non-set iterables")
            if o.is_empty_literal:
                o.k, o.member, o.is_empty_literal = eo.k, z3.K(eo.k.sort(), z3.BoolVal(False)), False
            i = z3.Int("i!su")
            k = z3.Const("k!su", o.k.sort())
            old = o.member
            mem = st.fresh_const("sumem", z3.ArraySort(o.k.sort(), B))
            wit = st.fresh_const("suwit", z3.ArraySort(o.k.sort(), I))
            at = lambda x: z3.substitute(eo.member, (bi, x))  # noqa: E731
            st.assume(_forall([k], z3.Implies(mem[k], z3.Or(old[k], z3.And(0 <= wit[k], wit[k] < gen.n, at(wit[k])[k]))), patterns=[mem[k]]))
            st.assume(_forall([k], z3.Implies(old[k], mem[k]), patterns=[old[k]] if _pat_ok(old[k]) else None))
            st.assume(_forall([i, k], z3.Implies(z3.And(0 <= i, i < gen.n, at(i)[k]), mem[k]), patterns=[at(i)[k]] if _pat_ok(at(i)[k]) else None))
            n = st.fresh_int("sun")
            o.member = mem
            st.assume(n >= o.n)
            o.n = n
            for f in o.wf_facts(st):
                st.assume(f)
            ex.writeback(o)
            return None
        if name == "conv.is_continuous" and isinstance(recv, ConverterV):
            return SV(is_continuous(recv.d, z3.BoolVal(recv.which == "in"), TStr.embed(st, args[0])), TBool)
        if name == "has_names" and isinstance(recv, Ref) and getattr(st.heap[recv.id], "grammar_of", None) is not None:
            # BaseGrammar.has_names(names) = set(self.keys()).issuperset(names)
            return ex.models.set_method(ex, recv, st.heap[recv.id], "issuperset", args, kwargs, lineno)
        if isinstance(recv, ReverseView) and name == "get_edge_data":
            return self.call_method(ex, recv.ref, "nx.get_edge_data", [args[1], args[0]], kwargs, lineno)
        if not name.startswith("nx."):
            return NotImplemented
        o = _graph(ex, recv)
        if o is None:
            return NotImplemented
        name = name[3:]
        t = _node_t(o)
        nodes = _nodes(ex, o)
        if name == "add_nodes_from":
            self._add_nodes_from(ex, o, nodes, args[0], lineno)
            return None
        if name == "add_edge" and o.cls == NXG:
            u, v = t.embed(st, args[0]), t.embed(st, args[1])
            nodes.set(st, u, z3.BoolVal(True))
            nodes.set(st, v, z3.BoolVal(True))
            e = o.fields["edge"].term
            o.fields["edge"] = SV(z3.Store(e, u, z3.Store(e[u], v, z3.BoolVal(True))), o.fields["edge"].ty)
            if "io" in kwargs:
                io = o.fields["io"].term
                o.fields["io"] = SV(z3.Store(io, u, z3.Store(io[u], v, NAMES.embed(st, kwargs["io"]))), o.fields["io"].ty)
            elif kwargs:
                raise Unsupported(f"add_edge attributes {sorted(kwargs)}")
            return None
        if name == "out_degree":
            n = t.embed(st, args[0])
            v = z3.Const("v!od", t.sort())
            e = o.fields["edge"].term
            has_succ = z3.Exists([v], z3.And(nodes.member[v], e[n][v]))
            # a positive number when there is a successor, 0 otherwise (the exact count is not modelled)
            return SV(z3.If(has_succ, z3.IntVal(1) + _nonneg(st), z3.IntVal(0)), TInt)
        if name == "remove_nodes_from":
            self._remove_nodes_from(ex, o, nodes, args[0], lineno)
            return None
        if name == "edges" and o.cls == NXG:
            return self._edges(ex, o, nodes, kwargs.get("data", args[0] if args else None))
        if name == "get_edge_data" and o.cls == NXG:
            u, v = t.embed(st, args[0]), t.embed(st, args[1])
            if not st.decide(o.fields["edge"].term[u][v]):
                return None
            return EdgeData(recv, u, v)
        raise Unsupported(f"networkx graph method {name}")

    def _add_nodes_from(self, ex, o, nodes, it, lineno):
        st = ex.st
        t = _node_t(o)
        seq = ex.to_iter(it, lineno)
        if seq.concrete is not None:
            for x in seq.concrete:
                nodes.set(st, t.embed(st, x), z3.BoolVal(True))
            return
        bi = st.fresh_int("bi")
        e = t.embed(st, seq.elem(bi))
        at = lambda i: z3.substitute(e, (bi, i))  # noqa: E731
        i, j = z3.Ints("i!an j!an")
        k = z3.Const("k!an", t.sort())
        new = st.heap[TDict(t, TBool, ordered=True).fresh(st, "nodes").id]
        old_m, old_pos, old_n = nodes.member, nodes.pos, nodes.n
        st.assume(_forall([k], new.member[k] == z3.Or(old_m[k], z3.Exists([i], z3.And(0 <= i, i < seq.n, at(i) == k)))))
        st.assume(_forall([i], z3.Implies(z3.And(0 <= i, i < seq.n), new.member[at(i)]), patterns=[at(i)] if _pat_ok(at(i)) else []))
        st.assume(_forall([k], z3.Implies(old_m[k], new.pos[k] == old_pos[k])))
        st.assume(new.n >= old_n)
        st.assume(new.n <= old_n + seq.n)
        # duplicate-free iterable disjoint from the present nodes: appended in iteration order
        distinct = _forall([i, j], z3.Implies(z3.And(0 <= i, i < j, j < seq.n), at(i) != at(j)))
        disjoint = _forall([i], z3.Implies(z3.And(0 <= i, i < seq.n), z3.Not(old_m[at(i)])))
        st.assume(z3.Implies(z3.And(distinct, disjoint), z3.And(new.n == old_n + seq.n, _forall([i], z3.Implies(z3.And(0 <= i, i < seq.n), new.keys[old_n + i] == at(i))))))
        nodes.member, nodes.vals, nodes.n, nodes.keys, nodes.pos = new.member, new.vals, new.n, new.keys, new.pos
        nodes.is_empty_literal = False

    def _remove_nodes_from(self, ex, o, nodes, it, lineno):
        """Nodes of the iterable that are present are removed with their incident edges; the order of the
        others is kept.  On a condensation graph the ghost history fields record the batch."""
        st = ex.st
        t = _node_t(o)
        lst = st.heap[it.id] if isinstance(it, Ref) else None
        if not isinstance(lst, ListObj):
            raise Unsupported("remove_nodes_from: only lists")
        if lst.is_empty_literal:
            elems, ln_ = z3.K(I, t.embed(st, 0) if t is TInt else st.fresh_const("d", DiscS)), z3.IntVal(0)
        else:
            elems, ln_ = lst.elems, lst.n
        i = z3.Int("i!rm")
        k, k2 = z3.Consts("k!rm k2!rm", t.sort())
        inl = z3.Lambda([k], z3.Exists([i], z3.And(0 <= i, i < ln_, elems[i] == k)))
        new = st.heap[TDict(t, TBool, ordered=True).fresh(st, "nodes").id]
        old_m, old_pos, old_n = nodes.member, nodes.pos, nodes.n
        st.assume(_forall([k], new.member[k] == z3.And(old_m[k], z3.Not(inl[k]))))
        st.assume(_forall([i], z3.Implies(z3.And(0 <= i, i < ln_), z3.Not(new.member[elems[i]])), patterns=[elems[i]]))
        st.assume(_forall([k, k2], z3.Implies(z3.And(new.member[k], new.member[k2]), (new.pos[k] < new.pos[k2]) == (old_pos[k] < old_pos[k2]))))
        st.assume(new.n <= old_n)
        st.assume(z3.Implies(z3.And(ln_ > 0, old_m[elems[0]]), new.n < old_n))
        e = o.fields["edge"].term
        u, v = z3.Consts("u!rm v!rm", t.sort())
        ne = st.fresh_const("edge", e.sort())
        st.assume(_forall([u, v], ne[u][v] == z3.And(e[u][v], new.member[u], new.member[v]), patterns=[ne[u][v]]))
        o.fields["edge"] = SV(ne, o.fields["edge"].ty)
        if o.cls == NXC:
            f = o.fields
            cnt = f["rm_count"].term
            rt, rs = f["rm_time"].term, f["rm_slot"].term
            nrt, nrs = st.fresh_const("rm_time", rt.sort()), st.fresh_const("rm_slot", rs.sort())
            removed_now = lambda c: z3.And(old_m[c], inl[c])  # noqa: E731
            st.assume(_forall([k], nrt[k] == z3.If(removed_now(k), cnt, rt[k]), patterns=[nrt[k]]))
            st.assume(_forall([k], z3.Implies(z3.Not(removed_now(k)), nrs[k] == rs[k]), patterns=[nrs[k]]))
            # slot = index of the first occurrence in the batch
            st.assume(_forall([i], z3.Implies(z3.And(0 <= i, i < ln_, old_m[elems[i]]), z3.And(nrt[elems[i]] == cnt, 0 <= nrs[elems[i]], nrs[elems[i]] <= i, elems[nrs[elems[i]]] == elems[i])),
                                patterns=[elems[i]]))
            f["rm_time"], f["rm_slot"] = SV(nrt, f["rm_time"].ty), SV(nrs, f["rm_slot"].ty)
            f["rm_batch"] = SV(z3.Store(f["rm_batch"].term, cnt, ILIST.dt.mk(ln_, elems)), f["rm_batch"].ty)
            f["rm_count"] = SV(cnt + 1, TInt)
        nodes.member, nodes.vals, nodes.n, nodes.keys, nodes.pos = new.member, new.vals, new.n, new.keys, new.pos
        nodes.is_empty_literal = False

    def _edges(self, ex, o, nodes, data):
        """Arbitrary duplicate-free enumeration of the edges, with the requested attribute."""
        from .engine import IterV

        st = ex.st
        e = o.fields["edge"].term
        n = st.fresh_int("nedges")
        eu, ev = st.fresh_const("eu", z3.ArraySort(I, DiscS)), st.fresh_const("ev", z3.ArraySort(I, DiscS))
        epos = st.fresh_const("epos", z3.ArraySort(DiscS, z3.ArraySort(DiscS, I)))
        i = z3.Int("i!ed")
        u, v = z3.Consts("u!ed v!ed", DiscS)
        st.assume(n >= 0)
        st.assume(_forall([i], z3.Implies(z3.And(0 <= i, i < n), z3.And(e[eu[i]][ev[i]], epos[eu[i]][ev[i]] == i)), patterns=[eu[i]]))
        st.assume(_forall([u, v], z3.Implies(e[u][v], z3.And(0 <= epos[u][v], epos[u][v] < n, eu[epos[u][v]] == u, ev[epos[u][v]] == v)), patterns=[epos[u][v]] + ([e[u][v]] if _pat_ok(e[u][v]) else [])))
        io = o.fields["io"].term
        if data == "io":
            seq = IterV(n, lambda j: (SV(eu[j], TDisc), SV(ev[j], TDisc), NAMES.project(st, io[eu[j]][ev[j]])))
        elif data is None or data is False:
            seq = IterV(n, lambda j: (SV(eu[j], TDisc), SV(ev[j], TDisc)))
        else:
            raise Unsupported(f"edges(data={data!r})")
        seq.eu, seq.ev, seq.epos = eu, ev, epos
        return seq

    # ------------------------------------------------------------------ disciplines: methods
    def _disc_method(self, ex, recv, name, args, kwargs, lineno):
        r = ex.models._plug("disc_method", ex, recv, name, args, kwargs, lineno)
        if r is not NotImplemented:
            return r
        st = ex.st
        if name in ("add_differentiated_inputs", "add_differentiated_outputs") and len(args) == 1 and isinstance(args[0], Ref) and isinstance(st.heap[args[0].id], ListObj):
            return self._add_differentiated(ex, recv.term, name.endswith("inputs"), st.heap[args[0].id], lineno)
        if name == "execute" and len(args) == 1 and isinstance(args[0], Ref) and isinstance(st.heap[args[0].id], DictObj):
            # d.execute(data): the discipline's local data after execution, a deterministic function of the discipline and
            # of the content of the input data; the passed mapping is not modified (ASSUMED)
            src = st.heap[args[0].id]
            if src.k != TStr or src.v.sort() != ValS:
                raise Unsupported("execute() on a mapping that is not str -> value")
            d = recv.term
            o = DictObj(TStr, src.v, exec_member(d, src.member, src.vals), exec_vals(d, src.member, src.vals), st.fresh_int("execn"))
            for f in o.wf_facts(st):
                st.assume(f)
            ex.assumed.add("Discipline.execute(data): returns a mapping that is a deterministic function of (discipline, content of data); `data` itself is not modified (assumed)")
            return st.alloc(o)
        raise Unsupported(f"discipline method {name} (no model registered)")

    def _append_fresh(self, ex, o, term):
        st = ex.st
        oldn, olde = o.n, o.elems
        ne = st.fresh_const("xel", olde.sort())
        i = z3.Int("i!da")
        st.assume(_forall([i], z3.Implies(z3.And(0 <= i, i < oldn), ne[i] == olde[i]), patterns=[ne[i]] + ([olde[i]] if _pat_ok(olde[i]) else [])))
        st.assume(ne[oldn] == term)
        o.elems, o.n = ne, oldn + 1
        ex.writeback(o)

    def _add_differentiated(self, ex, d, inputs, lst, lineno):
        """Opaque discipline d: effect of add_differentiated_inputs/outputs(names) on the ghost map of differentiated
        names, as stated by the contract verified on the real method (c09: AddDifferentiatedInputs/Outputs)."""
        from .engine import PyRaise

        st = ex.st
        gname = "c09_diff_in" if inputs else "c09_diff_out"
        cur = st.ghost_get(gname, DIFF_S)
        names = in_names(d) if inputs else out_names(d)
        if lst.is_empty_literal:
            raise Unsupported("add_differentiated_* with an empty literal")
        i = z3.Int("i!adn")
        k = z3.Const("k!adn", StrS)
        inl = z3.Lambda([k], z3.Exists([i], z3.And(0 <= i, i < lst.n, lst.elems[i] == k)))
        bad = z3.And(lst.n != 0, z3.Exists([i], z3.And(0 <= i, i < lst.n, z3.Not(names[lst.elems[i]]))))
        if st.decide(bad):
            raise PyRaise("ValueError", lineno)
        which = z3.BoolVal(inputs)
        sel = z3.Lambda([k], z3.If(lst.n != 0, inl[k], names[k]))
        new = z3.Lambda([k], z3.Or(cur[d][k], z3.And(sel[k], is_continuous(d, which, k))))
        st.ghost_set(gname, z3.Store(cur, d, new))
        ex.assumed.add("opaque disciplines: add_differentiated_inputs/outputs acts on the ghost map of differentiated names as its verified contract states")
        return None

    # ------------------------------------------------------------------ networkx functions, builtins
    def call_builtin(self, ex, name, args, kwargs, lineno, node=None):
        st = ex.st
        if name == "networkx.DiGraph" and not args and not kwargs:
            return new_graph(ex)
        if name == "networkx.strongly_connected_components":
            return self._scc(ex, args[0])
        if name == "networkx.condensation":
            return self._condensation(ex, args[0], kwargs.get("scc", args[1] if len(args) > 1 else None), lineno)
        if name == "networkx.reverse_view":
            return ReverseView(args[0])
        if name == "networkx.edge_bfs":
            return self._edge_bfs(ex, args[0], kwargs.get("source", args[1] if len(args) > 1 else None), lineno)
        if name == "sorted" and len(args) == 1 and not kwargs:
            from .engine import IterV

            if isinstance(args[0], IterV) and args[0].concrete is None and getattr(args[0], "elem_type", None) is not None:
                return self._sorted_perm(ex, args[0], lineno)
            return self._sorted_ints(ex, args[0], lineno)
        if name == "set" and len(args) == 1 and isinstance(args[0], Ref) and isinstance(st.heap[args[0].id], ListObj):
            lo = st.heap[args[0].id]
            org = lo.origin
            in_selection = org is not None and isinstance(org[2], tuple) and org[2][0] == "tuple"
            if lo.t == TStr and not lo.is_empty_literal and (in_selection or getattr(ex.contract, "set_of_list_via_lset", False)):
                # set(list of names): membership through lset (defined by lset_definition, which the contracts assume) instead of a lambda
                o = SetObj(TStr, lset(NAME_LIST.dt.mk(lo.n, lo.elems)), st.fresh_int("setn"))
                for f in o.wf_facts(st):
                    st.assume(f)
                st.assume(o.n <= lo.n)
                return st.alloc(o)
        if name == "set" and len(args) == 1:
            from .models import DictView

            if isinstance(args[0], DictView) and args[0].kind == "values":
                # the set of the *values* of a dict
                d = st.heap[args[0].ref.id]
                if d.is_empty_literal:
                    return NotImplemented
                k = z3.Const("k!sv", d.k.sort())
                x = z3.Const("x!sv", d.v.sort())
                o = SetObj(d.v, z3.Lambda([x], z3.Exists([k], z3.And(d.member[k], d.vals[k] == x))), st.fresh_int("setn"))
                for f in o.wf_facts(st):
                    st.assume(f)
                st.assume(o.n <= d.n)
                return st.alloc(o)
        if name == "list" and len(args) == 1 and not kwargs and isinstance(args[0], Ref) and isinstance(st.heap[args[0].id], SetObj) \
                and st.heap[args[0].id].k == TStr and not st.heap[args[0].id].is_empty_literal:
            # list(set of names): the base model (an enumeration), plus the (derivable) fact on the set of elements
            src = st.heap[args[0].id]
            if getattr(ex.contract, "set_of_list_via_lset", False):
                seq = ex.to_iter(args[0], lineno)
                res = st.alloc(ListObj(TStr, seq.n, seq.keys))  # the enumeration array itself (no lambda)
            else:
                res = ex.models._list_from_iter(ex, ex.to_iter(args[0], lineno), args[0])
            ro = st.heap[res.id]
            k = z3.Const("k!lx", StrS)
            t = NAME_LIST.dt.mk(ro.n, ro.elems)
            st.assume(_forall([k], lset(t)[k] == src.member[k], patterns=[lset(t)[k]]))
            return res
        if name == "itertools.chain":
            return self._chain(ex, args, lineno)
        if name == "filter" and len(args) == 2:
            return self._filter(ex, args[0], args[1], lineno)
        return NotImplemented

    def _sorted_ints(self, ex, src, lineno):
        """sorted() of integers: permutation (as in the base model) + the order facts."""
        from .models import DictView

        st = ex.st
        kt = ex.models._elem_type_of_iterable(ex, src)
        if kt != TInt:
            return NotImplemented
        seq = ex.to_iter(src, lineno)
        if seq.concrete is not None:
            if not seq.concrete:
                return ex.coerce(ex.models.make_list(ex, []), TList(kt))  # a typed empty list
            return NotImplemented
        mem = ex.models._iter_member(ex, src, kt)
        res = TList(kt).fresh(st, "sorted")
        ro = st.heap[res.id]
        i, j = z3.Ints("i!so j!so")
        k = z3.Const("k!so", kt.sort())
        st.assume(ro.n == seq.n)
        st.assume(_forall([i], z3.Implies(z3.And(0 <= i, i < ro.n), mem[ro.elems[i]]), patterns=[ro.elems[i]]))
        spos = st.fresh_const("sortpos", z3.ArraySort(I, I))
        st.assume(_forall([k], z3.Implies(mem[k], z3.And(0 <= spos[k], spos[k] < ro.n, ro.elems[spos[k]] == k)), patterns=[spos[k]] + ([mem[k]] if _pat_ok(mem[k]) else [])))
        srco = st.heap[src.id] if isinstance(src, Ref) else (st.heap[src.ref.id] if isinstance(src, DictView) and src.kind == "keys" else None)
        if isinstance(srco, (SetObj, DictObj)):
            # distinct elements: strictly increasing
            st.assume(_forall([i, j], z3.Implies(z3.And(0 <= i, i < j, j < ro.n), ro.elems[i] < ro.elems[j]), patterns=[z3.MultiPattern(ro.elems[i], ro.elems[j])]))
        else:
            st.assume(_forall([i, j], z3.Implies(z3.And(0 <= i, i < j, j < ro.n), ro.elems[i] <= ro.elems[j]), patterns=[z3.MultiPattern(ro.elems[i], ro.elems[j])]))
        ex.assumed.add("model:sorted(int): sorted permutation")
        return res

    def _sorted_perm(self, ex, seq, lineno):
        """sorted(generator): a permutation of the produced elements, stated with the two index maps (good triggers);
        as in the base model the order itself is not modelled."""
        st = ex.st
        kt = seq.elem_type
        bi = st.fresh_int("bi")
        e = kt.embed(st, seq.elem(bi))
        at = lambda x: z3.substitute(e, (bi, x))  # noqa: E731
        res = TList(kt).fresh(st, "sorted")
        ro = st.heap[res.id]
        to, frm = st.fresh_const("sp_to", z3.ArraySort(I, I)), st.fresh_const("sp_from", z3.ArraySort(I, I))
        i, j = z3.Ints("i!sp j!sp")
        st.assume(ro.n == seq.n)
        st.assume(_forall([j], z3.Implies(z3.And(0 <= j, j < seq.n), z3.And(0 <= to[j], to[j] < ro.n, ro.elems[to[j]] == at(j), frm[to[j]] == j)), patterns=[to[j]] + ([at(j)] if _pat_ok(at(j)) else [])))
        st.assume(_forall([i], z3.Implies(z3.And(0 <= i, i < ro.n), z3.And(0 <= frm[i], frm[i] < seq.n, ro.elems[i] == at(frm[i]), to[frm[i]] == i)), patterns=[frm[i], ro.elems[i]]))
        ex.assumed.add("model:sorted(permutation only)")
        return res

    def _chain(self, ex, args, lineno):
        """itertools.chain(*iterables of names): only the *set* of the produced elements is modelled
        (the result may only be consumed by set())."""
        from .engine import IterV

        st = ex.st
        if len(args) == 1 and isinstance(args[0], tuple) and len(args[0]) == 2 and args[0][0] == "*":
            gen = ex.to_iter(args[0][1], lineno)
            bi = st.fresh_int("bi")
            e = gen.elem(bi)
            o = st.heap[e.id] if isinstance(e, Ref) else None
            if not isinstance(o, SetObj):
                raise Unsupported("itertools.chain over non-set iterables")
            i = z3.Int("i!ch")
            k = z3.Const("k!ch", o.k.sort())
            # member = {k | exists i < n. k in set_i}: a fresh array with the two directions of that definition (the witness index is
            # a skolem function), each with a usable trigger - instead of a lambda/exists term
            mem = st.fresh_const("chmem", z3.ArraySort(o.k.sort(), B))
            wit = st.fresh_const("chwit", z3.ArraySort(o.k.sort(), I))
            at = lambda x: z3.substitute(o.member, (bi, x))  # noqa: E731
            st.assume(_forall([k], z3.Implies(mem[k], z3.And(0 <= wit[k], wit[k] < gen.n, at(wit[k])[k])), patterns=[mem[k]]))
            st.assume(_forall([i, k], z3.Implies(z3.And(0 <= i, i < gen.n, at(i)[k]), mem[k]), patterns=[at(i)[k]] if _pat_ok(at(i)[k]) else None))
            res = SetObj(o.k, mem, st.fresh_int("chn"))
            for f in res.wf_facts(st):
                st.assume(f)
            res.chain_only_set = True
            return st.alloc(res)
        raise Unsupported("itertools.chain with explicit arguments")

    def _filter(self, ex, fn, it, lineno):
        """filter(pred, names) consumed by set.union: modelled as the set of the kept elements."""
        st = ex.st
        kt = ex.models._elem_type_of_iterable(ex, it)
        mem = ex.models._iter_member(ex, it, kt)
        k = z3.Const("k!fl", kt.sort())
        bk = st.fresh_const("fk", kt.sort())
        t = ex.truth_term(ex.call_value(fn, [SV(bk, kt)], {}, lineno))
        res = SetObj(kt, z3.Lambda([k], z3.And(mem[k], z3.substitute(t, (bk, k)))), st.fresh_int("fln"))
        for f in res.wf_facts(st):
            st.assume(f)
        return st.alloc(res)

    # ---- assumed networkx contracts
    def _scc(self, ex, g):
        st = ex.st
        o = _graph(ex, g)
        if o is None or o.cls != NXG:
            raise Unsupported("strongly_connected_components of a non-graph")
        nodes = _nodes(ex, o)
        E = o.fields["edge"].term
        res = TList(TSet(TDisc)).fresh(st, "scc")
        ro = st.heap[res.id]
        SS = TSet(TDisc)
        mem = lambda i: SS.dt.accessor(0, 0)(ro.elems[i])  # noqa: E731
        cls_of = st.fresh_const("scc_of", z3.ArraySort(DiscS, I))
        i = z3.Int("i!scc")
        u, v = z3.Consts("u!scc v!scc", DiscS)
        for f in reach_axioms(E):
            st.assume(f)
        # partition: every node in exactly one class (cls_of), classes contain only nodes
        st.assume(_forall([u], z3.Implies(nodes.member[u], z3.And(0 <= cls_of[u], cls_of[u] < ro.n, mem(cls_of[u])[u])), patterns=[cls_of[u]] + ([nodes.member[u]] if _pat_ok(nodes.member[u]) else [])))
        st.assume(_forall([i], z3.Implies(z3.And(0 <= i, i < ro.n), SS.dt.accessor(0, 1)(ro.elems[i]) >= 1), patterns=[ro.elems[i]]))
        st.assume(_forall([i, u], z3.Implies(z3.And(0 <= i, i < ro.n), mem(i)[u] == z3.And(nodes.member[u], cls_of[u] == i)), patterns=[mem(i)[u]]))
        # classes are the classes of mutual reachability
        st.assume(_forall([u, v], z3.Implies(z3.And(nodes.member[u], nodes.member[v]), (cls_of[u] == cls_of[v]) == z3.And(reach(E, u, v), reach(E, v, u))),
                            patterns=[z3.MultiPattern(cls_of[u], cls_of[v])]))
        # no empty class
        wit = st.fresh_const("scc_wit", z3.ArraySort(I, DiscS))
        st.assume(_forall([i], z3.Implies(z3.And(0 <= i, i < ro.n), z3.And(nodes.member[wit[i]], cls_of[wit[i]] == i)), patterns=[wit[i]]))
        ex.assumed.add("networkx.strongly_connected_components: returns the partition of the nodes into classes of mutual reachability (assumed)")
        res_obj = st.heap[res.id]
        res_obj.scc_of = cls_of
        return res

    def _condensation(self, ex, g, scc, lineno):
        st = ex.st
        o = _graph(ex, g)
        so = st.heap[scc.id] if isinstance(scc, Ref) else None
        if o is None or o.cls != NXG or not isinstance(so, ListObj) or so.t != DLIST:
            raise Unsupported("condensation: expects a discipline graph and a list of lists of disciplines")
        nodes = _nodes(ex, o)
        E = o.fields["edge"].term
        m = so.n
        i, j, p, q = z3.Ints("i!cd j!cd p!cd q!cd")
        u, v = z3.Consts("u!cd v!cd", DiscS)
        comp = lambda a: so.elems[a]  # noqa: E731
        # applicability of the assumed contract: `scc` is a partition of the nodes into duplicate-free lists
        comp_of = st.fresh_const("comp_of", z3.ArraySort(DiscS, I))
        midx = st.fresh_const("member_idx", z3.ArraySort(DiscS, I))
        ex.check(_forall([i, p], z3.Implies(z3.And(0 <= i, i < m, 0 <= p, p < ln(comp(i))), nodes.member[le(comp(i), p)])), "pre", "condensation:scc-members-are-nodes", lineno, aux=True)
        ex.check(_forall([i, j, p, q], z3.Implies(z3.And(0 <= i, i < m, 0 <= j, j < m, 0 <= p, p < ln(comp(i)), 0 <= q, q < ln(comp(j)), le(comp(i), p) == le(comp(j), q)),
                                                     z3.And(i == j, p == q))), "pre", "condensation:scc-disjoint-duplicate-free", lineno, aux=True)
        cover = st.fresh_const("cover_c", z3.ArraySort(DiscS, I))
        cover_p = st.fresh_const("cover_p", z3.ArraySort(DiscS, I))
        ex.check(_forall([u], z3.Implies(nodes.member[u], z3.Exists([i, p], z3.And(0 <= i, i < m, 0 <= p, p < ln(comp(i)), le(comp(i), p) == u)))),
                 "pre", "condensation:scc-covers-nodes", lineno, aux=True)
        c = new_graph(ex, NXC)
        co = st.heap[c.id]
        cn = _nodes(ex, co)
        new = st.heap[TDict(TInt, TBool, ordered=True).fresh(st, "cnodes").id]
        st.assume(new.n == m)
        st.assume(_forall([i], new.member[i] == z3.And(0 <= i, i < m)))
        st.assume(_forall([i], z3.Implies(z3.And(0 <= i, i < m), z3.And(new.keys[i] == i, new.pos[i] == i))))
        cn.member, cn.vals, cn.n, cn.keys, cn.pos = new.member, new.vals, new.n, new.keys, new.pos
        cn.is_empty_literal = False
        ce = st.fresh_const("cedge", REL_I)
        # mapping / member index (functions of the partition)
        st.assume(_forall([u], z3.Implies(nodes.member[u], z3.And(0 <= comp_of[u], comp_of[u] < m, 0 <= midx[u], midx[u] < ln(comp(comp_of[u])), le(comp(comp_of[u]), midx[u]) == u)),
                            patterns=[comp_of[u]]))
        st.assume(_forall([i, p], z3.Implies(z3.And(0 <= i, i < m, 0 <= p, p < ln(comp(i))), z3.And(comp_of[le(comp(i), p)] == i, midx[le(comp(i), p)] == p)),
                            patterns=[le(comp(i), p)]))
        # an edge a -> b iff a != b and some member edge crosses
        st.assume(_forall([u, v], z3.Implies(z3.And(nodes.member[u], nodes.member[v], E[u][v], comp_of[u] != comp_of[v]), ce[comp_of[u]][comp_of[v]]),
                            patterns=[z3.MultiPattern(E[u][v], comp_of[u], comp_of[v])]))
        eu = st.fresh_const("cwit_u", z3.ArraySort(I, z3.ArraySort(I, DiscS)))
        ev = st.fresh_const("cwit_v", z3.ArraySort(I, z3.ArraySort(I, DiscS)))
        st.assume(_forall([i, j], z3.Implies(ce[i][j], z3.And(0 <= i, i < m, 0 <= j, j < m, i != j, nodes.member[eu[i][j]], nodes.member[ev[i][j]], comp_of[eu[i][j]] == i,
                                                                comp_of[ev[i][j]] == j, E[eu[i][j]][ev[i][j]])), patterns=[ce[i][j]]))
        # acyclic: a topological rank exists
        rank = st.fresh_const("rank", z3.ArraySort(I, I))
        st.assume(_forall([i, j], z3.Implies(ce[i][j], rank[i] > rank[j]), patterns=[ce[i][j]]))
        st.assume(_forall([i], rank[i] >= 0, patterns=[rank[i]]))
        F = COND_FIELDS
        co.fields.update({
            "edge": SV(ce, F["edge"]), "edge0": SV(ce, F["edge0"]), "n0": SV(m, TInt),
            "members": SV(so.elems, F["members"]), "comp_of": SV(comp_of, F["comp_of"]), "member_idx": SV(midx, F["member_idx"]), "rank": SV(rank, F["rank"]),
            "rm_time": SV(z3.K(I, z3.IntVal(-1)), F["rm_time"]), "rm_slot": SV(st.fresh_const("rm_slot0", z3.ArraySort(I, I)), F["rm_slot"]), "rm_count": SV(z3.IntVal(0), TInt),
            "rm_batch": SV(st.fresh_const("rm_batch0", z3.ArraySort(I, ILIST.sort())), F["rm_batch"]),
        })
        ex.assumed.add("networkx.condensation(G, scc): nodes 0..m-1 in the order of scc with members/mapping, an edge a->b iff a!=b and a member edge crosses, acyclic (rank function) (assumed)")
        return c

    def _edge_bfs(self, ex, g, source, lineno):
        """edge_bfs(G, source): each edge (u, v) of G with u reachable from `source`, once (assumed)."""
        from .engine import IterV

        st = ex.st
        rev = isinstance(g, ReverseView)
        o = _graph(ex, g.ref if rev else g)
        if o is None or o.cls != NXG:
            raise Unsupported("edge_bfs of a non-graph")
        E = o.fields["edge"].term
        nodes = _nodes(ex, o)
        s = TDisc.embed(st, source)
        u, v = z3.Consts("u!bfs v!bfs", DiscS)
        # orientation: in the reversed view an edge (a, b) is the edge b -> a of G
        edge = (lambda a, b: E[b][a]) if rev else (lambda a, b: E[a][b])
        rch = (lambda a: reach(E, a, s)) if rev else (lambda a: reach(E, s, a))
        for f in reach_axioms(E):
            st.assume(f)
        n = st.fresh_int("nbfs")
        eu, ev = st.fresh_const("bu", z3.ArraySort(I, DiscS)), st.fresh_const("bv", z3.ArraySort(I, DiscS))
        bpos = st.fresh_const("bpos", z3.ArraySort(DiscS, z3.ArraySort(DiscS, I)))
        i = z3.Int("i!bfs")
        st.assume(n >= 0)
        st.assume(_forall([i], z3.Implies(z3.And(0 <= i, i < n), z3.And(edge(eu[i], ev[i]), rch(eu[i]), nodes.member[eu[i]], nodes.member[ev[i]], bpos[eu[i]][ev[i]] == i)), patterns=[eu[i]]))
        st.assume(_forall([u, v], z3.Implies(z3.And(edge(u, v), rch(u), nodes.member[u], nodes.member[v]), z3.And(0 <= bpos[u][v], bpos[u][v] < n, eu[bpos[u][v]] == u, ev[bpos[u][v]] == v)),
                            patterns=[bpos[u][v]] + ([edge(u, v)] if _pat_ok(edge(u, v)) else [])))
        ex.assumed.add("networkx.edge_bfs(G, source): enumerates exactly the edges whose tail is reachable from the source, each once (assumed)")
        def elem(j):
            # ground instance of the enumeration axiom for the element that is read
            st.assume(z3.Implies(z3.And(0 <= j, j < n), z3.And(edge(eu[j], ev[j]), rch(eu[j]), nodes.member[eu[j]], nodes.member[ev[j]], bpos[eu[j]][ev[j]] == j)))
            return (SV(eu[j], TDisc), SV(ev[j], TDisc))

        seq = IterV(n, elem)
        seq.eu, seq.ev, seq.bpos = eu, ev, bpos
        return seq


def _nonneg(st):
    x = st.fresh_int("deg")
    return z3.If(x >= 0, x, -x)


def _pat_ok(t):
    return z3.is_app(t) and t.decl().kind() in (z3.Z3_OP_SELECT, z3.Z3_OP_UNINTERPRETED)
