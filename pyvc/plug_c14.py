"""C14 plugin: the Python/numpy features the DOE libraries need beyond npmodel.py.

Everything here models real Python/numpy semantics; the hooks only fire for contracts that opt in with ``c14 = True`` (or on the
plugin's own heap objects), so that no other property's verification conditions change.

* ``TKw({name: T, ...})``: a ``**kwargs`` dictionary with a known key set (validated settings of one algorithm): ``get``, ``[]``, ``in``,
  and ``f(**kw)`` = explicit keywords.
* ``list(d.values())`` of an ordered dict: the values in insertion order.
* ``numpy.hstack(<list of vectors>)``: concatenation at the prefix sums of the lengths (offset array with its recursive definition; the
  consequences "offsets are monotone" and "every position belongs to one block" are proved by induction in contracts/c14_doe.py: HstackLemmas).
* ``numpy.hstack(<list of n x 1 columns>)``: the n x len(list) matrix of the columns (ValueError when the row counts differ).
* ``numpy.where(mask)`` = ``mask.nonzero()``;  ``set(<int vector>)``;  ``numpy.linspace(a, b, n)``;  ``v[:, newaxis]``.
* ``a[..., mask]`` on a rank-2 array (columns selected by a boolean mask, via the strictly increasing enumeration of the mask).
* ``str(i)`` of an int: the deterministic, injective uninterpreted function ``str_of_int``.
* ``array.dtype = dtype(array.dtype, metadata=...)``: metadata only, the elements are unchanged (no-op).
* singledispatchmethod ``BaseDOELibrary.__get_design_space``: identity on a DesignSpace.
"""
from __future__ import annotations

import ast

import z3

from .npmodel import ArrObj, NumpyModel, TArr, _arr, _conv, _is_arr, arr_sort
from .values import (BoundMethod, BuiltinV, DictObj, HeapObj, ListObj, PyObj, Ref, SetObj, StrS, SV, T, TBool, TDict, TInt, TOpt, TReal, TStr, TVal, Unsupported,
                     declare_ghost, is_concrete, str_lit, val_none)

_np = NumpyModel()
str_of_int = z3.Function("str_of_int", z3.IntSort(), StrS)
hs_off = z3.Function("c14_hstack_off", z3.ArraySort(z3.IntSort(), z3.IntSort()), z3.IntSort(), z3.IntSort())  # prefix sums of a length sequence
hs_blk = z3.Function("c14_hstack_blk", z3.ArraySort(z3.IntSort(), z3.IntSort()), z3.IntSort(), z3.IntSort())  # block of a position


strat_weight = z3.Function("c14_stratified_weight", z3.IntSort(), z3.IntSort())  # points per level of the stratified design of the verified class
pow2 = z3.Function("c14_pow2", z3.IntSort(), z3.IntSort())
lin_t = z3.Function("np_linspace_t", z3.IntSort(), z3.IntSort(), z3.RealSort())  # t(i, n) = i / (n - 1): relative position of sample i among n


def linspace_definition():
    i, n = z3.Int("i!lt"), z3.Int("n!lt")
    return z3.ForAll([i, n], z3.Implies(n >= 2, lin_t(i, n) * z3.ToReal(n - 1) == z3.ToReal(i)), patterns=[lin_t(i, n)])


def linspace_facts():
    """Consequences of the definition t(i, n) (n - 1) = i (proved in contracts/c14_doe.py: LinspaceLemmas), in linear form."""
    i, n = z3.Int("i!lt"), z3.Int("n!lt")
    return [z3.ForAll([i, n], z3.Implies(z3.And(n >= 2, 0 <= i, i <= n - 1), z3.And(0 <= lin_t(i, n), lin_t(i, n) <= 1)), patterns=[lin_t(i, n)]),
            z3.ForAll([n], z3.Implies(n >= 2, z3.And(lin_t(0, n) == 0, lin_t(n - 1, n) == 1)), patterns=[lin_t(0, n)]),
            z3.ForAll([i, n], z3.Implies(z3.And(n >= 2, 1 <= i), lin_t(i, n) > 0), patterns=[lin_t(i, n)])]


NUM_CACHE_FIELDS = ("_DesignSpace__norm_data_is_computed", "_DesignSpace__lower_bounds_array", "_DesignSpace__upper_bounds_array", "_norm_factor",
                    "_norm_factor_inv", "_DesignSpace__norm_inds", "_DesignSpace__integer_components", "_DesignSpace__no_integer", "_DesignSpace__common_dtype")


def _on(ex):
    return getattr(ex.contract, "c14", False)


# ---- third-party samplers (OpenTURNS / SciPy / pyDOE): uninterpreted deterministic functions; the last call is recorded in ghost variables
KW = TDict(TStr, TVal)
F2T = TArr("f", 2)
tp_samples = z3.Function("c14_third_party_samples", StrS, z3.IntSort(), TVal.sort(), z3.IntSort(), KW.sort(), F2T.sort())  # (algorithm, dimension, n_samples, seed, options)
random_state = z3.Function("c14_random_state", z3.IntSort(), TVal.sort())  # numpy.random.RandomState(seed)
int_of_val = z3.Function("c14_int_of_val", TVal.sort(), z3.IntSort())
val_truth = z3.Function("c14_val_truth", TVal.sort(), z3.BoolSort())
scipy_at_least = z3.Function("c14_scipy_at_least", StrS, z3.BoolSort())  # parse_version(v) <= SCIPY_VERSION
TP_GHOSTS = {"c14_tp_calls": z3.IntSort(), "c14_tp_algo": StrS, "c14_tp_dim": z3.IntSort(), "c14_tp_n": TVal.sort(), "c14_tp_seed": z3.IntSort(),
             "c14_tp_opts": KW.sort(), "c14_ot_seed": z3.IntSort()}
for _g, _s in TP_GHOSTS.items():
    declare_ghost(_g, _s)
TABLES = {"_OpenTURNS__NAMES_TO_CLASSES": "openturns", "_SciPyDOE__NAMES_TO_CLASSES": "scipy", "_PyDOELibrary__NAMES_TO_FUNCTIONS": "pydoe"}


class TableV:
    """The class-level mapping algorithm name -> third-party class / function of a wrapper library."""

    def __init__(self, lib):
        self.lib = lib


class AlgoV:
    """A third-party sampler class / instance / function selected by the algorithm name."""

    def __init__(self, lib, name, stage, dim=None, seed=None, opts=None):
        self.lib, self.name, self.stage, self.dim, self.seed, self.opts = lib, name, stage, dim, seed, opts


class FinfoV:
    """numpy.finfo(float64)."""


class VersionV:
    def __init__(self, s):
        self.s = s


def _opts_term(ex, kwargs, skip=()):
    """Options of a third-party call as a KW term: the `**d` dictionary (explicit keywords other than `skip` are not supported)."""
    st = ex.st
    extra = [k for k in kwargs if k != "**" and k not in skip]
    if extra:
        raise Unsupported(f"third-party call with explicit keywords {extra}")
    if "**" in kwargs:
        return KW.embed(st, kwargs["**"])
    return KW.embed(st, st.alloc(DictObj.empty(st, TStr, TVal)))


def _tp_call(ex, algo, dim, n, seed, opts):
    st = ex.st
    st.ghost_set("c14_tp_calls", st.ghost_get("c14_tp_calls", z3.IntSort()) + 1)
    for g, t in (("c14_tp_algo", algo), ("c14_tp_dim", dim), ("c14_tp_n", n), ("c14_tp_seed", seed), ("c14_tp_opts", opts)):
        st.ghost_set(g, t)
    ex.assumed.add("third-party samplers (OpenTURNS / SciPy / pyDOE): the returned array is the deterministic uninterpreted function c14_third_party_samples of "
                   "(algorithm name, dimension, number of samples, seed, options); the call is recorded in the ghost variables c14_tp_*")
    return F2T.project(st, tp_samples(algo, dim, n, seed, opts))


def hstack_axioms(lens, n):
    """Definition of the offsets of hstack (prefix sums of the block lengths `lens[0..n)`) and the two consequences used by the
    proofs (monotone offsets; every position of the result lies in exactly one block) - the consequences are proved by induction
    from the definition in contracts/c14_doe.py (HstackLemmas)."""
    k, a, b, i = z3.Int("k!hs"), z3.Int("a!hs"), z3.Int("b!hs"), z3.Int("i!hs")
    off = lambda t: hs_off(lens, t)  # noqa: E731
    blk = lambda t: hs_blk(lens, t)  # noqa: E731
    return [
        ("hstack-offset-zero", off(0) == 0),
        ("hstack-offset-step", z3.ForAll([k], z3.Implies(z3.And(0 <= k, k < n), off(k + 1) == off(k) + lens[k]), patterns=[off(k + 1)])),
        ("hstack-offsets-monotone", z3.ForAll([a, b], z3.Implies(z3.And(0 <= a, a <= b, b <= n), off(a) <= off(b)), patterns=[z3.MultiPattern(off(a), off(b))])),
        ("hstack-block-of-position", z3.ForAll([i], z3.Implies(z3.And(0 <= i, i < off(n)), z3.And(0 <= blk(i), blk(i) < n, off(blk(i)) <= i, i < off(blk(i) + 1))),
                                               patterns=[blk(i)])),
    ]


def _forall(vs, body, pattern):
    """ForAll with an explicit trigger when z3 accepts it (a select on a lambda term is not a valid trigger)."""
    try:
        return z3.ForAll(vs, body, patterns=[pattern])
    except z3.Z3Exception:
        return z3.ForAll(vs, body)


class KwObj(HeapObj):
    """A ``**kwargs`` dictionary with a known key set."""

    def __init__(self, vals: dict):
        self.vals = dict(vals)

    def clone(self):
        c = KwObj(self.vals)
        c.ty = self.ty
        return c


class TKw(T):
    def __init__(self, fields: dict):
        self.fields = dict(fields)
        self.name = "Kw[" + ",".join(f"{k}:{t!r}" for k, t in fields.items()) + "]"

    def sort(self):
        raise Unsupported(f"{self} cannot be stored in a symbolic container")

    def fresh(self, st, hint):
        o = KwObj({k: t.fresh(st, f"{hint}.{k}") for k, t in self.fields.items()})
        o.ty = self
        return st.alloc(o)


def _kw(ex, v):
    if isinstance(v, Ref):
        o = ex.st.heap.get(v.id)
        if isinstance(o, KwObj):
            return o
    return None


class C14Models:
    # ------------------------------------------------------------------ **kwargs with a known key set
    def expand_kwargs(self, ex, v):
        o = _kw(ex, v)
        return dict(o.vals) if o is not None else NotImplemented

    def call_method(self, ex, recv, name, args, kwargs, lineno):
        if isinstance(recv, AlgoV) and recv.stage == "instance":
            st = ex.st
            if recv.lib == "openturns" and name == "tp:generate_samples" and len(args) == 2:
                # gemseo's BaseOTDOE.generate_samples(n_samples, dimension, **settings) of the selected algorithm, drawing from the global
                # OpenTURNS random generator (seeded by RandomGenerator.SetSeed: ghost c14_ot_seed)
                return _tp_call(ex, recv.name, TInt.embed(st, args[1]), TVal.embed(st, args[0]), st.ghost_get("c14_ot_seed", z3.IntSort()), _opts_term(ex, kwargs))
            if recv.lib == "ot-stratified" and name == "tp:generate" and not args and not kwargs:
                return AlgoV(recv.lib, None, "sample", dim=recv.dim, opts=recv.opts)
            if recv.lib == "scipy" and name == "tp:random" and len(args) == 1 and not kwargs:
                return _tp_call(ex, recv.name, recv.dim, TVal.embed(st, args[0]), recv.seed, recv.opts)
            raise Unsupported(f"third-party method {name}")
        if _on(ex) and name == "remove" and len(args) == 1 and isinstance(recv, Ref) and isinstance(ex.st.heap.get(recv.id), ListObj):
            # list.remove(x): the first occurrence is removed (ValueError when absent)
            from .engine import PyRaise

            st = ex.st
            L = st.heap[recv.id]
            et = L.t.embed(st, args[0])
            i = z3.Int("i!rm")
            if not st.decide(z3.Exists([i], z3.And(0 <= i, i < L.n, L.elems[i] == et))):
                raise PyRaise("ValueError", lineno)
            r = st.fresh_int("rmidx")
            st.assume(z3.And(0 <= r, r < L.n, L.elems[r] == et))
            st.assume(z3.ForAll([i], z3.Implies(z3.And(0 <= i, i < r), L.elems[i] != et)))
            old = L.elems
            L.elems = z3.Lambda([i], z3.If(i < r, old[i], old[i + 1]))
            L.n = L.n - 1
            ex.writeback(L)
            return None
        o = _kw(ex, recv)
        if o is not None:
            if name == "get" and args and isinstance(args[0], str):
                return o.vals.get(args[0], args[1] if len(args) > 1 else kwargs.get("default"))
            raise Unsupported(f"kwargs.{name}")
        return NotImplemented

    def getitem(self, ex, cont, key, lineno):
        if isinstance(cont, TableV):
            # (the algorithm name was checked against ALGORITHM_INFOS at construction: BaseAlgorithmLibrary.__init__; the tables have the same keys)
            return AlgoV(cont.lib, TStr.embed(ex.st, key), "class")
        o = _kw(ex, cont)
        if o is not None:
            from .engine import PyRaise

            if isinstance(key, str):
                if key in o.vals:
                    return o.vals[key]
                raise PyRaise("KeyError", lineno)
            raise Unsupported("kwargs[<symbolic key>]")
        if not _on(ex):
            return NotImplemented
        st = ex.st
        if ex.no_fork and isinstance(cont, Ref) and isinstance(st.heap[cont.id], DictObj) and not st.heap[cont.id].is_empty_literal:
            # d[key] inside a comprehension element (no forking possible there): when the membership is not decided by the quantifier-free
            # facts, the obligation `comprehension-key-present` is generated instead (a KeyError inside the comprehension is then a failed obligation)
            o = st.heap[cont.id]
            kt = o.k.embed(st, key)
            m = z3.simplify(o.member[kt])
            if not z3.is_true(m) and st.solver.check(z3.Not(m)) != z3.unsat:
                ex.check(m, "safety", "comprehension-key-present", lineno, aux=True)
            return o.v.project(st, o.vals[kt], (cont, kt, "dict"))
        if _is_arr(ex, cont):
            A = _arr(ex, cont)
            # v[:, newaxis]: an n x 1 column
            if A.rank == 1 and isinstance(key, tuple) and len(key) == 2 and _np._is_full(key[0]) and isinstance(key[1], BuiltinV) and key[1].name == "numpy.newaxis":
                return _np.new(ex, A.kind, (A.shape[0], z3.IntVal(1)), _np.lam(2, lambda i, j: A.elems[i]))
            # a[..., mask] on a rank-2 array: the columns selected by the mask, in order
            comps = _np._strip_ellipsis(key, A.rank)
            if A.rank == 2 and len(comps) == 2 and _np._is_full(comps[0]) and _is_arr(ex, comps[1]) and _arr(ex, comps[1]).kind == "b":
                from .engine import PyRaise

                M = _arr(ex, comps[1])
                if M.rank != 1 or not _np.same(ex, M.shape[0], A.shape[1], lineno):
                    raise PyRaise("IndexError", lineno)
                m, idx = _np._nonzero(ex, M)
                return _np.new(ex, A.kind, (A.shape[0], m), _np.lam(2, lambda r, j: A.at(r, idx[j])))
        return NotImplemented

    def contains(self, ex, cont, item, lineno):
        o = _kw(ex, cont)
        if o is not None and isinstance(item, str):
            return item in o.vals
        return NotImplemented

    # ------------------------------------------------------------------ third-party samplers
    def class_constant(self, ex, ci, name):
        if _on(ex) and name in TABLES:
            return TableV(TABLES[name])
        if _on(ex) and name == "_SciPyDOE__SCIPY_OPTION_NAMES":
            # the class-level list of option names (a list literal of strings)
            _, expr = __import__("pyvc.source", fromlist=["x"]).find_class_attr(ci.qualname, name)
            return ex.models.make_list(ex, [e.value for e in expr.elts])
        return NotImplemented

    def builtin_constant(self, ex, name):
        # default value `DesignVariableType.FLOAT` of DesignSpace.add_variable (a class-body name: DesignVariableType = DataType, a StrEnum)
        if _on(ex) and name in ("DesignVariableType.FLOAT", "DesignVariableType.INTEGER"):
            return {"FLOAT": "float", "INTEGER": "integer"}[name.rsplit(".", 1)[1]]
        return NotImplemented

    def module_constant(self, ex, mi, name):
        if _on(ex) and name == "SCIPY_VERSION":
            return VersionV(None)
        return NotImplemented

    def pyobj_attr(self, ex, ref, o, attr, lineno):
        if _on(ex) and attr == "_ALGO_CLASS":
            # the OpenTURNS StratifiedExperiment class of a stratified DOE (class attribute set by the concrete subclasses)
            return AlgoV("ot-stratified", None, "class")
        return NotImplemented

    def value_attr(self, ex, obj, attr, lineno):
        if isinstance(obj, FinfoV) and attr == "eps":
            return 2.220446049250313e-16
        if isinstance(obj, AlgoV):
            return BoundMethod(obj, None, f"tp:{attr}")
        return NotImplemented

    def compare_any(self, ex, op, a, b, lineno):
        if isinstance(a, VersionV) and isinstance(b, VersionV) and (a.s is None) != (b.s is None):
            # parse_version(v) <op> SCIPY_VERSION: the uninterpreted predicate "the installed SciPy is at least v"
            v, inst_right = (a.s, True) if b.s is None else (b.s, False)
            al = scipy_at_least(str_lit(v))
            if not inst_right:
                op = {"Lt": "Gt", "LtE": "GtE", "Gt": "Lt", "GtE": "LtE"}.get(op, op)
            if op == "LtE":
                return SV(al, TBool)
            if op == "Gt":
                return SV(z3.Not(al), TBool)
            raise Unsupported(f"version comparison {op}")
        return NotImplemented

    def call_opaque(self, ex, fv, args, kwargs, lineno):
        st = ex.st
        if isinstance(fv, AlgoV) and fv.stage == "class":
            if fv.lib == "ot-stratified" and len(args) == 2 and not kwargs and all(_is_arr(ex, a) for a in args):
                return AlgoV(fv.lib, None, "instance", dim=_arr(ex, args[0]), opts=_arr(ex, args[1]))
            if fv.lib == "openturns" and not args and not kwargs:
                return AlgoV(fv.lib, fv.name, "instance")
            if fv.lib == "scipy" and len(args) == 1 and "seed" in kwargs:
                return AlgoV(fv.lib, fv.name, "instance", dim=TInt.embed(st, args[0]), seed=TInt.embed(st, kwargs["seed"]), opts=_opts_term(ex, kwargs, skip=("seed",)))
            if fv.lib == "pydoe" and len(args) == 1:
                # a pyDOE function f(n, **options): the number of samples / the random state are among the options
                return _tp_call(ex, fv.name, TInt.embed(st, args[0]), val_none, z3.IntVal(0), _opts_term(ex, kwargs))
            raise Unsupported(f"third-party constructor call of library {fv.lib}")
        return NotImplemented

    def binop(self, ex, op, a, b, lineno, inplace=False):
        if _on(ex) and op == "Pow" and isinstance(a, int) and not isinstance(a, bool) and a == 2 and isinstance(b, SV) and b.ty == TInt:
            # 2 ** d for an int d >= 0: the uninterpreted pow2 with pow2(d) >= 1 (a negative exponent would give a float: not modelled)
            if not ex.st.decide(b.term >= 0):
                raise Unsupported("2 ** d with a negative exponent")
            ex.st.assume(pow2(b.term) >= 1)
            ex.assumed.add("2 ** d for an int d >= 0: uninterpreted function pow2 with pow2(d) >= 1")
            return SV(pow2(b.term), TInt)
        return NotImplemented

    def truth(self, ex, v):
        if _on(ex) and isinstance(v, SV) and v.ty == TVal:
            # truth value of a validated setting: None is false, an int is true iff non-zero, anything else is opaque
            from .values import val_of_int

            t = v.term
            return z3.If(t == val_none, z3.BoolVal(False), z3.If(t == val_of_int(int_of_val(t)), int_of_val(t) != 0, val_truth(t)))
        return NotImplemented

    def coerce(self, ex, v, t):
        if getattr(ex.contract, "c14_design_space_schema", None) and not isinstance(v, bool):
            # literal arguments of a callee under contract (add_variable("x", size=d, ...)): embedded as terms of the declared type
            if t == TStr and isinstance(v, str):
                return SV(str_lit(v), TStr)
            if t == TInt and isinstance(v, int):
                return SV(z3.IntVal(v), TInt)
        if _on(ex) and isinstance(t, TOpt) and t.inner == TInt and isinstance(v, SV) and v.ty == TVal:
            # a validated setting (opaque value) used as Optional[int]: None, or the int it holds
            return SV(z3.If(v.term == val_none, t.dt.none, t.dt.some(int_of_val(v.term))), t)
        return NotImplemented

    # ------------------------------------------------------------------ attributes
    def set_attr(self, ex, obj, attr, v, lineno):
        if _on(ex) and attr == "dtype" and _is_arr(ex, obj):
            # samples.dtype = dtype(samples.dtype, metadata=...): same element type, metadata only
            ex.assumed.add("numpy: assigning a dtype that differs only by its metadata leaves the array elements unchanged")
            return True
        return NotImplemented

    def call_repo_model(self, ex, fi, args, kwargs, lineno):
        if fi.qualname.endswith("BaseDOELibrary.__get_design_space") or fi.qualname.endswith("BaseDOELibrary._BaseDOELibrary__get_design_space"):
            # functools.singledispatchmethod: dispatch on the class of the first argument (DesignSpace -> the argument itself)
            x = args[1] if len(args) > 1 else kwargs.get("design_space")
            if isinstance(x, Ref) and isinstance(ex.st.heap[x.id], PyObj):
                from . import source as S

                if S.is_subclass(ex.st.heap[x.id].cls, "gemseo.algos.design_space.DesignSpace"):
                    return x
            if ex.num(x) is not None and ex.num(x)[1] == TInt and not isinstance(x, bool):
                # the overload registered for `int`: its real body (the method named `_` whose parameter is annotated `int`) is inlined
                from . import source as S

                ci = S.load_class(fi.cls.qualname)
                for node in ci.methods.get("_", []):
                    a = node.args.args
                    if len(a) == 2 and a[1].annotation is not None and ast.unparse(a[1].annotation) == "int":
                        return ex.inline(S.FunctionInfo(f"{ci.qualname}._", ci.module, ci, node, "method"), list(args), dict(kwargs), lineno)
            raise Unsupported("BaseDOELibrary.__get_design_space: no overload for this argument")
        return NotImplemented

    def construct(self, ex, cv, args, kwargs, lineno):
        if _on(ex) and cv.qualname == "gemseo.algos.design_space.DesignSpace" and getattr(ex.contract, "c14_design_space_schema", None):
            # DesignSpace() inside a C14 contract: ASSUMED constructor model (DesignSpace.__init__ is not under contract in C02): a new object typed
            # by the C14 schema of the design space that is the empty design space - no variable, policy, index range or current value, dimension 0,
            # integer normalisation disabled (class-level default), no normalisation data
            from .values import TObj

            if args or kwargs:
                raise Unsupported("DesignSpace(name) with arguments")
            st = ex.st
            ref = TObj(cv.qualname, schema_key=ex.contract.c14_design_space_schema).fresh(st, "new_design_space")
            f = st.heap[ref.id].fields
            for d in ("_variables", "normalize", "_DesignSpace__names_to_indices", "_DesignSpace__current_value", "_DesignSpace__norm_current_value"):
                st.assume(st.heap[f[d].id].n == 0)
            st.assume(z3.And(f["dimension"].term == 0, z3.Not(f["_DesignSpace__normalize_integer_variables"].term), z3.Not(f["_DesignSpace__norm_data_is_computed"].term),
                             z3.Not(f["_DesignSpace__has_current_value"].term)))
            ex.assumed.add("DesignSpace(): the empty design space (dimension 0, no variable / policy / index range / current value, integer normalisation disabled) - "
                           "constructor not under contract")
            return ref
        return NotImplemented

    # ------------------------------------------------------------------ builtins / numpy functions
    def call_builtin(self, ex, name, args, kwargs, lineno, node=None):
        if not _on(ex):
            return NotImplemented
        from .engine import PyRaise
        from .models import DictView

        st = ex.st
        if name == "numpy.finfo" and len(args) == 1 and isinstance(args[0], BuiltinV) and args[0].name in ("numpy.float64", "float"):
            return FinfoV()
        if name == "openturns.RandomGenerator.SetSeed" and len(args) == 1 and not kwargs:
            st.ghost_set("c14_ot_seed", TInt.embed(st, args[0]))
            return None
        if name in ("numpy.random.RandomState", "numpy.random.mtrand.RandomState") and len(args) == 1 and not kwargs:
            ex.assumed.add("numpy.random.RandomState(seed): a deterministic uninterpreted function c14_random_state of the seed")
            return SV(random_state(TInt.embed(st, args[0])), TVal)
        if name == "packaging.version.parse" and len(args) == 1 and isinstance(args[0], str):
            return VersionV(args[0])
        if name == "int" and len(args) == 1 and not kwargs and isinstance(args[0], SV) and args[0].ty == TReal:
            # int(x) of a float: truncation toward zero.  For a quotient num / den the bounds are also stated multiplied by a positive
            # denominator (consequences of the same definition, in a form linear in the products den * r)
            q = args[0].term
            r = st.fresh_int("trunc")
            st.assume(z3.If(q >= 0, z3.And(z3.ToReal(r) <= q, q < z3.ToReal(r) + 1), z3.And(z3.ToReal(r) - 1 < q, q <= z3.ToReal(r))))
            if z3.is_app(q) and q.decl().kind() == z3.Z3_OP_DIV:
                num, den = q.arg(0), q.arg(1)
                st.assume(z3.Implies(z3.And(den > 0, num >= 0), z3.And(den * z3.ToReal(r) <= num, num < den * z3.ToReal(r) + den, r >= 0)))
            return SV(r, TInt)
        if name == "list" and len(args) == 1 and isinstance(args[0], DictView) and args[0].kind == "values":
            o = st.heap[args[0].ref.id]
            if o.is_empty_literal:
                return NotImplemented
            o.ensure_order(st)
            i = z3.Int("i!lv")
            # (an array constant defined point-wise on [0, n) rather than a lambda term: E-matching friendly)
            els = st.fresh_const("dvals", z3.ArraySort(z3.IntSort(), o.v.sort()))
            st.assume(z3.ForAll([i], z3.Implies(z3.And(0 <= i, i < o.n), els[i] == o.vals[o.keys[i]]), patterns=[els[i], o.keys[i]]))
            lo = ListObj(o.v, o.n, els)
            return st.alloc(lo)
        if name == "str" and len(args) == 1 and ex.num(args[0]) is not None and ex.num(args[0])[1] == TInt and not isinstance(args[0], bool):
            ex.assumed.add("str(int): deterministic, injective uninterpreted function str_of_int")
            i = z3.Int("i!si")
            j = z3.Int("j!si")
            st.assume(z3.ForAll([i, j], z3.Implies(str_of_int(i) == str_of_int(j), i == j), patterns=[z3.MultiPattern(str_of_int(i), str_of_int(j))]))
            return SV(str_of_int(ex.num(args[0])[0]), TStr)
        if name == "set" and len(args) == 1 and _is_arr(ex, args[0]) and _arr(ex, args[0]).kind == "i" and _arr(ex, args[0]).rank == 1:
            A = _arr(ex, args[0])
            k, j = z3.Int("k!sa"), z3.Int("j!sa")
            n = st.fresh_int("setn")
            o = SetObj(TInt, z3.Lambda([k], z3.Exists([j], z3.And(0 <= j, j < A.shape[0], A.elems[j] == k))), n)
            # the size of the set: at most the length; empty iff the array is empty (all that is needed here)
            st.assume(z3.And(n >= 0, n <= A.shape[0], (n == 0) == (A.shape[0] == 0)))
            return st.alloc(o)
        if name == "numpy.dtype" and len(args) == 1 and set(kwargs) <= {"metadata"} and isinstance(args[0], SV) and args[0].ty.name == "Rec[dtype]":
            return args[0]  # dtype(d, metadata=...): the same element type (metadata are not modelled)
        if name == "numpy.where" and len(args) == 1 and not kwargs and _is_arr(ex, args[0]) and _arr(ex, args[0]).rank == 1:
            M = _arr(ex, args[0])
            m, idx = _np._nonzero(ex, M)
            # consequences of the enumeration axioms (count = 0 iff no true position), stated so that provers need not guess instances
            i = z3.Int("i!wh")
            truth = lambda t: _conv(M.elems[t], M.kind, "b")  # noqa: E731
            st.assume(z3.Implies(m == 0, z3.ForAll([i], z3.Implies(z3.And(0 <= i, i < M.shape[0]), z3.Not(truth(i))))))
            st.assume(z3.Implies(m > 0, z3.And(0 <= idx[0], idx[0] < M.shape[0], truth(idx[0]))))
            return (_np.new(ex, "i", (m,), idx),)
        if name == "numpy.linspace" and len(args) == 3 and not kwargs and all(ex.num(a) is not None for a in args) and ex.num(args[2])[1] == TInt:
            (a, ka), (b, kb), (n, _) = (ex.num(x) for x in args)
            a = z3.ToReal(a) if ka == TInt else a
            b = z3.ToReal(b) if kb == TInt else b
            if not st.decide(n >= 0):
                raise PyRaise("ValueError", lineno)
            # numpy.linspace(a, b, n) (endpoint=True): a + (b - a) t(i, n) with t(i, n) = i / (n - 1) for n >= 2, [a] for n == 1
            for f in linspace_facts():
                st.assume(f)
            ex.assumed.add("numpy.linspace(a, b, n)[i] = a + (b - a) t(i, n), t(i, n) (n - 1) = i (function np_linspace_t; its bounds and end points are "
                           "proved from this definition in LinspaceLemmas)")
            return _np.new(ex, "f", (n,), _np.lam(1, lambda i: z3.If(n == 1, a, a + (b - a) * lin_t(i, n))))
        if name == "numpy.apply_along_axis" and len(args) == 1 and kwargs.get("axis") == 1 and _is_arr(ex, kwargs.get("arr")) and isinstance(args[0], BoundMethod) \
                and args[0].finfo is not None and args[0].finfo.qualname.endswith("DesignSpace.transform_vect") and isinstance(args[0].recv, Ref):
            return self._transform_rows(ex, args[0].recv, _arr(ex, kwargs["arr"]))
        if name == "numpy.array" and len(args) == 1 and not kwargs and isinstance(args[0], AlgoV) and args[0].stage == "sample":
            # array(StratifiedExperiment(center, levels).generate()): ASSUMED (OpenTURNS Axial / Factorial / Composite, checked natively): the centre plus
            # weight(d) points per level, one column per component; with centre 1/2 and levels in ]0, 1/2] every coordinate is in [0, 1]
            C0, Lv = args[0].dim, args[0].opts
            d, nl = C0.shape[0], Lv.shape[0]
            w = strat_weight(d)
            R = st.fresh_const("otsample", arr_sort("f", 2))
            r, i = z3.Int("r!ot"), z3.Int("i!ot")
            st.assume(w >= 1)
            centred = z3.ForAll([i], z3.Implies(z3.And(0 <= i, i < d), C0.elems[i] == z3.Q(1, 2)))
            small = z3.ForAll([i], z3.Implies(z3.And(0 <= i, i < nl), z3.And(0 < Lv.elems[i], Lv.elems[i] <= z3.Q(1, 2))))
            st.assume(z3.Implies(z3.And(centred, small), z3.ForAll([r, i], z3.Implies(z3.And(0 <= r, r < 1 + w * nl, 0 <= i, i < d),
                                                                                      z3.And(0 <= z3.Select(R, r, i), z3.Select(R, r, i) <= 1)), patterns=[z3.Select(R, r, i)])))
            ex.assumed.add("OpenTURNS StratifiedExperiment(centre, levels).generate(): 1 + weight(d) * len(levels) points of dimension d (weight: 2 d axial, 2^d factorial, "
                           "both composite); coordinates in [0, 1] for centre 1/2 and levels in ]0, 1/2]")
            return _np.new(ex, "f", (1 + w * nl, d), R)
        if name == "numpy.array" and len(args) == 1 and not kwargs and isinstance(args[0], Ref) and isinstance(st.heap[args[0].id], ListObj) \
                and isinstance(st.heap[args[0].id].t, TArr) and st.heap[args[0].id].t.rank == 1:
            # array(<list of vectors of a common length>): the matrix whose rows are the vectors (a ragged list raises ValueError)
            L = st.heap[args[0].id]
            ta = L.t
            k = z3.Int("k!av")
            if not st.decide(L.n >= 1):
                return _np.new(ex, ta.kind, (z3.IntVal(0),), st.fresh_const("emptyarr", arr_sort(ta.kind, 1)))
            cols = ta.dim(L.elems[0])
            if not st.decide(z3.ForAll([k], z3.Implies(z3.And(0 <= k, k < L.n), ta.dim(L.elems[k]) == cols))):
                raise PyRaise("ValueError", lineno)
            R = st.fresh_const("rowsof", arr_sort(ta.kind, 2))
            r, i = z3.Int("r!av"), z3.Int("i!av")
            st.assume(z3.ForAll([r, i], z3.Implies(z3.And(0 <= r, r < L.n, 0 <= i, i < cols), z3.Select(R, r, i) == ta.els(L.elems[r])[i]), patterns=[z3.Select(R, r, i)]))
            return _np.new(ex, ta.kind, (L.n, cols), R)
        if name == "numpy.hstack" and len(args) == 1 and not kwargs and isinstance(args[0], Ref) and isinstance(st.heap[args[0].id], ListObj) \
                and isinstance(st.heap[args[0].id].t, TArr):
            L = st.heap[args[0].id]
            ta = L.t
            if ta.rank == 1:
                return self._hstack_vectors(ex, L, ta)
            return self._hstack_columns(ex, L, ta, lineno)
        return NotImplemented

    def _transform_rows(self, ex, ds, A):
        """apply_along_axis(design_space.transform_vect, axis=1, arr=A): row r of the result is transform_vect(row r of A), an uninterpreted
        function of the design-space state (flag, variables, policies) and the row; the call may refresh the cached normalisation data."""
        from . import contract as C
        from .values import type_of_value

        st = ex.st
        if A.rank != 2 or A.kind != "f":
            raise Unsupported("apply_along_axis on a non-matrix")
        o = st.heap[ds.id]
        sch = C.class_schema(getattr(o, "schema_key", None) or o.cls)
        vt, nt = type_of_value(st, o.fields["_variables"]), type_of_value(st, o.fields["normalize"])
        state = (o.fields["_DesignSpace__normalize_integer_variables"].term, vt.embed(st, o.fields["_variables"]), nt.embed(st, o.fields["normalize"]))
        for f in NUM_CACHE_FIELDS:
            if f in sch:
                o.fields[f] = sch[f].fresh(st, f"design_space.{f}")
        f1 = TArr("f", 1)
        tv = z3.Function("c14_transform_vect", z3.BoolSort(), vt.sort(), nt.sort(), f1.sort(), f1.sort())
        R = st.fresh_const("rowsel", arr_sort("f", 2))
        r, i = z3.Int("r!tr"), z3.Int("i!tr")
        row = lambda els, t: f1.dt.mk(A.shape[1], z3.Lambda([i], z3.Select(els, t, i)))  # noqa: E731
        st.assume(z3.ForAll([r], z3.Implies(z3.And(0 <= r, r < A.shape[0]), row(R, r) == tv(*state, row(A.elems, r)))))
        ex.assumed.add("numpy.apply_along_axis(design_space.transform_vect, 1, A): row r of the result is transform_vect(row r of A), a deterministic "
                       "length-preserving function (c14_transform_vect) of the design-space state and the row; only the cached normalisation data may change")
        return _np.new(ex, "f", A.shape, R)

    def _hstack_vectors(self, ex, L, ta):
        st = ex.st
        lens = st.fresh_const("hslens", z3.ArraySort(z3.IntSort(), z3.IntSort()))
        k, j, i = z3.Int("k!hv"), z3.Int("j!hv"), z3.Int("i!hv")
        body = z3.Implies(z3.And(0 <= k, k < L.n), z3.And(lens[k] == ta.dim(L.elems[k]), lens[k] >= 0))
        try:
            st.assume(z3.ForAll([k], body, patterns=[lens[k], L.elems[k]]))
        except z3.Z3Exception:
            st.assume(z3.ForAll([k], body, patterns=[lens[k]]))
        for label, f in hstack_axioms(lens, L.n):
            st.assume(f)
        ex.assumed.add("numpy.hstack of a list of vectors: blocks at the prefix sums of their lengths (offset function with its recursive definition; "
                       "monotonicity and block-of-position proved by induction in HstackLemmas)")
        R = st.fresh_const("hsel", arr_sort(ta.kind, 1))
        off = lambda t: hs_off(lens, t)  # noqa: E731
        blk = hs_blk(lens, i)
        # forward (block k, offset j -> position) and backward (position -> its block) reading of the same placement
        # (the position bounds in the conclusion follow from the offset definition and its monotonicity: HstackLemmas `position-in-range`)
        st.assume(_forall([k, j], z3.Implies(z3.And(0 <= k, k < L.n, 0 <= j, j < lens[k]),
                                             z3.And(R[off(k) + j] == ta.els(L.elems[k])[j], 0 <= off(k) + j, off(k) + j < off(L.n))),
                          z3.MultiPattern(lens[k], ta.els(L.elems[k])[j])))
        st.assume(z3.ForAll([i], z3.Implies(z3.And(0 <= i, i < off(L.n)), R[i] == ta.els(L.elems[blk])[i - off(blk)]), patterns=[R[i]]))
        st.assume(off(L.n) >= 0)
        res = _np.new(ex, ta.kind, (off(L.n),), R)
        st.heap[res.id].hstack_of = (lens, L)
        return res

    def _hstack_columns(self, ex, L, ta, lineno):
        """hstack of n x 1 columns with a common number of rows."""
        from .engine import PyRaise

        st = ex.st
        k = z3.Int("k!hc")
        if not st.decide(L.n >= 1):
            raise PyRaise("ValueError", lineno)  # need at least one array to concatenate
        if not st.decide(z3.ForAll([k], z3.Implies(z3.And(0 <= k, k < L.n), ta.dim(L.elems[k], 1) == 1))):
            raise Unsupported("hstack of matrices with several columns")
        rows = ta.dim(L.elems[0], 0)
        if not st.decide(z3.ForAll([k], z3.Implies(z3.And(0 <= k, k < L.n), ta.dim(L.elems[k], 0) == rows))):
            raise PyRaise("ValueError", lineno)
        return _np.new(ex, ta.kind, (rows, L.n), _np.lam(2, lambda r, c: z3.Select(ta.els(L.elems[c]), r, z3.IntVal(0))))
