"""Models of Python builtins and container methods (trusted base, DESIGN.md §2.4).

Every operation that can fail in Python raises its Python exception on a separate path
(``PyRaise``); an exception the contract does not list is a failed obligation at function exit.
"""
from __future__ import annotations

import ast

import z3

from . import contract as C
from . import source as S
from .values import (UNBOUND, BoundMethod, BuiltinV, ClassV, DictObj, ExcObj, FuncV, FunV, ListObj, ModuleV, PyObj, RecV, Ref, SetObj, SV, T,
                     TAddr, TBool, TDict, TFun, TInt, TList, TObj, TOpt, TRange, TReal, TRec, TSet, TStr, TTuple, TVal, Unsupported, StrS,
                     is_concrete, str_lit, type_of_value)

str_nonempty_f = z3.Function("str_nonempty", StrS, z3.BoolSort())


class DictView:
    def __init__(self, ref: Ref, kind: str):
        self.ref, self.kind = ref, kind


class Models:
    def __init__(self):
        self.plugins = []  # objects offering the same hooks (e.g. the numpy model); first non-NotImplemented wins

    def _plug(self, hook, *a):
        for p in self.plugins:
            f = getattr(p, hook, None)
            if f is not None:
                r = f(*a)
                if r is not NotImplemented:
                    return r
        return NotImplemented

    def str_nonempty(self, term):
        return str_nonempty_f(term)

    # ------------------------------------------------------------------ construction of literals
    def make_list(self, ex, items):
        st = ex.st
        if not items:
            o = ListObj(TVal, z3.IntVal(0), st.fresh_const("el", z3.ArraySort(z3.IntSort(), TVal.sort())))
            o.is_empty_literal = True
            return st.alloc(o)
        try:
            t = _join_types(ex, [type_of_value(st, x) for x in items])
            arr = st.fresh_const("el", z3.ArraySort(z3.IntSort(), t.sort()))
            for i, x in enumerate(items):
                arr = z3.Store(arr, i, t.embed(st, x))
            o = ListObj(t, z3.IntVal(len(items)), arr)
            return st.alloc(o)
        except Unsupported:
            return tuple(items)  # heterogeneous / non-embeddable: concrete sequence (immutable view)

    def make_dict(self, ex, keys, vals):
        st = ex.st
        if not keys:
            o = DictObj.empty(st, TStr, TVal)
            o.is_empty_literal = True
            return st.alloc(o)
        r = self._plug("make_dict", ex, keys, vals)  # heterogeneous / unpacking literals a plugin knows how to type (a key None stands for `**value`)
        if r is not NotImplemented:
            return r
        if any(k is None for k in keys):
            raise Unsupported("dict unpacking in literal")
        kt = _join_types(ex, [type_of_value(st, k) for k in keys])
        vt = _join_types(ex, [type_of_value(st, v) for v in vals])
        o = DictObj.empty(st, kt, vt, ordered=True)
        for k, v in zip(keys, vals):
            o.set(st, kt.embed(st, k), vt.embed(st, v))
        return st.alloc(o)

    def make_set(self, ex, items):
        st = ex.st
        if not items:
            o = SetObj(TStr, z3.K(TStr.sort(), z3.BoolVal(False)), z3.IntVal(0))
            o.is_empty_literal = True
            return st.alloc(o)
        kt = _join_types(ex, [type_of_value(st, k) for k in items])
        o = SetObj(kt, z3.K(kt.sort(), z3.BoolVal(False)), z3.IntVal(0))
        for x in items:
            _set_add(o, kt.embed(st, x))
        return st.alloc(o)

    # ------------------------------------------------------------------ subscripts
    def _retype_empty(self, ex, o, k=None, v=None):
        st = ex.st
        if isinstance(o, DictObj) and o.is_empty_literal:
            kt, vt = type_of_value(st, k), type_of_value(st, v)
            n = DictObj.empty(st, kt, vt, ordered=True)
            o.k, o.v, o.member, o.vals, o.n, o.keys, o.pos = kt, vt, n.member, n.vals, n.n, n.keys, n.pos
            o.is_empty_literal = False
        elif isinstance(o, SetObj) and o.is_empty_literal:
            kt = type_of_value(st, k)
            o.k, o.member = kt, z3.K(kt.sort(), z3.BoolVal(False))
            o.is_empty_literal = False
        elif isinstance(o, ListObj) and o.is_empty_literal:
            t = type_of_value(st, v)
            o.t, o.elems = t, st.fresh_const("el", z3.ArraySort(z3.IntSort(), t.sort()))
            o.is_empty_literal = False

    def getitem(self, ex, cont, key, lineno):
        st = ex.st
        r = self._plug("getitem", ex, cont, key, lineno)
        if r is not NotImplemented:
            return r
        if isinstance(cont, tuple):
            if isinstance(key, int):
                if -len(cont) <= key < len(cont):
                    return cont[key]
                raise PyRaise_("IndexError", lineno)
            if isinstance(key, tuple) and key and key[0] == "slice":
                lo, hi = key[1], key[2]
                if all(x is None or isinstance(x, int) for x in (lo, hi)) and key[3] is None:
                    return cont[slice(lo, hi)]
            if isinstance(key, SV) and key.ty == TInt:
                if not st.decide(z3.And(key.term >= -len(cont), key.term < len(cont))):
                    raise PyRaise_("IndexError", lineno)
                from .engine import _tuple_elem

                idx = z3.If(key.term < 0, key.term + len(cont), key.term)
                return _tuple_elem(ex, cont, idx)
        if isinstance(cont, Ref):
            o = st.heap[cont.id]
            if isinstance(o, DictObj):
                if o.is_empty_literal:
                    raise PyRaise_("KeyError", lineno)
                kt = o.k.embed(st, key)
                if not st.decide(o.member[kt]):
                    raise PyRaise_("KeyError", lineno)
                return o.v.project(st, o.vals[kt], (cont, kt, "dict"))
            if isinstance(o, ListObj):
                n = ex.num(key)
                if n is not None and n[1] == TInt:
                    i = n[0]
                    if not st.decide(z3.And(i >= -o.n, i < o.n)):
                        raise PyRaise_("IndexError", lineno)
                    idx = z3.simplify(z3.If(i < 0, i + o.n, i))
                    return o.t.project(st, o.elems[idx], (cont, idx, "list"))
                if isinstance(key, tuple) and key and key[0] == "slice":
                    return self._list_slice(ex, o, key)
            if isinstance(o, PyObj):
                m = S.find_method(o.cls, "__getitem__")
                if m is not None:
                    return ex.call_repo(m, [cont, key], {}, lineno)
        if isinstance(cont, ClassV):
            return cont  # generic alias Foo[int]
        if isinstance(cont, str) and isinstance(key, tuple) and key and key[0] == "slice" and all(x is None or isinstance(x, int) for x in key[1:]):
            return cont[slice(key[1], key[2], key[3])]
        if isinstance(cont, str) and isinstance(key, int) and -len(cont) <= key < len(cont):
            return cont[key]
        if isinstance(cont, SV) and cont.ty == TStr:
            # slicing/indexing of a (message) string: opaque string (DESIGN §2.2)
            return SV(st.fresh_const("strsub", TStr.sort()), TStr)
        raise Unsupported(f"subscript load on {cont!r}[{key!r}]")

    def _list_slice(self, ex, o, key):
        st = ex.st
        _, lo, hi, step = key
        if step is not None:
            raise Unsupported("list slice with step")
        lo_t = z3.IntVal(0) if lo is None else ex.num(lo)[0]
        hi_t = o.n if hi is None else ex.num(hi)[0]
        lo_t = z3.If(lo_t < 0, z3.If(lo_t + o.n < 0, 0, lo_t + o.n), z3.If(lo_t > o.n, o.n, lo_t))
        hi_t = z3.If(hi_t < 0, z3.If(hi_t + o.n < 0, 0, hi_t + o.n), z3.If(hi_t > o.n, o.n, hi_t))
        n = z3.If(hi_t > lo_t, hi_t - lo_t, 0)
        i = z3.Int("i!sl")
        new = ListObj(o.t, z3.simplify(n), z3.Lambda([i], o.elems[i + lo_t]))
        return st.alloc(new)

    def setitem(self, ex, cont, key, v, lineno):
        st = ex.st
        r = self._plug("setitem", ex, cont, key, v, lineno)
        if r is not NotImplemented:
            return
        if isinstance(cont, Ref):
            o = st.heap[cont.id]
            if isinstance(o, DictObj):
                self._retype_empty(ex, o, key, v)
                o.set(st, o.k.embed(st, key), o.v.embed(st, v))
                ex.writeback(o)
                return
            if isinstance(o, ListObj):
                n = ex.num(key)
                if n is not None:
                    i = n[0]
                    if not st.decide(z3.And(i >= -o.n, i < o.n)):
                        raise PyRaise_("IndexError", lineno)
                    idx = z3.If(i < 0, i + o.n, i)
                    o.elems = z3.Store(o.elems, idx, o.t.embed(st, v))
                    ex.writeback(o)
                    return
            if isinstance(o, PyObj):
                m = S.find_method(o.cls, "__setitem__")
                if m is not None:
                    ex.call_repo(m, [cont, key, v], {}, lineno)
                    return
        raise Unsupported(f"subscript store on {cont!r}")

    def delitem(self, ex, cont, key, lineno):
        st = ex.st
        r = self._plug("delitem", ex, cont, key, lineno)  # opt-in plugin objects (plug_c05more: the abstract HDF5 cache file)
        if r is not NotImplemented:
            return
        if isinstance(cont, Ref):
            o = st.heap[cont.id]
            if isinstance(o, DictObj):
                if o.is_empty_literal:
                    raise PyRaise_("KeyError", lineno)
                kt = o.k.embed(st, key)
                if not st.decide(o.member[kt]):
                    raise PyRaise_("KeyError", lineno)
                o.delete(st, kt)
                ex.writeback(o)
                return
            if isinstance(o, PyObj):
                m = S.find_method(o.cls, "__delitem__")
                if m is not None:
                    ex.call_repo(m, [cont, key], {}, lineno)
                    return
        raise Unsupported(f"del on {cont!r}")

    def contains(self, ex, cont, item, lineno):
        st = ex.st
        r = self._plug("contains", ex, cont, item, lineno)
        if r is not NotImplemented:
            return r
        if isinstance(cont, tuple):
            if is_concrete(item) and all(is_concrete(x) for x in cont):
                return item in cont
            out = None
            for x in cont:
                e = ex.truth_term(ex.equals(item, x, lineno))
                out = e if out is None else z3.Or(out, e)
            return SV(out, TBool) if out is not None else False
        if isinstance(cont, DictView):
            if cont.kind == "keys":
                return self.contains(ex, cont.ref, item, lineno)
            raise Unsupported("membership in values()/items() view")
        if isinstance(cont, Ref):
            o = st.heap[cont.id]
            if isinstance(o, (DictObj, SetObj)):
                if o.is_empty_literal:
                    return False
                try:
                    kt = o.k.embed(st, item)
                except Unsupported:
                    return False
                return SV(o.member[kt], TBool)
            if isinstance(o, ListObj):
                if o.is_empty_literal:
                    return False
                i = z3.Int("i!in")
                et = o.t.embed(st, item)
                return SV(z3.Exists([i], z3.And(0 <= i, i < o.n, o.elems[i] == et)), TBool)
            if isinstance(o, PyObj):
                m = S.find_method(o.cls, "__contains__")
                if m is not None:
                    return ex.call_repo(m, [cont, item], {}, lineno)
        raise Unsupported(f"membership test in {cont!r}")

    # ------------------------------------------------------------------ operators on non-scalars
    def unary(self, ex, op, v, lineno):
        r = self._plug("unary", ex, op, v, lineno)
        if r is not NotImplemented:
            return r
        raise Unsupported(f"unary {op} on {v!r}")

    def binop(self, ex, op, a, b, lineno, inplace=False):
        st = ex.st
        r = self._plug("binop", ex, op, a, b, lineno, inplace)
        if r is not NotImplemented:
            return r
        oa = st.heap[a.id] if isinstance(a, Ref) else None
        ob = st.heap[b.id] if isinstance(b, Ref) else None
        if isinstance(oa, SetObj) and (isinstance(ob, SetObj) or isinstance(b, DictView)):
            if isinstance(b, DictView):
                ob = st.heap[b.ref.id]
            name = {"Sub": "difference", "BitOr": "union", "BitAnd": "intersection"}.get(op)
            if name:
                return self._set_binary(ex, oa, ob.member, name)
        if isinstance(a, DictView) and a.kind == "keys":
            oa = st.heap[a.ref.id]
            mb = self._member_of(ex, b)
            name = {"Sub": "difference", "BitOr": "union", "BitAnd": "intersection"}.get(op)
            if name and mb is not None:
                return self._set_binary(ex, oa, mb, name)
        if isinstance(oa, ListObj) and isinstance(ob, ListObj) and op == "Add":
            if oa.is_empty_literal:
                return st.alloc(ob.clone())
            if ob.is_empty_literal:
                return st.alloc(oa.clone())
            i = z3.Int("i!cat")
            return st.alloc(ListObj(oa.t, oa.n + ob.n, z3.Lambda([i], z3.If(i < oa.n, oa.elems[i], ob.elems[i - oa.n]))))
        if op == "Add" and (isinstance(a, SV) and a.ty == TStr or isinstance(a, str)) and (isinstance(b, SV) and b.ty == TStr or isinstance(b, str)):
            return SV(str_concat(TStr.embed(st, a), TStr.embed(st, b)), TStr)
        raise Unsupported(f"binary {op} on {a!r}, {b!r}")

    def _member_of(self, ex, v):
        st = ex.st
        if isinstance(v, DictView):
            return st.heap[v.ref.id].member if v.kind == "keys" else None
        if isinstance(v, Ref):
            o = st.heap[v.id]
            if isinstance(o, (SetObj, DictObj)):
                return o.member
            if isinstance(o, ListObj):
                if o.is_empty_literal:
                    return None
                i = z3.Int("i!mo")
                k = z3.Const("k!mo", o.t.sort())
                return z3.Lambda([k], z3.Exists([i], z3.And(0 <= i, i < o.n, o.elems[i] == k)))
        return None

    def _set_binary(self, ex, a, mb, name):
        st = ex.st
        k = z3.Const("k!sb", a.k.sort())
        if name == "difference":
            mem = z3.Lambda([k], z3.And(a.member[k], z3.Not(mb[k])))
        elif name == "union":
            mem = z3.Lambda([k], z3.Or(a.member[k], mb[k]))
        else:
            mem = z3.Lambda([k], z3.And(a.member[k], mb[k]))
        n = st.fresh_const("setn", z3.IntSort())
        o = SetObj(a.k, mem, n)
        for f in o.wf_facts(st):
            st.assume(f)
        if name == "difference":
            st.assume(n <= a.n)
        return st.alloc(o)

    def compare(self, ex, op, a, b, lineno):
        st = ex.st
        r = self._plug("compare", ex, op, a, b, lineno)
        if r is not NotImplemented:
            return r
        ma, mb = self._member_of(ex, a), self._member_of(ex, b)
        if ma is not None and mb is not None and op in ("LtE", "GtE", "Lt", "Gt"):
            ks = st.heap[(a.ref if isinstance(a, DictView) else a).id].k.sort()
            k = z3.Const("k!cmp", ks)
            sub = z3.ForAll([k], z3.Implies(ma[k], mb[k]))
            sup = z3.ForAll([k], z3.Implies(mb[k], ma[k]))
            if op == "LtE":
                return SV(sub, TBool)
            if op == "GtE":
                return SV(sup, TBool)
            if op == "Lt":
                return SV(z3.And(sub, z3.Not(sup)), TBool)
            return SV(z3.And(sup, z3.Not(sub)), TBool)
        raise Unsupported(f"comparison {op} on {a!r}, {b!r}")

    def equals(self, ex, a, b, lineno):
        st = ex.st
        r = self._plug("equals", ex, a, b, lineno)
        if r is not NotImplemented:
            return r
        if isinstance(a, DictView) and isinstance(b, DictView) and a.kind == b.kind == "keys":
            oa, ob = st.heap[a.ref.id], st.heap[b.ref.id]
            if oa.is_empty_literal or ob.is_empty_literal:
                o = ob if oa.is_empty_literal else oa
                return SV(o.n == 0, TBool) if not o.is_empty_literal else True
            k = z3.Const("k!eq", oa.k.sort())
            return SV(z3.ForAll([k], oa.member[k] == ob.member[k]), TBool)
        if isinstance(a, Ref) and isinstance(b, Ref):
            oa, ob = st.heap[a.id], st.heap[b.id]
            if isinstance(oa, SetObj) and isinstance(ob, SetObj):
                k = z3.Const("k!eq", oa.k.sort())
                return SV(z3.ForAll([k], oa.member[k] == ob.member[k]), TBool)
            if isinstance(oa, DictObj) and isinstance(ob, DictObj):
                if oa.is_empty_literal or ob.is_empty_literal:
                    o = ob if oa.is_empty_literal else oa
                    return SV(o.n == 0, TBool) if not o.is_empty_literal else True
                if oa.v.sort() == ob.v.sort() and oa.k.sort() == ob.k.sort():
                    k = z3.Const("k!eq", oa.k.sort())
                    return SV(z3.ForAll([k], z3.And(oa.member[k] == ob.member[k], z3.Implies(oa.member[k], oa.vals[k] == ob.vals[k]))), TBool)
            if isinstance(oa, ListObj) and isinstance(ob, ListObj):
                if oa.is_empty_literal or ob.is_empty_literal:
                    o = ob if oa.is_empty_literal else oa
                    return SV(o.n == 0, TBool) if not o.is_empty_literal else True
                i = z3.Int("i!eq")
                return SV(z3.And(oa.n == ob.n, z3.ForAll([i], z3.Implies(z3.And(0 <= i, i < oa.n), oa.elems[i] == ob.elems[i]))), TBool)
            if isinstance(oa, PyObj):
                m = S.find_method(oa.cls, "__eq__")
                if m is not None:
                    return ex.call_repo(m, [a, b], {}, lineno)
                return a.id == b.id
        if isinstance(a, tuple) and isinstance(b, tuple):
            if len(a) != len(b):
                return False
            out = z3.BoolVal(True)
            for x, y in zip(a, b):
                out = z3.And(out, ex.truth_term(ex.equals(x, y, lineno)))
            return SV(z3.simplify(out), TBool)
        if isinstance(a, ClassV) and isinstance(b, ClassV):
            return a.qualname == b.qualname
        # values of different kinds are never equal
        if (isinstance(a, str) or (isinstance(a, SV) and a.ty == TStr)) != (isinstance(b, str) or (isinstance(b, SV) and b.ty == TStr)):
            return False
        raise Unsupported(f"equality of {a!r} and {b!r}")

    # ------------------------------------------------------------------ misc hooks
    def truth(self, ex, v):
        r = self._plug("truth", ex, v)
        if r is not NotImplemented:
            return r
        if isinstance(v, DictView):
            return ex.st.heap[v.ref.id].n != 0
        raise Unsupported(f"truth value of {v!r}")

    def pyobj_truth(self, ex, ref, o):
        return self._plug("pyobj_truth", ex, ref, o)

    def pyobj_attr(self, ex, ref, o, attr, lineno):
        r = self._plug("pyobj_attr", ex, ref, o, attr, lineno)
        if r is not NotImplemented:
            return r
        if attr == "__class__":
            return ClassV(o.cls)
        if attr == "__dict__":
            return NotImplemented
        return NotImplemented

    def class_attr(self, ex, cv, attr):
        r = self._plug("class_attr", ex, cv, attr)
        if r is not NotImplemented:
            return r
        if attr == "__name__":
            return cv.qualname.rsplit(".", 1)[-1]
        return NotImplemented

    def class_constant(self, ex, ci, name):
        return self._plug("class_constant", ex, ci, name)

    def module_constant(self, ex, mi, name):
        r = self._plug("module_constant", ex, mi, name)
        if r is not NotImplemented:
            return r
        if name == "LOGGER":
            return BuiltinV("LOGGER")
        return NotImplemented

    def value_attr(self, ex, obj, attr, lineno):
        r = self._plug("value_attr", ex, obj, attr, lineno)
        if r is not NotImplemented:
            return r
        if isinstance(obj, (str,)) or (isinstance(obj, SV) and obj.ty == TStr):
            return BoundMethod(obj, None, attr)
        if isinstance(obj, DictView):
            return BoundMethod(obj, None, attr)
        if isinstance(obj, FunV):
            return BoundMethod(obj, None, attr)
        if isinstance(obj, tuple):
            return BoundMethod(obj, None, attr)
        raise Unsupported(f"attribute {attr} of {obj!r}")

    def to_iter(self, ex, v, lineno):
        st = ex.st
        from .engine import IterV

        r = self._plug("to_iter", ex, v, lineno)
        if r is not NotImplemented:
            return r
        if isinstance(v, DictView):
            o = st.heap[v.ref.id]
            if o.is_empty_literal:
                return IterV(z3.IntVal(0), lambda i: None, concrete=[])
            o.ensure_order(st)
            keys, vals, n = o.keys, o.vals, o.n
            ref = v.ref
            conc = [] if (z3.is_int_value(z3.simplify(n)) and z3.simplify(n).as_long() == 0) else None
            if v.kind == "keys":
                seq = IterV(n, lambda i: o.k.project(st, keys[i]), concrete=conc)
            elif v.kind == "values":
                seq = IterV(n, lambda i: o.v.project(st, vals[keys[i]], (ref, keys[i], "dict")), concrete=conc)
            else:
                seq = IterV(n, lambda i: (o.k.project(st, keys[i]), o.v.project(st, vals[keys[i]], (ref, keys[i], "dict"))), concrete=conc)
            seq.keys, seq.pos, seq.member = o.keys, o.pos, o.member
            return seq
        raise Unsupported(f"iteration over {v!r}")

    def enter_context(self, ex, v, node):
        r = self._plug("enter_context", ex, v, node)
        if r is not NotImplemented:
            return r
        if isinstance(v, BuiltinV) and v.name in ("lock", "nullcontext"):
            return None
        raise Unsupported(f"context manager {ast.unparse(node)}")

    def exit_context(self, ex, node, exc):
        self._plug("exit_context", ex, node, exc)

    def construct(self, ex, cv, args, kwargs, lineno):
        return self._plug("construct", ex, cv, args, kwargs, lineno)

    def record_setattr(self, ex, rec, attr, v):
        return self._plug("record_setattr", ex, rec, attr, v)

    def call_opaque(self, ex, fv, args, kwargs, lineno):
        return self._plug("call_opaque", ex, fv, args, kwargs, lineno)

    def builtin_constant(self, ex, name):
        r = self._plug("builtin_constant", ex, name)
        if r is not NotImplemented:
            return r
        if name == "sys.float_info.epsilon":
            return 2.220446049250313e-16
        return NotImplemented

    def call_repo_model(self, ex, fi, args, kwargs, lineno):
        return self._plug("call_repo_model", ex, fi, args, kwargs, lineno)

    def call_funv(self, ex, fv, args, kwargs, lineno):
        r = self._plug("call_funv", ex, fv, args, kwargs, lineno)
        if r is not NotImplemented:
            return r
        st = ex.st
        ty = fv.ty
        f = z3.Function(ty.fname, *[t.sort() for t in ty.args], ty.ret.sort())
        terms = [t.embed(st, a) for t, a in zip(ty.args, args)]
        if ty.logged:
            log = st.ghost.setdefault(f"calls:{ty.fname}", [])
            log.append(terms)
        ex.assumed.add(f"uninterpreted:{ty.fname}")
        return ty.ret.project(st, f(*terms))

    # ------------------------------------------------------------------ methods of builtin types
    def call_method(self, ex, recv, name, args, kwargs, lineno):
        st = ex.st
        r = self._plug("call_method", ex, recv, name, args, kwargs, lineno)
        if r is not NotImplemented:
            return r
        if isinstance(recv, Ref):
            o = st.heap[recv.id]
            if isinstance(o, DictObj):
                return self.dict_method(ex, recv, o, name, args, kwargs, lineno)
            if isinstance(o, SetObj):
                return self.set_method(ex, recv, o, name, args, kwargs, lineno)
            if isinstance(o, ListObj):
                return self.list_method(ex, recv, o, name, args, kwargs, lineno)
            if isinstance(o, PyObj) and name.startswith("super."):
                r = self._plug("super_method", ex, recv, o, name[6:], args, kwargs, lineno)
                if r is not NotImplemented:
                    return r
                if name == "super.__init__" and not args and not kwargs:
                    return None
                raise Unsupported(f"super().{name[6:]} on {o.cls} resolves outside the repository")
        if isinstance(recv, DictView):
            o = st.heap[recv.ref.id]
            if name == "isdisjoint" or name == "__and__":
                pass
        if isinstance(recv, BuiltinV) and recv.name == "LOGGER":
            return None
        if isinstance(recv, str) or (isinstance(recv, SV) and recv.ty == TStr):
            return self.str_method(ex, recv, name, args, kwargs, lineno)
        raise Unsupported(f"method {name} on {recv!r}")

    def str_method(self, ex, recv, name, args, kwargs, lineno):
        if is_concrete(recv) and all(is_concrete(a) for a in args):
            return getattr(recv, name)(*args)
        raise Unsupported(f"str.{name} on symbolic string")

    def dict_method(self, ex, ref, o, name, args, kwargs, lineno):
        st = ex.st
        if name == "keys":
            return DictView(ref, "keys")
        if name == "values":
            return DictView(ref, "values")
        if name == "items":
            return DictView(ref, "items")
        if name == "get":
            default = args[1] if len(args) > 1 else kwargs.get("default")
            if o.is_empty_literal:
                return default
            kt = o.k.embed(st, args[0])
            if ex.no_fork and default is None:
                # inside a comprehension element: an optional value instead of a fork
                ot = o.v if isinstance(o.v, TOpt) else TOpt(o.v)
                if isinstance(o.v, TOpt):
                    return SV(z3.If(o.member[kt], o.vals[kt], ot.dt.none), ot)
                return SV(z3.If(o.member[kt], ot.dt.some(o.vals[kt]), ot.dt.none), ot)
            if st.decide(o.member[kt]):
                return o.v.project(st, o.vals[kt], (ref, kt, "dict"))
            return default
        if name == "pop":
            if o.is_empty_literal:
                if len(args) > 1:
                    return args[1]
                raise PyRaise_("KeyError", lineno)
            kt = o.k.embed(st, args[0])
            if st.decide(o.member[kt]):
                v = o.v.project(st, o.vals[kt])
                o.delete(st, kt)
                ex.writeback(o)
                return v
            if len(args) > 1:
                return args[1]
            raise PyRaise_("KeyError", lineno)
        if name == "setdefault":
            self._retype_empty(ex, o, args[0], args[1])
            kt = o.k.embed(st, args[0])
            if st.decide(o.member[kt]):
                return o.v.project(st, o.vals[kt], (ref, kt, "dict"))
            o.set(st, kt, o.v.embed(st, args[1]))
            ex.writeback(o)
            return args[1]
        if name == "clear":
            e = DictObj.empty(st, o.k, o.v, o.keys is not None)
            o.member, o.vals, o.n, o.keys, o.pos = e.member, e.vals, e.n, e.keys, e.pos
            ex.writeback(o)
            return None
        if name == "copy":
            c = o.clone()
            c.origin = None
            return st.alloc(c)
        if name == "update":
            if args:
                self._dict_update(ex, o, args[0], lineno)
            for k, v in kwargs.items():
                self._retype_empty(ex, o, k, v)
                o.set(st, o.k.embed(st, k), o.v.embed(st, v))
            ex.writeback(o)
            return None
        if name == "__contains__":
            return self.contains(ex, ref, args[0], lineno)
        raise Unsupported(f"dict.{name}")

    def _dict_update(self, ex, o, other, lineno):
        st = ex.st
        if isinstance(other, Ref):
            b = st.heap[other.id]
            if isinstance(b, DictObj):
                if b.is_empty_literal:
                    return
                if o.is_empty_literal:
                    o.k, o.v, o.member, o.vals, o.n, o.keys, o.pos = b.k, b.v, b.member, b.vals, b.n, b.keys, b.pos
                    o.is_empty_literal = False
                    return
                if o.k.sort() != b.k.sort() or o.v.sort() != b.v.sort():
                    raise Unsupported("dict.update with different types")
                if z3.is_int_value(z3.simplify(o.n)) and z3.simplify(o.n).as_long() == 0:
                    # update of an empty dict: a copy of the other one (same insertion order)
                    if o.keys is not None:
                        b.ensure_order(st)
                        o.keys, o.pos = b.keys, b.pos
                    o.member, o.vals, o.n = b.member, b.vals, b.n
                    return
                k = z3.Const("k!up", o.k.sort())
                oldm, oldv = o.member, o.vals
                o.member = z3.Lambda([k], z3.Or(oldm[k], b.member[k]))
                o.vals = z3.Lambda([k], z3.If(b.member[k], b.vals[k], oldv[k]))
                n = st.fresh_const("updn", z3.IntSort())
                st.assume(n >= o.n)
                st.assume(n >= b.n)
                st.assume(n <= o.n + b.n)
                o.n = n
                if o.keys is not None:
                    # order: old keys keep their positions, new keys are appended in b's order
                    b.ensure_order(st)
                    keys = st.fresh_const("updkeys", z3.ArraySort(z3.IntSort(), o.k.sort()))
                    pos = st.fresh_const("updpos", z3.ArraySort(o.k.sort(), z3.IntSort()))
                    oldkeys, oldn, oldpos = o.keys, z3.simplify(n - n) , o.pos
                    i = z3.Int("i!up")
                    st.assume(z3.ForAll([k], z3.Implies(oldm[k], pos[k] == oldpos[k])))
                    o.keys, o.pos = keys, pos
                    for f in o.order_facts():
                        st.assume(f)
                    k2 = z3.Const("k2!up", o.k.sort())
                    st.assume(z3.ForAll([k, k2], z3.Implies(z3.And(b.member[k], b.member[k2], z3.Not(oldm[k]), z3.Not(oldm[k2]), b.pos[k] < b.pos[k2]), pos[k] < pos[k2])))
                for f in o.wf_facts(st)[:3]:
                    st.assume(f)
                return
        raise Unsupported(f"dict.update({other!r})")

    def set_method(self, ex, ref, o, name, args, kwargs, lineno):
        st = ex.st
        if name == "add":
            self._retype_empty(ex, o, args[0])
            _set_add(o, o.k.embed(st, args[0]))
            ex.writeback(o)
            return None
        if name in ("discard", "remove"):
            if o.is_empty_literal:
                if name == "remove":
                    raise PyRaise_("KeyError", lineno)
                return None
            kt = o.k.embed(st, args[0])
            if name == "remove" and not st.decide(o.member[kt]):
                raise PyRaise_("KeyError", lineno)
            o.n = z3.If(o.member[kt], o.n - 1, o.n)
            o.member = z3.Store(o.member, kt, z3.BoolVal(False))
            ex.writeback(o)
            return None
        if name == "clear":
            o.member, o.n = z3.K(o.k.sort(), z3.BoolVal(False)), z3.IntVal(0)
            ex.writeback(o)
            return None
        if name == "copy":
            c = o.clone()
            c.origin = None
            return st.alloc(c)
        if name in ("difference", "union", "intersection"):
            res = o
            for a in args:
                mb = self._iter_member(ex, a, o.k)
                res = st.heap[self._set_binary(ex, res, mb, name).id]
            return st.alloc(res.clone()) if not args else self._ref_of(ex, res)
        if name in ("update", "difference_update", "intersection_update"):
            for a in args:
                mb = self._iter_member(ex, a, o.k)
                if o.is_empty_literal:
                    src = self._elem_type_of_iterable(ex, a)
                    o.k, o.member, o.is_empty_literal = src, z3.K(src.sort(), z3.BoolVal(False)), False
                    mb = self._iter_member(ex, a, o.k)
                new = st.heap[self._set_binary(ex, o, mb, {"update": "union", "difference_update": "difference", "intersection_update": "intersection"}[name]).id]
                if name == "update":
                    st.assume(new.n >= o.n)
                o.member, o.n = new.member, new.n
            ex.writeback(o)
            return None
        if name in ("issubset", "issuperset", "isdisjoint"):
            mb = self._iter_member(ex, args[0], o.k)
            k = z3.Const("k!ss", o.k.sort())
            if name == "issubset":
                return SV(z3.ForAll([k], z3.Implies(o.member[k], mb[k])), TBool)
            if name == "issuperset":
                return SV(z3.ForAll([k], z3.Implies(mb[k], o.member[k])), TBool)
            return SV(z3.ForAll([k], z3.Not(z3.And(mb[k], o.member[k]))), TBool)
        if name == "__contains__":
            return self.contains(ex, ref, args[0], lineno)
        raise Unsupported(f"set.{name}")

    def _ref_of(self, ex, o):
        return ex._ref_of(o)

    def _elem_type_of_iterable(self, ex, v):
        st = ex.st
        if getattr(v, "elem_type", None) is not None:
            return v.elem_type
        if isinstance(v, DictView):
            return st.heap[v.ref.id].k
        if isinstance(v, Ref):
            o = st.heap[v.id]
            if isinstance(o, (SetObj, DictObj)):
                return o.k
            if isinstance(o, ListObj):
                return o.t
        if isinstance(v, tuple) and v:
            return type_of_value(st, v[0])
        return TStr

    def _iter_member(self, ex, v, kt: T):
        """Membership array (over kt) of the elements of an iterable."""
        st = ex.st
        m = self._member_of(ex, v)
        if m is not None:
            return m
        if isinstance(v, tuple):
            arr = z3.K(kt.sort(), z3.BoolVal(False))
            for x in v:
                arr = z3.Store(arr, kt.embed(st, x), z3.BoolVal(True))
            return arr
        if isinstance(v, Ref):
            o = st.heap[v.id]
            if getattr(o, "is_empty_literal", False):
                return z3.K(kt.sort(), z3.BoolVal(False))
            if isinstance(o, PyObj):
                seq = ex.to_iter(v, 0)
                return self._iter_member(ex, seq, kt)
        from .engine import IterV

        if isinstance(v, IterV):
            if v.concrete is not None:
                return self._iter_member(ex, tuple(v.concrete), kt)
            i = z3.Int("i!im")
            k = z3.Const("k!im", kt.sort())
            bi = st.fresh_int("bi")
            e = kt.embed(st, v.elem(bi))
            body = z3.substitute(e, (bi, i))
            return z3.Lambda([k], z3.Exists([i], z3.And(0 <= i, i < v.n, body == k)))
        raise Unsupported(f"elements of {v!r} as a set")

    def list_method(self, ex, ref, o, name, args, kwargs, lineno):
        st = ex.st
        if name == "append":
            self._retype_empty(ex, o, v=args[0])
            o.elems = z3.Store(o.elems, o.n, o.t.embed(st, args[0]))
            o.n = o.n + 1
            ex.writeback(o)
            return None
        if name == "extend":
            other = args[0]
            seq = ex.to_iter(other, lineno)
            if seq.concrete is not None:
                for x in seq.concrete:
                    self.list_method(ex, ref, o, "append", [x], {}, lineno)
                return None
            if o.is_empty_literal:
                o.t = self._elem_type_of_iterable(ex, other)
                o.elems = st.fresh_const("el", z3.ArraySort(z3.IntSort(), o.t.sort()))
                o.is_empty_literal = False
            i = z3.Int("i!ext")
            bi = st.fresh_int("bi")
            e = o.t.embed(st, seq.elem(bi))
            old, oldn = o.elems, o.n
            o.elems = z3.Lambda([i], z3.If(i < oldn, old[i], z3.substitute(e, (bi, i - oldn))))
            o.n = oldn + seq.n
            ex.writeback(o)
            return None
        if name == "copy":
            c = o.clone()
            c.origin = None
            return st.alloc(c)
        if name == "index":
            et = o.t.embed(st, args[0])
            i = z3.Int("i!ix")
            exists = z3.Exists([i], z3.And(0 <= i, i < o.n, o.elems[i] == et))
            if not st.decide(exists):
                raise PyRaise_("ValueError", lineno)
            r = st.fresh_int("idx")
            st.assume(z3.And(0 <= r, r < o.n, o.elems[r] == et))
            st.assume(z3.ForAll([i], z3.Implies(z3.And(0 <= i, i < r), o.elems[i] != et)))
            return SV(r, TInt)
        if name == "pop":
            if not st.decide(o.n > 0):
                raise PyRaise_("IndexError", lineno)
            if args:
                n = ex.num(args[0])[0]
                if not st.decide(z3.And(n >= -o.n, n < o.n)):
                    raise PyRaise_("IndexError", lineno)
                idx = z3.If(n < 0, n + o.n, n)
            else:
                idx = o.n - 1
            v = o.t.project(st, o.elems[idx])
            i = z3.Int("i!pop")
            old = o.elems
            o.elems = z3.Lambda([i], z3.If(i < idx, old[i], old[i + 1]))
            o.n = o.n - 1
            ex.writeback(o)
            return v
        if name == "clear":
            o.n = z3.IntVal(0)
            ex.writeback(o)
            return None
        if name == "reverse":
            i = z3.Int("i!rev")
            old, n = o.elems, o.n
            o.elems = z3.Lambda([i], old[n - 1 - i])
            ex.writeback(o)
            return None
        raise Unsupported(f"list.{name}")

    # ------------------------------------------------------------------ builtin functions
    def call_builtin(self, ex, name, args, kwargs, lineno, node=None):
        st = ex.st
        from .engine import IterV

        r = self._plug("call_builtin", ex, name, args, kwargs, lineno, node)
        if r is not NotImplemented:
            return r
        if name == "len":
            return self.length(ex, args[0], lineno)
        if name == "isinstance":
            return self.isinstance_(ex, args[0], args[1])
        if name == "callable":
            return isinstance(args[0], (FunV, FuncV, BoundMethod, BuiltinV, ClassV))
        if name == "range":
            nums = [ex.num(a) for a in args]
            if any(n is None or n[1] != TInt for n in nums) or len(args) > 2:
                raise Unsupported("range() with step or non-int")
            a, b = (z3.IntVal(0), nums[0][0]) if len(args) == 1 else (nums[0][0], nums[1][0])
            return TRange.mk(st, start=SV(a, TInt), stop=SV(b, TInt))
        if name == "iter":
            return ex.to_iter(args[0], lineno)
        if name == "enumerate":
            seq = ex.to_iter(args[0], lineno)
            start = ex.num(args[1])[0] if len(args) > 1 else (ex.num(kwargs["start"])[0] if "start" in kwargs else z3.IntVal(0))
            conc = None
            if seq.concrete is not None and z3.is_int_value(z3.simplify(start)):
                s0 = z3.simplify(start).as_long()
                conc = [(s0 + i, x) for i, x in enumerate(seq.concrete)]
            return IterV(seq.n, lambda i: (SV(z3.simplify(start + i), TInt), seq.elem(i)), concrete=conc)
        if name == "zip":
            seqs = [ex.to_iter(a, lineno) for a in args]
            n = seqs[0].n
            for s in seqs[1:]:
                n = z3.If(s.n < n, s.n, n)
            conc = None
            if all(s.concrete is not None for s in seqs):
                conc = list(zip(*[s.concrete for s in seqs]))
            return IterV(z3.simplify(n), lambda i: tuple(s.elem(i) for s in seqs), concrete=conc)
        if name == "reversed":
            seq = ex.to_iter(args[0], lineno)
            conc = list(reversed(seq.concrete)) if seq.concrete is not None else None
            rv = IterV(seq.n, lambda i: seq.elem(seq.n - 1 - i), concrete=conc)
            if isinstance(args[0], Ref) and isinstance(st.heap[args[0].id], ListObj) and not st.heap[args[0].id].is_empty_literal:
                rv.elem_type = st.heap[args[0].id].t  # so that list(reversed(l)) is typed like l
            return rv
        if name == "tuple":
            if not args:
                return ()
            if isinstance(args[0], tuple):
                return args[0]
            seq = ex.to_iter(args[0], lineno)
            if seq.concrete is not None:
                return tuple(seq.concrete)
            return self._list_from_iter(ex, seq, args[0])
        if name == "list":
            if not args:
                return self.make_list(ex, [])
            seq = ex.to_iter(args[0], lineno)
            if seq.concrete is not None:
                return self.make_list(ex, list(seq.concrete))
            return self._list_from_iter(ex, seq, args[0])
        if name == "set" or name == "frozenset":
            if not args:
                return self.make_set(ex, [])
            kt = self._elem_type_of_iterable(ex, args[0])
            if isinstance(args[0], Ref) and getattr(st.heap[args[0].id], "is_empty_literal", False):
                return self.make_set(ex, [])
            if isinstance(args[0], tuple) and not args[0]:
                return self.make_set(ex, [])
            if isinstance(args[0], Ref) and isinstance(st.heap[args[0].id], PyObj):
                # an object iterating over one of its sets (e.g. RequiredNames): set(obj) is a copy of that set
                seq0 = ex.to_iter(args[0], lineno)
                src_set = getattr(seq0, "source_set", None)
                if src_set is not None:
                    return st.alloc(SetObj(src_set[0], src_set[1], src_set[2]))
            mem = self._iter_member(ex, args[0], kt)
            n = st.fresh_int("setn")
            o = SetObj(kt, mem, n)
            for f in o.wf_facts(st):
                st.assume(f)
            src = st.heap[args[0].id] if isinstance(args[0], Ref) else (st.heap[args[0].ref.id] if isinstance(args[0], DictView) else None)
            if isinstance(src, (SetObj, DictObj)):
                st.assume(n == src.n)
            elif isinstance(src, ListObj):
                st.assume(n <= src.n)
            return st.alloc(o)
        if name == "dict":
            if not args and not kwargs:
                return self.make_dict(ex, [], [])
            if len(args) == 1 and isinstance(args[0], Ref) and isinstance(st.heap[args[0].id], DictObj):
                c = st.heap[args[0].id].clone()
                c.origin = None
                return st.alloc(c)
            raise Unsupported("dict(...) with arguments")
        if name == "sorted":
            # result: a list with the same elements (permutation); order facts are not modelled
            seq = ex.to_iter(args[0], lineno)
            if seq.concrete is not None and all(is_concrete(x) for x in seq.concrete):
                return self.make_list(ex, sorted(seq.concrete))
            kt = self._elem_type_of_iterable(ex, args[0])
            mem = self._iter_member(ex, args[0], kt)
            res = TList(kt).fresh(st, "sorted")
            ro = st.heap[res.id]
            i = z3.Int("i!so")
            k = z3.Const("k!so", kt.sort())
            st.assume(ro.n == seq.n)
            st.assume(z3.ForAll([i], z3.Implies(z3.And(0 <= i, i < ro.n), mem[ro.elems[i]])))
            st.assume(z3.ForAll([k], z3.Implies(mem[k], z3.Exists([i], z3.And(0 <= i, i < ro.n, ro.elems[i] == k)))))
            ex.assumed.add("model:sorted(permutation only)")
            return res
        if name in ("min", "max", "abs") and args and all(isinstance(a, (int, float)) for a in args):
            return {"min": min, "max": max, "abs": abs}[name](*args)
        if name in ("min", "max") and len(args) >= 2 and all(ex.num(a) is not None for a in args):
            nums = [ex.num(a) for a in args]
            real = any(s == TReal for _, s in nums)
            ts = [z3.ToReal(t) if real and s == TInt else t for t, s in nums]
            r = ts[0]
            for t in ts[1:]:
                r = z3.If(t < r, t, r) if name == "min" else z3.If(t > r, t, r)
            return SV(z3.simplify(r), TReal if real else TInt)
        if name == "abs" and ex.num(args[0]) is not None:
            t, s = ex.num(args[0])
            return SV(z3.If(t < 0, -t, t), s)
        if name == "bool":
            t = ex.truth(args[0]) if args else False
            return t if isinstance(t, bool) else SV(t, TBool)
        if name == "int":
            n = ex.num(args[0])
            if n is not None and n[1] == TInt:
                return SV(n[0], TInt) if not is_concrete(args[0]) else int(args[0])
            raise Unsupported("int() of non-int")
        if name == "float":
            n = ex.num(args[0])
            if n is not None:
                return SV(z3.ToReal(n[0]) if n[1] == TInt else n[0], TReal)
            raise Unsupported("float() of non-number")
        if name in ("str", "repr"):
            if args and isinstance(args[0], str) and name == "str":
                return args[0]
            if args and isinstance(args[0], SV) and args[0].ty == TStr and name == "str":
                return args[0]
            return SV(st.fresh_const("strof", TStr.sort()), TStr)
        if name == "print" or name.startswith("LOGGER.") or name in ("warnings.warn", "warn"):
            return None
        if name in ("time.time", "time.perf_counter", "timeit.default_timer") and not args:
            # wall clock: a havoc'ed non-negative real (DESIGN §2.2)
            t = st.fresh_const("time", z3.RealSort())
            st.assume(t >= 0)
            return SV(t, TReal)
        if name == "id":
            if isinstance(args[0], Ref):
                return args[0].id
        if name == "type":
            if isinstance(args[0], Ref) and isinstance(st.heap[args[0].id], PyObj):
                return ClassV(st.heap[args[0].id].cls)
        if name in ("any", "all"):
            return self.any_all(ex, name, args[0], lineno)
        if name == "getattr" and isinstance(args[1], str):
            try:
                return ex.get_attr(args[0], args[1], lineno)
            except Unsupported:
                if len(args) > 2:
                    return args[2]
                raise
        if name == "hasattr" and isinstance(args[1], str) and isinstance(args[0], Ref) and isinstance(st.heap[args[0].id], PyObj):
            o = st.heap[args[0].id]
            return args[1] in o.fields or S.find_method(o.cls, args[1]) is not None
        if name == "copy.copy" or name == "copy":
            return self.shallow_copy(ex, args[0], lineno)
        if name in ("copy.deepcopy", "deepcopy"):
            return self.deep_copy(ex, args[0], lineno)
        if name in ("typing.cast", "cast"):
            return args[1]
        if name == "sum" and len(args) >= 1:
            seq = ex.to_iter(args[0], lineno)
            if seq.concrete is not None:
                acc = args[1] if len(args) > 1 else 0
                for x in seq.concrete:
                    acc = ex.binop("Add", acc, x, lineno)
                return acc
        raise Unsupported(f"builtin/external function {name}")

    def any_all(self, ex, name, v, lineno):
        st = ex.st
        seq = ex.to_iter(v, lineno)
        if seq.concrete is not None:
            out = None
            for x in seq.concrete:
                t = ex.truth_term(x)
                out = t if out is None else (z3.Or(out, t) if name == "any" else z3.And(out, t))
            if out is None:
                return name == "all"
            return SV(z3.simplify(out), TBool)
        i = z3.Int("i!aa")
        bi = st.fresh_int("bi")
        body = z3.substitute(ex.truth_term(seq.elem(bi)), (bi, i))
        rng = z3.And(0 <= i, i < seq.n)
        if name == "any":
            return SV(z3.Exists([i], z3.And(rng, body)), TBool)
        return SV(z3.ForAll([i], z3.Implies(rng, body)), TBool)

    def _list_from_iter(self, ex, seq, src):
        st = ex.st
        t = self._elem_type_of_iterable(ex, src) if not hasattr(seq, "elem_type") else seq.elem_type
        i = z3.Int("i!lf")
        bi = st.fresh_int("bi")
        e = t.embed(st, seq.elem(bi))
        o = ListObj(t, seq.n, z3.Lambda([i], z3.substitute(e, (bi, i))))
        return st.alloc(o)

    def length(self, ex, v, lineno):
        st = ex.st
        from .engine import IterV

        r = self._plug("length", ex, v, lineno)
        if r is not NotImplemented:
            return r
        if isinstance(v, (tuple, str)):
            return len(v)
        if isinstance(v, DictView):
            return SV(st.heap[v.ref.id].n, TInt)
        if isinstance(v, SV) and v.ty == TRange:
            a, b = TRange.accessor("start")(v.term), TRange.accessor("stop")(v.term)
            return SV(z3.If(b > a, b - a, z3.IntVal(0)), TInt)
        if isinstance(v, Ref):
            o = st.heap[v.id]
            if isinstance(o, (DictObj, SetObj, ListObj)):
                sn = z3.simplify(o.n)
                return sn.as_long() if z3.is_int_value(sn) else SV(o.n, TInt)
            if isinstance(o, PyObj):
                m = S.find_method(o.cls, "__len__")
                if m is not None:
                    return ex.call_repo(m, [v], {}, lineno)
        if isinstance(v, IterV):
            return SV(v.n, TInt)
        raise Unsupported(f"len() of {v!r}")

    def isinstance_(self, ex, v, cls):
        st = ex.st
        r = self._plug("isinstance_", ex, v, cls)
        if r is not NotImplemented:
            return r
        classes = cls if isinstance(cls, tuple) else (cls,)
        names = []
        for c in classes:
            if isinstance(c, ClassV):
                names.append(c.qualname)
            elif isinstance(c, BuiltinV):
                names.append(c.name)
            else:
                raise Unsupported(f"isinstance against {c!r}")
        kind = None
        if isinstance(v, bool) or (isinstance(v, SV) and v.ty == TBool):
            kind = {"bool", "int"}
        elif isinstance(v, int) or (isinstance(v, SV) and v.ty == TInt):
            kind = {"int"}
        elif isinstance(v, float) or (isinstance(v, SV) and v.ty == TReal):
            kind = {"float"}
        elif isinstance(v, str) or (isinstance(v, SV) and v.ty == TStr):
            kind = {"str"}
        elif isinstance(v, tuple):
            kind = {"tuple"}
        elif v is None:
            kind = {"NoneType"}
        elif isinstance(v, Ref):
            o = st.heap[v.id]
            if isinstance(o, DictObj):
                kind = {"dict", "Mapping", "MutableMapping", "collections.abc.Mapping", "collections.abc.MutableMapping"}
            elif isinstance(o, SetObj):
                kind = {"set", "Set", "AbstractSet", "collections.abc.Set"}
            elif isinstance(o, ListObj):
                kind = {"list", "Sequence", "collections.abc.Sequence"}
            elif isinstance(o, PyObj):
                return any(S.is_subclass(o.cls, n) for n in names)
            elif isinstance(o, ExcObj):
                from .engine import exc_is_subclass

                return any(exc_is_subclass(o.cls, n) for n in names)
        if kind is None:
            raise Unsupported(f"isinstance({v!r}, ...)")
        return any(n in kind or n.rsplit(".", 1)[-1] in kind for n in names)

    def shallow_copy(self, ex, v, lineno):
        st = ex.st
        r = self._plug("shallow_copy", ex, v, lineno)
        if r is not NotImplemented:
            return r
        if isinstance(v, Ref):
            o = st.heap[v.id]
            if isinstance(o, (DictObj, SetObj, ListObj)):
                c = o.clone()
                c.origin = None
                return st.alloc(c)
            if isinstance(o, PyObj):
                m = S.find_method(o.cls, "__copy__")
                if m is not None:
                    return ex.call_repo(m, [v], {}, lineno)
        if is_concrete(v) or isinstance(v, SV):
            return v
        raise Unsupported(f"copy of {v!r}")

    def deep_copy(self, ex, v, lineno):
        r = self._plug("deep_copy", ex, v, lineno)
        if r is not NotImplemented:
            return r
        if is_concrete(v) or (isinstance(v, SV) and not isinstance(v.ty, TAddr)):
            return v
        raise Unsupported(f"deepcopy of {v!r}")

    # ------------------------------------------------------------------ comprehensions
    def comprehension(self, ex, node, kind):
        """Set/dict/list comprehensions over one symbolic iterable, summarised by a
        quantified definition (no side effects, no forking inside the element expression)."""
        st = ex.st
        from .engine import IterV

        r = self._plug("comprehension", ex, node, kind)  # plugins may summarise specific comprehension shapes (e.g. [d[x] for x in names])
        if r is not NotImplemented:
            return r
        if len(node.generators) != 1 or node.generators[0].is_async:
            raise Unsupported("comprehension with several generators")
        gen = node.generators[0]
        src = ex.ev(gen.iter)
        seq = ex.to_iter(src, node.lineno)
        if isinstance(src, Ref) and isinstance(st.heap[src.id], PyObj) and getattr(seq, "source_dict", None) is not None:
            src = seq.source_dict  # an object whose __iter__ is `iter(self.<dict>)`: the comprehension runs over that dict's keys
        fr = ex.frame
        saved = dict(fr.env)

        def body(i):
            ex.assign(gen.target, seq.elem(i))
            conds = [ex.truth_term(ex.ev(c)) for c in gen.ifs]
            cond = z3.And(*conds) if conds else z3.BoolVal(True)
            if kind == "dict":
                return cond, (ex.ev(node.key), ex.ev(node.value))
            return cond, ex.ev(node.elt)

        try:
            if seq.concrete is not None:
                items = []
                for idx, x in enumerate(seq.concrete):
                    ex.assign(gen.target, x)
                    ok = True
                    for c in gen.ifs:
                        if not st.decide(ex.truth(ex.ev(c))):
                            ok = False
                            break
                    if not ok:
                        continue
                    if kind == "dict":
                        items.append((ex.ev(node.key), ex.ev(node.value)))
                    else:
                        items.append(ex.ev(node.elt))
                if kind == "dict":
                    return self.make_dict(ex, [k for k, _ in items], [v for _, v in items])
                if kind == "set":
                    return self.make_set(ex, items)
                if kind == "list":
                    return self.make_list(ex, items)
                return IterV(z3.IntVal(len(items)), lambda i: None, concrete=items)
            bi = st.fresh_int("ci")
            depth = len(st.dec.trail)
            npc = len(st.pc)
            n_fresh0 = st.n_fresh
            n_fresh1 = [10 ** 9]  # frozen right after the element expression has been evaluated
            from .engine import PyRaise

            def _element_consts(f):
                """The constants created while the element expression was evaluated for the generic index (results of callee contracts,
                contents of objects it allocates...) that occur in f: they belong to ONE element, not to the comprehension."""
                stack, seen, out = [f], set(), []
                while stack:
                    t = stack.pop()
                    if t.get_id() in seen:
                        continue
                    seen.add(t.get_id())
                    if z3.is_quantifier(t):
                        stack.append(t.body())
                        continue
                    if z3.is_const(t) and t.decl().kind() == z3.Z3_OP_UNINTERPRETED:
                        nm = t.decl().name()
                        tail = nm.rsplit("!", 1)[-1]
                        if "!" in nm and tail.isdigit() and n_fresh0 < int(tail) <= n_fresh1[0]:
                            out.append(t)
                    stack.extend(t.children())
                return out

            def _mentions_bi(f):
                stack, seen = [f], set()
                while stack:
                    t = stack.pop()
                    if t.get_id() in seen:
                        continue
                    seen.add(t.get_id())
                    if t.eq(bi):
                        return True
                    if z3.is_quantifier(t):
                        stack.append(t.body())
                        continue
                    stack.extend(t.children())
                return bool(_element_consts(f))

            _sk_funcs = {}

            def skol(t):
                """Replace the per-element constants of t by Skolem functions of the generic index."""
                cs = _element_consts(t)
                if not cs:
                    return t
                subs = []
                for c in cs:
                    nm = c.decl().name()
                    if nm not in _sk_funcs:
                        _sk_funcs[nm] = z3.Function(nm + "!at", z3.IntSort(), c.sort())
                    subs.append((c, _sk_funcs[nm](bi)))
                return z3.substitute(t, *subs)

            ex.no_fork = True
            raised = None
            # the facts about the generic index (0 <= bi < n, hence n >= 1) must not survive in the feasibility solver
            st.solver.push()
            try:
                st.assume(z3.And(0 <= bi, bi < seq.n))
                cond, val = body(bi)
            except PyRaise as e:
                raised = e
            finally:
                ex.no_fork = False
                st.solver.pop()
            n_fresh1[0] = st.n_fresh
            new_facts = st.pc[npc + 1:]
            forked = len(st.dec.trail) != depth
            if (forked or raised is not None) and any(_mentions_bi(f) for f in new_facts):
                raise Unsupported(f"comprehension element forks on its own index at line {node.lineno}")
            # facts learnt about the generic index are only valid for it: drop them; a fork / exception that does not depend on
            # the index is the same for every element (it happens at the first one, which exists)
            del st.pc[npc:]
            if forked or raised is not None:
                for f in new_facts:
                    st.pc.append(f)
                    st._add_solver(f)
            if raised is not None:
                st.assume(seq.n > 0)
                raise raised
            i = z3.Int("i!c")
            if not forked:
                # what was learnt about the generic element (e.g. the postcondition of a contract called by the element expression) holds
                # for every element: generalise it, the per-element constants becoming functions of the index
                for f in new_facts:
                    if not _mentions_bi(f):
                        continue
                    g = z3.substitute(skol(f), (bi, i))
                    apps = {}
                    stack = [g]
                    while stack:
                        t = stack.pop()
                        if z3.is_quantifier(t):
                            continue
                        if z3.is_app(t) and t.decl().name().endswith("!at") and t.num_args() == 1 and t.arg(0).eq(i):
                            apps[t.get_id()] = t
                        stack.extend(t.children())
                    body_f = z3.Implies(z3.And(0 <= i, i < seq.n), g)
                    st.assume(z3.ForAll([i], body_f, patterns=list(apps.values())) if apps else z3.ForAll([i], body_f))
            cond = skol(cond)
            val = _skolem_value(ex, val, skol)
            if kind in ("list", "gen"):
                if gen.ifs:
                    return self._filtered_sequence(ex, seq, cond, val, bi, kind, skol)
                if kind == "gen":
                    return IterV(seq.n, lambda j: _subst_value(ex, val, bi, j))
                t = type_of_value(st, val)
                e = skol(t.embed(st, val))
                return st.alloc(ListObj(t, seq.n, z3.Lambda([i], z3.substitute(e, (bi, i)))))
            if kind == "set":
                kt = type_of_value(st, val)
                e = skol(kt.embed(st, val))
                k = z3.Const("k!c", kt.sort())
                mem = z3.Lambda([k], z3.Exists([i], z3.And(0 <= i, i < seq.n, z3.substitute(cond, (bi, i)), z3.substitute(e, (bi, i)) == k)))
                o = SetObj(kt, mem, st.fresh_int("cn"))
                for f in o.wf_facts(st):
                    st.assume(f)
                st.assume(o.n <= seq.n)
                return st.alloc(o)
            # dict comprehension
            kv, vv = val
            kt, vt = type_of_value(st, kv), type_of_value(st, vv)
            ke, ve = skol(kt.embed(st, kv)), skol(vt.embed(st, vv))
            k = z3.Const("k!c", kt.sort())
            j = z3.Int("j!c")
            key_at = lambda t: z3.substitute(ke, (bi, t))  # noqa: E731
            val_at = lambda t: z3.substitute(ve, (bi, t))  # noqa: E731
            cond_at = lambda t: z3.substitute(cond, (bi, t))  # noqa: E731
            inj = self._keys_injective(ex, src, ke, bi)
            if not inj:
                # model applicability: the produced keys must be pairwise distinct (no overwrite)
                ex.check(z3.ForAll([i, j], z3.Implies(z3.And(0 <= i, i < j, j < seq.n, cond_at(i), cond_at(j)), key_at(i) != key_at(j))),
                         "safety", "comprehension-keys-distinct", node.lineno, aux=True)
            srcd = None
            if isinstance(src, DictView):
                srcd = st.heap[src.ref.id]
            elif isinstance(src, Ref) and isinstance(st.heap[src.id], DictObj):
                srcd = st.heap[src.id]
            if not gen.ifs:
                # one entry per iteration, insertion order = iteration order: the result is described by the usual
                # order view (keys/pos bijection) + definitions of keys and values by index ...
                mem = st.fresh_const("cmem", z3.ArraySort(kt.sort(), z3.BoolSort()))
                vals = st.fresh_const("cvals", z3.ArraySort(kt.sort(), vt.sort()))
                keys = st.fresh_const("ckeys", z3.ArraySort(z3.IntSort(), kt.sort()))
                pos = st.fresh_const("cpos", z3.ArraySort(kt.sort(), z3.IntSort()))
                o = DictObj(kt, vt, mem, vals, seq.n, keys, pos)
                for f in o.wf_facts(st):
                    st.assume(f)
                st.assume(z3.ForAll([i], z3.Implies(z3.And(0 <= i, i < seq.n), z3.And(keys[i] == key_at(i), vals[keys[i]] == val_at(i))), patterns=[keys[i]]))
                if srcd is not None and srcd.keys is not None and srcd.k.sort() == kt.sort():
                    # ... and, keyed on the source keys (triggers on the source membership), for both directions of proofs
                    sk = z3.Const("sk!c", srcd.k.sort())
                    p = srcd.pos[sk]
                    st.assume(z3.ForAll([sk], z3.Implies(srcd.member[sk], z3.And(mem[key_at(p)], pos[key_at(p)] == p, vals[key_at(p)] == val_at(p), keys[p] == key_at(p))),
                                        patterns=[srcd.member[sk]]))
                return st.alloc(o)
            mem = z3.Lambda([k], z3.Exists([i], z3.And(0 <= i, i < seq.n, cond_at(i), key_at(i) == k)))
            vals = st.fresh_const("cvals", z3.ArraySort(kt.sort(), vt.sort()))
            o = DictObj(kt, vt, mem, vals, st.fresh_int("cn"))
            for f in o.wf_facts(st):
                st.assume(f)
            st.assume(o.n <= seq.n)
            st.assume(z3.ForAll([i], z3.Implies(z3.And(0 <= i, i < seq.n, cond_at(i)), vals[key_at(i)] == val_at(i))))
            return st.alloc(o)
        finally:
            fr.env.clear()
            fr.env.update(saved)

    def _filtered_sequence(self, ex, seq, cond, val, bi, kind, skol=None):
        """[val(x) for x in seq if cond(x)] over a symbolic sequence: the sub-sequence of the kept
        elements, described by the strictly increasing source-index map ``src`` and its inverse ``dst``."""
        from .engine import IterV

        st = ex.st
        t = type_of_value(st, val)
        e = t.embed(st, val)
        if skol is not None:
            e = skol(e)
        n = st.fresh_int("fn")
        res = st.fresh_const("fel", z3.ArraySort(z3.IntSort(), t.sort()))
        src = st.fresh_const("fsrc", z3.ArraySort(z3.IntSort(), z3.IntSort()))
        dst = st.fresh_const("fdst", z3.ArraySort(z3.IntSort(), z3.IntSort()))
        i, j = z3.Int("i!f"), z3.Int("j!f")
        cond_at = lambda x: z3.substitute(cond, (bi, x))  # noqa: E731
        val_at = lambda x: z3.substitute(e, (bi, x))  # noqa: E731
        st.assume(z3.And(0 <= n, n <= seq.n))
        st.assume(z3.ForAll([j], z3.Implies(z3.And(0 <= j, j < n), z3.And(0 <= src[j], src[j] < seq.n, cond_at(src[j]), res[j] == val_at(src[j]), dst[src[j]] == j)), patterns=[src[j], res[j]]))
        vi = val_at(i)
        extra = [vi] if (z3.is_app(vi) and vi.decl().kind() in (z3.Z3_OP_SELECT, z3.Z3_OP_UNINTERPRETED) and not z3.is_const(vi)) else []
        try:
            ax2 = z3.ForAll([i], z3.Implies(z3.And(0 <= i, i < seq.n, cond_at(i)), z3.And(0 <= dst[i], dst[i] < n, src[dst[i]] == i)), patterns=[dst[i]] + extra)
        except z3.Z3Exception:
            ax2 = z3.ForAll([i], z3.Implies(z3.And(0 <= i, i < seq.n, cond_at(i)), z3.And(0 <= dst[i], dst[i] < n, src[dst[i]] == i)), patterns=[dst[i]])
        st.assume(ax2)
        st.assume(z3.ForAll([i, j], z3.Implies(z3.And(0 <= i, i < j, j < n), src[i] < src[j]), patterns=[z3.MultiPattern(src[i], src[j])]))
        self._plug("filtered_sequence", ex, seq, cond_at, n, src, dst)  # derived facts a plugin adds for its own module (plug_hdf: rank lemma)
        if kind == "gen":
            it = IterV(n, lambda x: t.project(st, res[x]))
            it.elem_type = t
            it.fsrc, it.fdst = src, dst
            return it
        o = ListObj(t, n, res)
        o.fsrc, o.fdst = src, dst
        return st.alloc(o)

    def _keys_injective(self, ex, src, ke, bi):
        st = ex.st
        o = None
        if isinstance(src, DictView):
            o = st.heap[src.ref.id]
        elif isinstance(src, Ref) and isinstance(st.heap[src.id], (DictObj,)):
            o = st.heap[src.id]
        if o is not None and o.keys is not None:
            return z3.simplify(ke).eq(z3.simplify(o.keys[bi]))
        return False


def _skolem_value(ex, v, skol):
    """Apply the per-element Skolemisation to the terms of a comprehension element value."""
    st = ex.st
    if isinstance(v, SV):
        return SV(skol(v.term), v.ty)
    if isinstance(v, tuple):
        return tuple(_skolem_value(ex, x, skol) for x in v)
    if isinstance(v, Ref) and isinstance(st.heap[v.id], SetObj) and not st.heap[v.id].is_empty_literal:
        o = st.heap[v.id]
        c = SetObj(o.k, skol(o.member), skol(o.n))
        c.ty = o.ty
        return st.alloc(c)
    return v


def _subst_value(ex, v, bi, j):
    st = ex.st
    if isinstance(v, SV):
        return SV(z3.substitute(v.term, (bi, j)), v.ty)
    if isinstance(v, tuple):
        return tuple(_subst_value(ex, x, bi, j) for x in v)
    if isinstance(v, Ref) and isinstance(st.heap[v.id], SetObj) and not st.heap[v.id].is_empty_literal:
        # a set built by the element expression (its membership mentions the generic index): the set of element j
        o = st.heap[v.id]
        c = SetObj(o.k, z3.substitute(o.member, (bi, j)), z3.substitute(o.n, (bi, j)))
        c.ty = o.ty
        return st.alloc(c)
    return v


def _set_add(o: SetObj, kt):
    o.n = z3.If(o.member[kt], o.n, o.n + 1)
    o.member = z3.Store(o.member, kt, z3.BoolVal(True))
    o.is_empty_literal = False


str_concat = z3.Function("str_concat", StrS, StrS, StrS)


def _join_types(ex, ts):
    t0 = ts[0]
    for t in ts[1:]:
        if t != t0:
            if {t, t0} <= {TInt, TReal}:
                t0 = TReal
            else:
                raise Unsupported(f"heterogeneous container literal: {t0} vs {t}")
    return t0


def PyRaise_(cls, lineno):
    from .engine import PyRaise

    return PyRaise(cls, lineno)
