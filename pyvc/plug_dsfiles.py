"""C11 plugin: the DESIGN-SPACE files (text/CSV and HDF5) of gemseo.algos.design_space.

Every hook is gated on the opt-in attribute ``c11_files = True`` of the contract being verified (and on the module
``gemseo.algos.design_space`` / on this plugin's own heap objects).

TEXT FILE (``DesignSpace.to_csv`` / ``from_csv``).  The file system, PrettyTable's layout and numpy's parser are out of reach
of contracts.  What is modelled is the *logical content* of ONE text file, kept in ghost variables:

  csv_rows, csv_cols : number of lines / of white-space separated columns
  csv_str[r][c]      : the text of cell (r, c)           (what ``genfromtxt(path, dtype="str")`` returns)
  csv_flt[r][c]      : the number parsed from cell (r, c) (what ``genfromtxt(path, dtype="float")`` returns; opaque content)

ASSUMED contracts (validated natively against numpy by ``tools/validate_csv_model.py``, same labels):
  T1 genfromtxt(path, dtype="float") and genfromtxt(path, dtype="str") are two tables of the SAME shape (rows, cols) over the
     same cells; with fewer than two lines or fewer than two columns the result is not two-dimensional and a 2-index subscript
     raises IndexError
  T2 table[r, :] / table[a:b, c] / table[r, c] are numpy basic indexing: the row, the part of column c in the (clamped) row
     range, the cell; IndexError for an integer index out of range; ``.tolist()`` of a str row/column is the list of its texts
  T3 ``"None" in column_part`` <=> some cell of the part has the text "None"
  T4 list.count(x) = number of positions holding x (recursive specification function ``csv_count``; the interval lemma used by
     the contracts is proved by induction in contracts/c11_design_space_files.CsvLemmas)
NOT modelled (hence ``to_csv`` / ``get_pretty_table`` are not under contract): PrettyTable's layout, i.e. the link between the cells
handed to ``add_row`` and the text cells genfromtxt reads back (validated natively for the default export by the same script, T5).
"""
from __future__ import annotations

import z3

from .values import (BoundMethod, BuiltinV, DictObj, HeapObj, ListObj, PyObj, Ref, SV, StrS, TBool, TDict, TInt, TList, TNd, TOpt, TStr, TVal,
                     Unsupported, ValS, declare_ghost, str_lit)

MOD = "gemseo.algos.design_space"
DS = MOD + ".DesignSpace"

ROW_S = z3.ArraySort(z3.IntSort(), StrS)
ROW_F = z3.ArraySort(z3.IntSort(), ValS)
TAB_S = z3.ArraySort(z3.IntSort(), ROW_S)
TAB_F = z3.ArraySort(z3.IntSort(), ROW_F)
INT_ARR = z3.ArraySort(z3.IntSort(), z3.IntSort())
STR_ARR = z3.ArraySort(z3.IntSort(), StrS)

declare_ghost("csv_rows", z3.IntSort())
declare_ghost("csv_cols", z3.IntSort())
declare_ghost("csv_str", TAB_S)
declare_ghost("csv_flt", TAB_F)
# specification-only ghosts of from_csv (assigned by ghost code of the contract only)
declare_ghost("c11_row", z3.IntSort())  # rows of the name column scanned so far
declare_ghost("c11_bs", INT_ARR)  # block -> first row of the block
declare_ghost("c11_blk", INT_ARR)  # row -> block
declare_ghost("c11_upos", z3.ArraySort(StrS, z3.IntSort()))  # unique name -> its block (inverse of unique_names: distinctness with a one-variable trigger)
# the arguments add_variable was called with, per name (ghost call log in map form)
OPT_ND = TOpt(TNd)
ARGS = z3.Datatype("C11AddArgs")
ARGS.declare("mk", ("size", z3.IntSort()), ("type", StrS), ("lb", ValS), ("ub", ValS), ("value", OPT_ND.sort()))
ARGS = ARGS.create()
declare_ghost("c11_added", z3.ArraySort(StrS, ARGS))

# ---- spec functions
col_slice = z3.Function("csv_col_slice", TAB_F, z3.IntSort(), z3.IntSort(), z3.IntSort(), ValS)  # float_table[lo:hi, c] (lo, hi clamped)
csv_count = z3.Function("csv_count", STR_ARR, StrS, z3.IntSort(), z3.IntSort())  # number of i in [0, m) with L[i] == x
np_getitem = z3.Function("np_getitem_2", ValS, ValS, ValS)  # the opaque numpy layer's a[i] (pyvc/gmodels.py: opaque_apply("getitem", ..))
val_of_int = z3.Function("val_of_int", z3.IntSort(), ValS)
nd_len = z3.Function("nd_len", ValS, z3.IntSort())
NONE_TXT = str_lit("None")


def elem(arr, i):
    """arr[i] of an opaque array, as the engine builds it."""
    return np_getitem(arr, val_of_int(i))


def count_def():
    L, x, j, b = z3.Const("L!cd", STR_ARR), z3.Const("x!cd", StrS), z3.Int("j!cd"), z3.Int("b!cd")
    return [("count-zero", z3.ForAll([L, x], csv_count(L, x, 0) == 0, patterns=[csv_count(L, x, 0)])),
            ("count-step", z3.ForAll([L, x, j, b], z3.Implies(z3.And(j >= 0, b == j + 1), csv_count(L, x, b) == csv_count(L, x, j) + z3.If(L[j] == x, 1, 0)),
                                     patterns=[z3.MultiPattern(csv_count(L, x, j), csv_count(L, x, b))]))]


def slice_facts(s, F, lo, hi, c, n):
    """T2 for a float column part named s: its length n and its elements."""
    i = z3.Int("i!cs")
    return [s == col_slice(F, lo, hi, c), nd_len(s) == n, z3.ForAll([i], z3.Implies(z3.And(0 <= i, i < n), elem(s, i) == F[lo + i][c]), patterns=[elem(s, i)])]


class CsvTable(HeapObj):
    """The array returned by genfromtxt: kind 's' (texts) or 'f' (numbers)."""

    def __init__(self, kind):
        self.kind = kind

    def clone(self):
        return CsvTable(self.kind)


def _on(ex):
    return getattr(ex.contract, "c11_files", False) and ex.frame.module.name == MOD


def _raise(cls, lineno):
    from .engine import PyRaise

    return PyRaise(cls, lineno)


def _clamp(v, n):
    """Python/numpy clamping of a slice bound against a length n."""
    return z3.If(v < 0, z3.If(v + n < 0, 0, v + n), z3.If(v > n, n, v))


class DsFileModels:
    # ------------------------------------------------------------------ genfromtxt / list.count / tolist
    def call_builtin(self, ex, name, args, kwargs, lineno, node=None):
        if not _on(ex):
            return NotImplemented
        st = ex.st
        if name in ("numpy.genfromtxt", "genfromtxt") and len(args) == 1 and kwargs.get("dtype") in ("float", "str"):
            ex.assumed.add("T1: genfromtxt(path, dtype='float') / genfromtxt(path, dtype='str') are two tables of the same shape over the same cells "
                           "(abstract file content in ghosts csv_*); fewer than two lines or two columns: not two-dimensional")
            rows, cols = st.ghost_get("csv_rows", z3.IntSort()), st.ghost_get("csv_cols", z3.IntSort())
            st.assume(z3.And(rows >= 0, cols >= 0))
            return st.alloc(CsvTable("f" if kwargs["dtype"] == "float" else "s"))
        return NotImplemented

    def _shape(self, ex):
        st = ex.st
        return st.ghost_get("csv_rows", z3.IntSort()), st.ghost_get("csv_cols", z3.IntSort())

    def _index(self, ex, v, n, lineno):
        """A normalised integer index (IndexError when out of range)."""
        t = ex.num(v)
        if t is None or t[1] != TInt:
            raise Unsupported(f"csv model: index {v!r}")
        i = t[0]
        if not ex.st.decide(z3.And(i >= -n, i < n)):
            raise _raise("IndexError", lineno)
        if ex.st.solver.check(i < 0) == z3.unsat:
            return i  # known to be non-negative
        return z3.simplify(z3.If(i < 0, i + n, i))

    def getitem(self, ex, cont, key, lineno):
        st = ex.st
        if not isinstance(cont, Ref) or not isinstance(st.heap.get(cont.id), CsvTable):
            return NotImplemented
        t = st.heap[cont.id]
        rows, cols = self._shape(ex)
        if not (isinstance(key, tuple) and len(key) == 2 and key[0] != "slice"):
            raise Unsupported(f"csv model: subscript {key!r}")
        ex.assumed.add("T2: table[r, :] / table[a:b, c] / table[r, c] are numpy basic indexing (IndexError for an integer index out of range or a table "
                       "that is not two-dimensional)")
        if not st.decide(z3.And(rows >= 2, cols >= 2)):
            raise _raise("IndexError", lineno)
        S, F = st.ghost_get("csv_str", TAB_S), st.ghost_get("csv_flt", TAB_F)
        a, b = key
        is_slice = lambda x: isinstance(x, tuple) and x and x[0] == "slice"  # noqa: E731
        i = z3.Int("i!ct")
        if not is_slice(a) and is_slice(b):
            if b[1:] != (None, None, None) or t.kind != "s":
                raise Unsupported("csv model: only str_table[r, :]")
            r = self._index(ex, a, rows, lineno)
            el = st.fresh_const("csvrow", STR_ARR)
            st.assume(z3.ForAll([i], z3.Implies(z3.And(0 <= i, i < cols), el[i] == S[r][i]), patterns=[el[i]]))
            return st.alloc(ListObj(TStr, cols, el))
        if is_slice(a) and not is_slice(b):
            if a[3] is not None:
                raise Unsupported("csv model: row slice with a step")
            c = self._index(ex, b, cols, lineno)
            lo = z3.IntVal(0) if a[1] is None else ex.num(a[1])[0]
            hi = rows if a[2] is None else ex.num(a[2])[0]
            if st.solver.check(z3.Not(z3.And(0 <= lo, lo <= hi, hi <= rows))) == z3.unsat:
                n = z3.simplify(hi - lo)  # the bounds are known to lie in the table: no clamping
            else:
                lo, hi = z3.simplify(_clamp(lo, rows)), z3.simplify(_clamp(hi, rows))
                n = z3.simplify(z3.If(hi > lo, hi - lo, 0))
            if t.kind == "s":
                # (the elements are named by a constant array so that specifications about them can carry triggers)
                el = st.fresh_const("csvcol", STR_ARR)
                st.assume(z3.ForAll([i], z3.Implies(z3.And(0 <= i, i < n), el[i] == S[lo + i][c]), patterns=[el[i]]))
                part = ListObj(TStr, n, el)
                part.csv_part = (lo, hi, c)
                return st.alloc(part)
            sl = st.fresh_const("colpart", ValS)
            for f in slice_facts(sl, F, lo, hi, c, n):
                st.assume(f)
            return SV(sl, TNd)
        if not is_slice(a) and not is_slice(b):
            r, c = self._index(ex, a, rows, lineno), self._index(ex, b, cols, lineno)
            if t.kind == "s":
                return SV(S[r][c], TStr)
            return SV(F[r][c], TNd)
        raise Unsupported(f"csv model: subscript {key!r}")

    def contains(self, ex, cont, item, lineno):
        st = ex.st
        o = st.heap.get(cont.id) if isinstance(cont, Ref) else None
        if isinstance(o, ListObj) and getattr(o, "csv_part", None) is not None and _on(ex):
            ex.assumed.add("T3: `text in column_part` <=> some cell of the part has that text")
            lo, hi, c = o.csv_part
            r = z3.Int("r!nn")
            S = st.ghost_get("csv_str", TAB_S)
            return SV(z3.Exists([r], z3.And(lo <= r, r < hi, S[r][c] == TStr.embed(st, item))), TBool)
        return NotImplemented

    def call_method(self, ex, recv, name, args, kwargs, lineno):
        st = ex.st
        if not _on(ex):
            return NotImplemented
        if isinstance(recv, Ref) and isinstance(st.heap.get(recv.id), ListObj):
            o = st.heap[recv.id]
            if name == "tolist" and not args:
                return recv  # T2: the list of the texts of a str row / column part
            if name == "count" and len(args) == 1 and not o.is_empty_literal and o.t == TStr:
                ex.assumed.add("T4: list.count(x) = number of positions holding x (recursive specification function csv_count)")
                x = TStr.embed(st, args[0])
                c = csv_count(o.elems, x, o.n)
                st.assume(z3.And(0 <= c, c <= o.n))
                return SV(c, TInt)
        return NotImplemented

    def coerce(self, ex, v, t):
        if t == TStr and isinstance(v, str) and getattr(ex.contract, "c11_files", False):
            return SV(str_lit(v), TStr)  # a literal passed where a callee contract expects a symbolic string
        return NotImplemented

    def value_attr(self, ex, obj, attr, lineno):
        if attr == "eps" and _on(ex) and isinstance(obj, SV) and obj.ty == TNd:
            from .gmodels import opaque_apply

            return opaque_apply(ex, "attr_eps", [obj])  # finfo(float64).eps in DesignSpace.__init__: an opaque constant
        return NotImplemented

    # ------------------------------------------------------------------ ghost assertions of a contract (CHECKED, then usable as hypotheses)
    def before_stmt(self, ex, node):
        """``c11_asserts = {"<ast.unparse of a statement>": fn(c) -> [(label, formula)]}`` on a contract: intermediate assertions proved right
        before that statement (obligation kind ``safety``, label ``ghost-assert:<label>``) and available as hypotheses afterwards."""
        import ast

        fi = getattr(ex.frame, "finfo", None)
        if fi is None or fi is not ex.finfo:
            return NotImplemented
        asserts = getattr(ex.contract, "c11_asserts", None)
        if asserts:
            fn = asserts.get(ast.unparse(node).split("\n")[0])
            if fn is not None:
                for label, f in fn(ex._loop_ctx(None, None)):
                    ex.check(f, "safety", f"ghost-assert:{label}", node.lineno, aux=True)
        return NotImplemented

    # ------------------------------------------------------------------ DesignSpace()
    def construct(self, ex, cv, args, kwargs, lineno):
        if cv.qualname == DS and getattr(ex.contract, "c11_files", False) and not args and not kwargs:
            # DesignSpace(): __init__ only assigns literals ({} / 0 / None / False) and calls __clear_dependent_data
            from .values import TObj

            st = ex.st
            ex.assumed.add("DesignSpace() is the empty design space (model of __init__: dimension 0, no variable, no current value, flags False)")
            ref = TObj(DS).fresh(st, "new_ds")
            o = st.heap[ref.id]
            for f in ("_variables", "normalize", "_DesignSpace__names_to_indices", "_DesignSpace__current_value", "_DesignSpace__norm_current_value"):
                st.assume(st.heap[o.fields[f].id].n == 0)
            st.assume(o.fields["dimension"].term == 0)
            st.assume(z3.Not(o.fields["_DesignSpace__has_current_value"].term))
            st.assume(z3.Not(o.fields["_DesignSpace__norm_data_is_computed"].term))
            o.fresh_created = True
            return ref
        return NotImplemented
