"""C04 (result assembly / Pareto) plugin.  Every hook only fires for contracts that opt in with ``c04r = True``.

Modelled (real Python / numpy semantics; listed as assumptions of the functions that use them):

* ``itertools.islice(it, a, b)`` of a finite sequence with 0 <= a <= b: the elements a .. min(b, n) - 1, in order;
  ``next(it)``: the first element, ``StopIteration`` when the sequence is empty;
* ``-x`` of an optional real: the negated payload (``TypeError`` for None);
* construction of the dataclasses ``OptimizationResult`` / ``MultiObjectiveOptimizationResult``: a record holding the explicit keyword
  arguments and a snapshot of the ``**fields_`` dictionary (``TypeError`` when that dictionary has a key that is also passed explicitly or
  that is no field of the dataclass - CPython's "multiple values" / "unexpected keyword" errors); a field neither passed explicitly nor
  present in the dictionary has the default of the dataclass (read by the contract through ``field_of``);
* a nested function definition whose body is a single ``return <expr>``: a closure (as a lambda);
* ``numpy.full(n, b)`` / ``numpy.zeros(n)``, ``numpy.any(m, axis=1)`` of a rank-2 boolean array (row-wise disjunction; an array with no column
  gives False), ``numpy.all(v)`` of a rank-1 boolean array, iteration over the rows of nothing else than rank-1 arrays.
"""
from __future__ import annotations

import ast

import z3

from .npmodel import ArrObj, NumpyModel, _arr, _is_arr
from .values import BuiltinV, ClassV, DictObj, ListObj, RecV, Ref, SV, TBool, TInt, TOpt, TReal, TStr, TStruct, Unsupported, str_lit

_NP = NumpyModel()
ALL_OVERRIDE = True
RESULT_CLASSES = ("gemseo.algos.optimization_result.OptimizationResult",
                  "gemseo.algos.multiobjective_optimization_result.MultiObjectiveOptimizationResult")


def _on(ex):
    return getattr(ex.contract, "c04r", False)


class C04ResultModels:
    # ------------------------------------------------------------------ itertools / next / numpy
    def call_builtin(self, ex, name, args, kwargs, lineno, node=None):
        if not _on(ex):
            return NotImplemented
        from .engine import IterV, PyRaise

        st = ex.st
        if name in ("itertools.islice", "islice") and len(args) == 3 and not kwargs:
            seq = ex.to_iter(args[0], lineno)
            a, b = ex.num(args[1]), ex.num(args[2])
            if a is None or b is None or a[1] != TInt or b[1] != TInt:
                raise Unsupported("islice with non-int bounds")
            a, b = a[0], b[0]
            if not st.decide(z3.And(a >= 0, b >= 0)):
                raise PyRaise("ValueError", lineno)
            stop = z3.If(b < seq.n, b, seq.n)
            n = z3.simplify(z3.If(stop > a, stop - a, z3.IntVal(0)))
            ex.assumed.add("model: itertools.islice(it, a, b) of a finite sequence / next(it)")
            return IterV(n, lambda i: seq.elem(z3.simplify(a + i)))
        if name == "next" and len(args) == 1 and isinstance(args[0], IterV):
            seq = args[0]
            if not st.decide(seq.n >= 1):
                raise PyRaise("StopIteration", lineno)
            return seq.elem(z3.IntVal(0))
        return NotImplemented

    def unary(self, ex, op, v, lineno):
        if not _on(ex):
            return NotImplemented
        if op == "neg" and isinstance(v, SV) and isinstance(v.ty, TOpt) and v.ty.inner == TReal:
            from .engine import PyRaise

            if not ex.st.decide(z3.Not(v.ty.is_none(v.term))):
                raise PyRaise("TypeError", lineno)
            return SV(-v.ty.dt.get(v.term), TReal)
        return NotImplemented

    # ------------------------------------------------------------------ the result dataclasses
    def construct(self, ex, cv, args, kwargs, lineno):
        if not _on(ex) or cv.qualname not in RESULT_CLASSES:
            return NotImplemented
        from .engine import PyRaise

        st = ex.st
        if args:
            raise Unsupported("positional arguments of the result dataclass")
        names = dataclass_fields(cv.qualname)
        vals = {}
        extra = None
        for k, v in kwargs.items():
            if k == "**":
                extra = v
            elif k not in names:
                raise PyRaise("TypeError", lineno)
            else:
                vals[k] = v
        snap = None
        if extra is not None:
            d = st.heap[extra.id] if isinstance(extra, Ref) else None
            if not isinstance(d, DictObj) or d.k != TStr:
                raise Unsupported("**mapping of the result dataclass is not a dict of strings")
            kq = z3.Const("k!dc", TStr.sort())
            free = [n for n in names if n not in vals]
            ok = z3.ForAll([kq], z3.Implies(d.member[kq], z3.Or(*[kq == str_lit(n) for n in free]))) if free else d.n == 0
            if not st.decide(ok):
                raise PyRaise("TypeError", lineno)
            c = d.clone()
            c.origin = None
            snap = st.alloc(c)
        ex.assumed.add("model: dataclass construction (explicit keywords + snapshot of the **mapping, defaults otherwise)")
        return RecV(TStruct(cv.qualname, {}), {"__explicit__": vals, "__extra__": snap, **vals})

    def make_dict(self, ex, keys, vals):
        """A dict display with string keys and values that are None or opaque values: a dict of str -> Val (additional result fields)."""
        if not _on(ex) or any(k is None for k in keys):
            return NotImplemented
        from .values import TVal

        st = ex.st
        if all(isinstance(k, str) or (isinstance(k, SV) and k.ty == TStr) for k in keys) and all(v is None or (isinstance(v, SV) and v.ty == TVal) for v in vals):
            o = DictObj.empty(st, TStr, TVal, ordered=True)
            for k, v in zip(keys, vals):
                o.set(st, TStr.embed(st, k), TVal.embed(st, v))
            return st.alloc(o)
        return NotImplemented

    # ------------------------------------------------------------------ nested single-expression functions
    def nested_function(self, ex, node):
        if not _on(ex):
            return NotImplemented
        body = [s for s in node.body if not (isinstance(s, ast.Expr) and isinstance(s.value, ast.Constant))]
        if len(body) != 1 or not isinstance(body[0], ast.Return) or body[0].value is None or node.decorator_list:
            return NotImplemented
        a = node.args
        if a.vararg or a.kwarg or a.kwonlyargs or a.defaults or a.posonlyargs:
            return NotImplemented
        from .engine import LambdaV

        lam = ast.Lambda(args=a, body=body[0].value)
        ast.copy_location(lam, node)
        ex.frame.env[node.name] = LambdaV(lam, ex.frame)
        return True


def dataclass_fields(qualname):
    """Names of the dataclass fields (annotated class-level names that are not ClassVar / Final), bases first."""
    from . import source as S

    out = []
    for q in reversed(S.mro(qualname)):
        ci = S.load_class(q)
        if ci is None:
            continue
        for it in ci.node.body:
            if isinstance(it, ast.AnnAssign) and isinstance(it.target, ast.Name):
                ann = ast.unparse(it.annotation)
                if ann.startswith(("ClassVar", "Final")):
                    continue
                if it.target.id not in out:
                    out.append(it.target.id)
    return out


class C04NumpyModels:
    """numpy pieces of compute_pareto_optimal_points / ParetoFront.__get_optima (gated on ``c04r = True``)."""

    def call_builtin(self, ex, name, args, kwargs, lineno, node=None):
        if not _on(ex) or not name.startswith("numpy."):
            return NotImplemented
        fn = name[6:]
        if fn == "any" and len(args) == 1 and _is_arr(ex, args[0]) and set(kwargs) == {"axis"} and kwargs["axis"] == 1:
            A = _arr(ex, args[0])
            if A.rank == 2 and A.kind == "b":
                j = z3.Int("j!ax1")
                ex.assumed.add("model: numpy.any(m, axis=1) of a rank-2 boolean array (row-wise disjunction)")
                return _NP.new(ex, "b", (A.shape[0],), _NP.lam(1, lambda i: z3.Exists([j], z3.And(0 <= j, j < A.shape[1], A.at(i, j)))))
        if fn == "all" and ALL_OVERRIDE and len(args) == 1 and not kwargs and _is_arr(ex, args[0]):
            A = _arr(ex, args[0])
            if A.rank == 1 and A.kind == "b":
                return self._all_rank1(ex, A)
        return NotImplemented

    def _all_rank1(self, ex, A):
        """numpy.all(v) of a rank-1 boolean array: forall i in range: v[i] - beta-reduced, and triggered by the first read `a[.. i ..]` of an
        integer index list in its body (so that e-matching, not model-based instantiation, finds the instances)."""
        i = z3.Int("i!all")
        body = z3.simplify(A.elems[i])
        rng = z3.And(0 <= i, i < A.shape[0])
        pat = _index_read(body, i)
        if pat is not None:
            try:
                return SV(z3.ForAll([i], z3.Implies(rng, body), patterns=[pat]), TBool)
            except z3.Z3Exception:
                pass
        return SV(z3.ForAll([i], z3.Implies(rng, body)), TBool)

    def havoc_obj(self, ex, ref, o, hint):
        if not _on(ex) or not isinstance(o, ArrObj):
            return NotImplemented
        from .npmodel import arr_sort

        # an array listed in the `modifies` of a loop: same shape (numpy arrays are never resized in place), arbitrary content
        o.elems = ex.st.fresh_const(f"{hint}_el", arr_sort(o.kind, o.rank))
        o.src = None
        return True


class _CtxNumpy(NumpyModel):
    """npmodel's subscripts with bounds normalised in context: when the (quantifier-free part of the) path condition already implies that an
    index / slice bound is in range, the index is used as it is (no `If(i < 0, i + n, i)` / clamping terms).  Same semantics, smaller terms."""

    @staticmethod
    def _implied(ex, f):
        return ex.st.solver.check(z3.Not(f)) == z3.unsat

    def _norm_index(self, ex, i, n, lineno):
        if self._implied(ex, z3.And(i >= 0, i < n)):
            return z3.simplify(i)
        return super()._norm_index(ex, i, n, lineno)

    def _slice_bounds(self, ex, key, n):
        _, lo, hi, step = key
        if step is None:
            lo_t = z3.IntVal(0) if lo is None else ex.num(lo)[0]
            hi_t = n if hi is None else ex.num(hi)[0]
            if self._implied(ex, z3.And(0 <= lo_t, lo_t <= hi_t, hi_t <= n)):
                return z3.simplify(lo_t), z3.simplify(hi_t - lo_t)
        return super()._slice_bounds(ex, key, n)

    def _index_array(self, ex, key, n, lineno):
        st = ex.st
        if isinstance(key, Ref) and isinstance(st.heap[key.id], ListObj) and st.heap[key.id].t == TInt:
            # a list of ints as index: "every entry is in [0, n)" is a generated obligation (an IndexError otherwise; negative entries, which numpy
            # accepts, are reported too - no caller of the verified functions builds such a list); the entries are then used as they are.
            # The obligation names `list_entry_marker(j)` so that a contract can trigger its facts about the j-th entry on it.
            L = st.heap[key.id]
            j = z3.Int("j!ix")
            inr = z3.And(0 <= L.elems[j], L.elems[j] < n)
            mk = list_entry_marker(j)
            ex.check(z3.ForAll([j], z3.Implies(z3.And(0 <= j, j < L.n), z3.And(z3.Implies(mk, inr), z3.Implies(z3.Not(mk), inr)))), "safety", "index-list-entries-in-range", lineno,
                     aux=True, assume_after=False)
            return z3.simplify(L.n), (lambda t: L.elems[t])
        return super()._index_array(ex, key, n, lineno)


list_entry_marker = z3.Function("list_entry_marker", z3.IntSort(), z3.BoolSort())  # only a trigger
_CNP = _CtxNumpy()


class C04SubscriptModels:
    """Array subscripts through _CtxNumpy (gated on ``c04r = True``)."""

    def getitem(self, ex, cont, key, lineno):
        if not _on(ex) or not _is_arr(ex, cont):
            return NotImplemented
        return _CNP.getitem(ex, cont, key, lineno)

    def setitem(self, ex, cont, key, v, lineno):
        if not _on(ex) or not _is_arr(ex, cont):
            return NotImplemented
        return _CNP.setitem(ex, cont, key, v, lineno)


def _index_read(body, i):
    """First sub-term `a[e]` of `body` with `a` an uninterpreted Int -> Int array constant and `e` mentioning the bound constant i (None if there is none)."""
    stack, seen = [body], set()
    while stack:
        t = stack.pop()
        if t.get_id() in seen:
            continue
        seen.add(t.get_id())
        if z3.is_quantifier(t):
            stack.append(t.body())
            continue
        if z3.is_app(t):
            if t.decl().kind() == z3.Z3_OP_SELECT and t.num_args() == 2 and z3.is_const(t.arg(0)) and t.arg(0).decl().kind() == z3.Z3_OP_UNINTERPRETED \
                    and t.sort() == z3.IntSort() and _mentions(t.arg(1), i) and _no_ite(t.arg(1)):
                return t
            stack.extend(t.children())
    return None


def _mentions(t, i):
    if t.eq(i):
        return True
    return any(_mentions(c, i) for c in t.children())


def _no_ite(t):
    if z3.is_app(t) and t.decl().kind() == z3.Z3_OP_ITE:
        return False
    return all(_no_ite(c) for c in t.children())
