"""Matrix models needed by C07 (Jacobian assembly and coupled derivatives), gated on contracts declaring ``c07 = True``.

Part 1 - block placement (precise): a *matrix value* ``MatObj`` is a real rank-2 array with a format flag
(``sparse``: scipy.sparse matrix / dense ndarray).  Modelled operations (real numpy / scipy semantics on real data):
``.shape .real .copy() .diagonal() .setdiag(v) .T .toarray()``, ``numpy.fill_diagonal(a, v)``, unary minus,
``isinstance`` against ndarray / the scipy sparse base classes, ``builtins.slice``, comprehensions ``[None for _ in xs]`` and
``[d[x] for x in names]`` / ``sum(d[x] for x in names)`` (KeyError when a name is missing; the sum is the prefix-sum ghost
``psum_i`` of npmodel).
ASSUMED scipy contracts (never checked, listed in the evidence): ``scipy.sparse.eye(n)`` is the n x n identity,
``csr_matrix((r, c))`` is the r x c zero matrix, ``csr_matrix(m)`` has the content of ``m``, ``bmat(blocks)`` places block
(a, b) at (sum of the heights of the block rows before a, sum of the widths of the block columns before b) and zeros where a
block is None.

Part 2 - algebra (abstract): an uninterpreted sort ``Matrix`` with ``+ * neg transpose inv col row`` (contracts declaring
``c07 = "ring"``); the axioms are listed in ``ring_axioms`` and assumed by the contracts that use them.
"""
from __future__ import annotations

import ast

import z3

from .npmodel import ArrObj
from .values import (BoundMethod, BuiltinV, ClassV, DictObj, HeapObj, ListObj, Ref, SV, T, TBool, TInt, TList, TOpt, TReal, TRec, TStr,
                     Unsupported, _dt_cache)

INT_SEQ = z3.ArraySort(z3.IntSort(), z3.IntSort())
psum_i = z3.Function("psum_i", INT_SEQ, z3.IntSort(), z3.IntSort())  # the prefix-sum ghost of npmodel.vsum (same symbol)


def psum_axioms(*seqs):
    """Recursive definition of the prefix sums of the given integer sequences (ground arrays: only the index is quantified)."""
    k = z3.Int("k!ps")
    out = []
    for a in seqs:
        out += [psum_i(a, 0) == 0, z3.ForAll([k], z3.Implies(k >= 0, psum_i(a, k + 1) == psum_i(a, k) + a[k]), patterns=[psum_i(a, k + 1)])]
    return out


_sizes_seq = z3.Function("sizes_seq", z3.ArraySort(z3.IntSort(), TStr.sort()), z3.ArraySort(TStr.sort(), z3.IntSort()), INT_SEQ)


def sizes_of(names_elems, sizes_vals):
    """The sequence i -> sizes[names[i]] (an uninterpreted function of the two maps, defined by `sizes_axioms`; no lambda, so that
    prefix sums over it can be used in triggers)."""
    return _sizes_seq(names_elems, sizes_vals)


def sizes_axioms(names_elems, sizes_vals):
    i = z3.Int("i!szs")
    sq = sizes_of(names_elems, sizes_vals)
    return [z3.ForAll([i], sq[i] == sizes_vals[names_elems[i]], patterns=[sq[i]])] + psum_axioms(sq)


def off(names_elems, sizes_vals, k):
    """Offset of the k-th name: sum of the sizes of the names before it."""
    return psum_i(sizes_of(names_elems, sizes_vals), k)


# --------------------------------------------------------------------------- matrix values
class MatObj(HeapObj):
    """A real matrix: format flag (z3 Bool: scipy sparse matrix?), symbolic shape, elements."""

    src = None

    def __init__(self, sparse, shape, elems):
        self.sparse = sparse if not isinstance(sparse, bool) else z3.BoolVal(sparse)
        self.shape, self.elems = tuple(shape), elems

    def at(self, i, j):
        return z3.Select(self.elems, i, j)

    def clone(self):
        c = MatObj(self.sparse, self.shape, self.elems)
        c.origin, c.ty, c.src = self.origin, self.ty, self.src
        for n in ("bm",):
            if hasattr(self, n):
                setattr(c, n, getattr(self, n))
        return c


class _TMat(T):
    name = "Mat"

    def __init__(self):
        if "Mat" not in _dt_cache:
            dt = z3.Datatype("Mat")
            dt.declare("mk", ("m_sparse", z3.BoolSort()), ("m_d0", z3.IntSort()), ("m_d1", z3.IntSort()),
                       ("m_el", z3.ArraySort(z3.IntSort(), z3.IntSort(), z3.RealSort())))
            _dt_cache["Mat"] = dt.create()
        self.dt = _dt_cache["Mat"]

    def sort(self):
        return self.dt

    def embed(self, st, v):
        if isinstance(v, Ref):
            o = st.heap[v.id]
            if isinstance(o, MatObj):
                s = o.src
                if s is not None and s[1] is o.elems and s[2] is o.shape and s[3] is o.sparse:
                    return s[0]
                return self.dt.mk(o.sparse, o.shape[0], o.shape[1], o.elems)
            if isinstance(o, ArrObj) and o.rank == 2 and o.kind == "f":
                return self.dt.mk(z3.BoolVal(False), o.shape[0], o.shape[1], o.elems)
        if isinstance(v, SV) and v.ty == self:
            return v.term
        raise Unsupported(f"cannot embed {v!r} as a matrix")

    def project(self, st, term, origin=None):
        o = MatObj(self.sparse(term), (self.dim(term, 0), self.dim(term, 1)), self.els(term))
        o.origin, o.ty = origin, self
        o.src = (term, o.elems, o.shape, o.sparse)
        st.assume(o.shape[0] >= 0)
        st.assume(o.shape[1] >= 0)
        return st.alloc(o)

    def fresh(self, st, hint):
        return self.project(st, st.fresh_const(hint, self.dt))

    # spec helpers over embedded terms
    def sparse(self, term):
        return self.dt.accessor(0, 0)(term)

    def dim(self, term, j=0):
        return self.dt.accessor(0, 1 + j)(term)

    def els(self, term):
        return self.dt.accessor(0, 3)(term)

    def el(self, term, i, j):
        return z3.Select(self.els(term), i, j)


TMat = _TMat()
# storage format of a sparse matrix (uninterpreted: the contracts hold for every format)
mat_is_csr = z3.Function("mat_is_csr", TMat.sort(), z3.BoolSort())
mat_is_csc = z3.Function("mat_is_csc", TMat.sort(), z3.BoolSort())
OMat = TOpt(TMat)
ROW_OF_BLOCKS = TList(OMat)
GRID = TList(ROW_OF_BLOCKS)
SLICE = TRec("pyslice", {"start": TInt, "stop": TInt})


def grid_cell(grid_elems, a, b):
    """Block (a, b) of a list of lists of optional matrices (embedded Opt[Mat] term)."""
    return ROW_OF_BLOCKS.dt.accessor(0, 1)(grid_elems[a])[b]


def grid_row_len(grid_elems, a):
    return ROW_OF_BLOCKS.dt.accessor(0, 0)(grid_elems[a])


_GE = z3.ArraySort(z3.IntSort(), ROW_OF_BLOCKS.sort())
_grid_heights = z3.Function("grid_heights", _GE, INT_SEQ)
_grid_widths = z3.Function("grid_widths", _GE, INT_SEQ)


def grid_heights(grid_elems):
    """a -> number of rows of block (a, 0) (defined by `grid_axioms`)."""
    return _grid_heights(grid_elems)


def grid_widths(grid_elems):
    """b -> number of columns of block (0, b) (defined by `grid_axioms`)."""
    return _grid_widths(grid_elems)


def grid_axioms(grid_elems):
    a, b = z3.Int("a!gh"), z3.Int("b!gw")
    H, W = grid_heights(grid_elems), grid_widths(grid_elems)
    return [z3.ForAll([a], H[a] == TMat.dim(OMat.dt.get(grid_cell(grid_elems, a, z3.IntVal(0))), 0), patterns=[H[a]]),
            z3.ForAll([b], W[b] == TMat.dim(OMat.dt.get(grid_cell(grid_elems, z3.IntVal(0), b)), 1), patterns=[W[b]])] + psum_axioms(H, W)


# trigger functions (always true): give quantified block / entry facts a trigger that does not depend on the shape of array terms
trg_block = z3.Function("trg_block", z3.IntSort(), z3.IntSort(), z3.BoolSort())
trg_entry = z3.Function("trg_entry", z3.IntSort(), z3.IntSort(), z3.IntSort(), z3.IntSort(), z3.BoolSort())


def trigger_axioms():
    a, b, i, j = z3.Int("a!trg"), z3.Int("b!trg"), z3.Int("i!trg"), z3.Int("j!trg")
    return [z3.ForAll([a, b], trg_block(a, b), patterns=[trg_block(a, b)]), z3.ForAll([a, b, i, j], trg_entry(a, b, i, j), patterns=[trg_entry(a, b, i, j)])]


def _on(ex):
    return bool(getattr(ex.contract, "c07", False))


def _mat(ex, v):
    if isinstance(v, Ref):
        o = ex.st.heap.get(v.id)
        if isinstance(o, MatObj):
            return o
    return None


def _new(ex, sparse, shape, elems):
    o = MatObj(sparse, tuple(z3.simplify(s) for s in shape), elems)
    o.ty = TMat
    return ex.st.alloc(o)


def _lam2(f):
    i, j = z3.Int("i!m0"), z3.Int("j!m1")
    return z3.Lambda([i, j], f(i, j))


def _zmin(a, b):
    return z3.If(a < b, a, b)


SPARSE_NAMES = ("spmatrix", "sparray", "csr_matrix", "csc_matrix", "dok_matrix", "coo_matrix")


class C07Models:
    # ------------------------------------------------------------------ comprehensions
    def comprehension(self, ex, node, kind):
        if not _on(ex) or len(node.generators) != 1:
            return NotImplemented
        gen = node.generators[0]
        if gen.ifs or gen.is_async or kind not in ("list", "gen"):
            return NotImplemented
        st = ex.st
        elt = node.elt
        if kind == "list" and isinstance(elt, ast.ListComp) and len(elt.generators) == 1 and isinstance(elt.elt, ast.Constant) and elt.elt.value is None \
                and not elt.generators[0].ifs and getattr(ex.contract, "none_elem_type", None) is not None:
            # [[None for _ in xs] for _ in ys]: len(ys) lists of len(xs) None's
            ty = ex.contract.none_elem_type
            inner = ex.to_iter(ex.ev(elt.generators[0].iter), node.lineno)
            outer = ex.to_iter(ex.ev(gen.iter), node.lineno)
            row_t = TList(ty)
            row = row_t.dt.mk(inner.n, z3.K(z3.IntSort(), ty.dt.none))
            o = ListObj(row_t, outer.n, z3.K(z3.IntSort(), row))
            o.ty = TList(row_t)
            return st.alloc(o)
        if kind == "list" and isinstance(elt, ast.Constant) and elt.value is None:
            # [None for _ in xs]: a list of len(xs) None's, typed by the contract (none_elem_type: an Opt type)
            ty = getattr(ex.contract, "none_elem_type", None)
            if ty is None:
                return NotImplemented
            seq = ex.to_iter(ex.ev(gen.iter), node.lineno)
            o = ListObj(ty, seq.n, z3.K(z3.IntSort(), ty.dt.none))
            o.ty = TList(ty)
            return st.alloc(o)
        if isinstance(elt, ast.Subscript) and isinstance(gen.target, ast.Name) and isinstance(elt.slice, ast.Name) and elt.slice.id == gen.target.id:
            # [d[x] for x in names] / (d[x] for x in names) over a symbolic list of names: KeyError iff some name is missing
            from .engine import IterV, PyRaise

            src = ex.ev(gen.iter)
            if not (isinstance(src, Ref) and isinstance(st.heap[src.id], ListObj)):
                return NotImplemented
            L = st.heap[src.id]
            if L.is_empty_literal or z3.is_int_value(z3.simplify(L.n)):
                return NotImplemented
            d = ex.ev(elt.value)
            if not (isinstance(d, Ref) and isinstance(st.heap[d.id], DictObj)):
                return NotImplemented
            D = st.heap[d.id]
            if D.is_empty_literal or D.k.sort() != L.t.sort() or D.v != TInt:
                return NotImplemented
            i = z3.Int("i!lk")
            if not st.decide(z3.ForAll([i], z3.Implies(z3.And(0 <= i, i < L.n), D.member[L.elems[i]]))):
                raise PyRaise("KeyError", node.lineno)
            seqterm = sizes_of(L.elems, D.vals)
            if kind == "list":
                for f in sizes_axioms(L.elems, D.vals):
                    st.assume(f)
                o = ListObj(TInt, L.n, seqterm)
                o.ty = TList(TInt)
                return st.alloc(o)
            it = IterV(L.n, lambda j: SV(D.vals[L.elems[j]], TInt))
            it.elem_type = TInt
            it.int_seq, it.seq_axioms = seqterm, sizes_axioms(L.elems, D.vals)
            return it
        return NotImplemented

    # ------------------------------------------------------------------ builtins / numpy / scipy functions
    def call_builtin(self, ex, name, args, kwargs, lineno, node=None):
        if not _on(ex):
            return NotImplemented
        from .engine import IterV, PyRaise

        st = ex.st
        if name == "sum" and len(args) == 1 and isinstance(args[0], IterV) and getattr(args[0], "int_seq", None) is not None:
            for f in args[0].seq_axioms:
                st.assume(f)
            ex.assumed.add("axiom:prefix-sum ghost psum_i (recursive definition of the sum of an integer sequence)")
            return SV(psum_i(args[0].int_seq, args[0].n), TInt)
        if name == "slice" and len(args) == 2 and all(ex.num(a) is not None for a in args):
            return SLICE.mk(st, start=SV(ex.num(args[0])[0], TInt), stop=SV(ex.num(args[1])[0], TInt))
        if name == "numpy.fill_diagonal" and len(args) == 2 and _mat(ex, args[0]) is not None:
            return self._set_diagonal(ex, args[0], args[1], lineno)
        if name == "scipy.sparse.eye" and len(args) == 1 and ex.num(args[0]) is not None:
            n = ex.num(args[0])[0]
            if not st.decide(n >= 0):
                raise PyRaise("ValueError", lineno)
            ex.assumed.add("assumed scipy contract: scipy.sparse.eye(n) is the n x n sparse identity matrix")
            return _new(ex, True, (n, n), _lam2(lambda i, j: z3.If(i == j, z3.RealVal(1), z3.RealVal(0))))
        if name in ("scipy.sparse.csr_matrix", "scipy.sparse.csc_matrix") and len(args) == 1:
            a0 = args[0]
            if isinstance(a0, tuple) and len(a0) == 2 and all(ex.num(x) is not None for x in a0):
                r, c = ex.num(a0[0])[0], ex.num(a0[1])[0]
                if not st.decide(z3.And(r >= 0, c >= 0)):
                    raise PyRaise("ValueError", lineno)
                ex.assumed.add("assumed scipy contract: csr_matrix((r, c)) is the r x c sparse zero matrix")
                return _new(ex, True, (r, c), _lam2(lambda i, j: z3.RealVal(0)))
            A = _mat(ex, a0)
            if A is not None:
                ex.assumed.add("assumed scipy contract: csr_matrix(m) / csc_matrix(m) is a sparse matrix with the shape and the entries of m")
                return _new(ex, True, A.shape, A.elems)
        if name == "scipy.sparse.bmat" and len(args) == 1:
            return self._bmat(ex, args[0], lineno)
        return NotImplemented

    def _set_diagonal(self, ex, mref, v, lineno):
        """numpy.fill_diagonal(a, v) / sparse.setdiag(v) with len(v) = min(shape): a[k, k] = v[k]."""
        A = _mat(ex, mref)
        if not (isinstance(v, Ref) and isinstance(ex.st.heap[v.id], ArrObj) and ex.st.heap[v.id].rank == 1):
            raise Unsupported("diagonal values that are not a vector")
        V = ex.st.heap[v.id]
        m = _zmin(A.shape[0], A.shape[1])
        if not ex.st.decide(V.shape[0] == m):
            raise Unsupported("fill_diagonal / setdiag with a value vector whose length is not the diagonal length")
        old = A.elems
        vk = V.elems
        conv = (lambda t: t) if V.kind == "f" else (lambda t: z3.ToReal(t))
        A.elems = _lam2(lambda i, j: z3.If(z3.And(i == j, 0 <= i, i < m), conv(vk[i]), z3.Select(old, i, j)))
        ex.writeback(A)
        return None

    def _bmat(self, ex, grid, lineno):
        st = ex.st
        if not (isinstance(grid, Ref) and isinstance(st.heap[grid.id], ListObj) and st.heap[grid.id].t == ROW_OF_BLOCKS):
            raise Unsupported("bmat of something else than a list of lists of optional matrices")
        G = st.heap[grid.id]
        ge = G.elems
        nf = G.n
        nv = grid_row_len(ge, z3.IntVal(0))
        a, b, i, j = z3.Int("a!bm"), z3.Int("b!bm"), z3.Int("i!bm"), z3.Int("j!bm")
        cell = lambda x, y: grid_cell(ge, x, y)  # noqa: E731
        some = lambda x, y: z3.Not(OMat.is_none(cell(x, y)))  # noqa: E731
        get = lambda x, y: OMat.dt.get(cell(x, y))  # noqa: E731
        ra, rb = z3.And(0 <= a, a < nf), z3.And(0 <= b, b < nv, trg_block(a, b))  # (trg_block: always true, names the instance for the provers)
        for f in trigger_axioms():
            st.assume(f)
        # precondition of the assumed contract (a sufficient condition for scipy to accept the blocks)
        ex.check(z3.And(nf >= 1, nv >= 1), "pre", "bmat:at-least-one-block-row-and-column", lineno, aux=True)
        ex.check(z3.ForAll([a], z3.Implies(z3.And(ra, trg_block(a, 0)), grid_row_len(ge, a) == nv), patterns=[trg_block(a, 0)]), "pre", "bmat:rectangular-grid", lineno, aux=True)
        ex.check(z3.ForAll([a], z3.Implies(z3.And(ra, trg_block(a, 0)), some(a, z3.IntVal(0))), patterns=[trg_block(a, 0)]), "pre", "bmat:first-block-column-is-filled", lineno, aux=True)
        ex.check(z3.ForAll([b], z3.Implies(z3.And(0 <= b, b < nv, trg_block(0, b)), some(z3.IntVal(0), b)), patterns=[trg_block(0, b)]), "pre", "bmat:first-block-row-is-filled", lineno,
                 aux=True)
        ex.check(z3.ForAll([a, b], z3.Implies(z3.And(ra, rb, trg_block(a, 0), trg_block(0, b), some(a, b)), z3.And(TMat.dim(get(a, b), 0) == TMat.dim(get(a, z3.IntVal(0)), 0),
                                                                                                                  TMat.dim(get(a, b), 1) == TMat.dim(get(z3.IntVal(0), b), 1))),
                           patterns=[trg_block(a, b)]), "pre", "bmat:block-shapes-are-compatible", lineno, aux=True)
        H, W = grid_heights(ge), grid_widths(ge)
        for f in grid_axioms(ge):
            st.assume(f)
        E = st.fresh_const("bmat", z3.ArraySort(z3.IntSort(), z3.IntSort(), z3.RealSort()))
        val = z3.If(OMat.is_none(cell(a, b)), z3.RealVal(0), TMat.el(get(a, b), i, j))
        placed = z3.Select(E, psum_i(H, a) + i, psum_i(W, b) + j)
        st.assume(z3.ForAll([a, b, i, j], z3.Implies(z3.And(ra, rb, 0 <= i, i < H[a], 0 <= j, j < W[b]), placed == val),
                            patterns=[trg_entry(a, b, i, j)]))
        ex.assumed.add("assumed scipy contract: bmat(blocks) has shape (sum of block-row heights, sum of block-column widths), block (a, b) placed at "
                       "the offsets given by the prefix sums of the heights / widths, zeros where a block is None")
        r = _new(ex, True, (psum_i(H, nf), psum_i(W, nv)), E)
        st.heap[r.id].bm = (H, W, nf, nv)
        steps = getattr(ex.contract, "bmat_steps", None)
        if steps is not None:
            # proof steps of the contract about the assembled matrix: checked here, then available as hypotheses
            for label, f in steps(ex, st.heap[r.id]):
                ex.check(f, "safety", f"proof-step:{label}", lineno, aux=True)
        return r

    # ------------------------------------------------------------------ attributes and methods of matrices
    def ref_attr(self, ex, obj, o, attr, lineno):
        if isinstance(o, MatObj):
            return self.value_attr(ex, obj, attr, lineno)
        if attr == "jac" and isinstance(o, DictObj) and _on(ex) and getattr(ex.contract, "disciplines_are_jac_dicts", False):
            return obj  # a discipline is represented by its `jac` dict (the only thing the assembly reads of it)
        return NotImplemented

    def value_attr(self, ex, obj, attr, lineno):
        A = _mat(ex, obj)
        if A is None:
            return NotImplemented
        if attr == "shape":
            return (SV(A.shape[0], TInt), SV(A.shape[1], TInt))
        if attr == "real":
            return obj  # real data
        if attr == "T":
            return _new(ex, A.sparse, (A.shape[1], A.shape[0]), _lam2(lambda i, j: A.at(j, i)))
        return BoundMethod(obj, None, f"mat.{attr}")

    def call_method(self, ex, recv, name, args, kwargs, lineno):
        if not (isinstance(name, str) and name.startswith("mat.")):
            return NotImplemented
        A = _mat(ex, recv)
        if A is None:
            return NotImplemented
        name = name[4:]
        if name == "copy" and not args:
            return _new(ex, A.sparse, A.shape, A.elems)
        if name == "diagonal" and not args and not kwargs:
            d = ArrObj("f", (z3.simplify(_zmin(A.shape[0], A.shape[1])),), z3.Lambda([z3.Int("i!dg")], A.at(z3.Int("i!dg"), z3.Int("i!dg"))))
            return ex.st.alloc(d)
        if name == "setdiag" and len(args) == 1 and not kwargs:
            return self._set_diagonal(ex, recv, args[0], lineno)
        if name in ("toarray", "todense") and not args:
            return _new(ex, False, A.shape, A.elems)
        if name in ("tocsr", "tocsc") and not args and not kwargs:
            # scipy: only sparse matrices have the conversion methods; converting a matrix that already has the requested format
            # (copy=False, the default) returns THE SAME OBJECT, any other format allocates a new matrix with the same entries
            from .engine import PyRaise

            if not ex.st.decide(A.sparse):
                raise PyRaise("AttributeError", lineno)
            fmt = mat_is_csr if name == "tocsr" else mat_is_csc
            if ex.st.decide(fmt(TMat.embed(ex.st, recv))):
                return recv
            r = _new(ex, True, A.shape, A.elems)
            ex.st.assume(fmt(TMat.embed(ex.st, r)))
            return r
        raise Unsupported(f"matrix method {name}")

    def havoc_obj(self, ex, ref, o, hint):
        if not isinstance(o, MatObj):
            return NotImplemented
        t = ex.st.fresh_const(hint, TMat.sort())
        o.sparse, o.shape, o.elems, o.src = TMat.sparse(t), (TMat.dim(t, 0), TMat.dim(t, 1)), TMat.els(t), None
        ex.st.assume(z3.And(o.shape[0] >= 0, o.shape[1] >= 0))
        ex.writeback(o)
        return True

    def unary(self, ex, op, v, lineno):
        A = _mat(ex, v)
        if A is None:
            return NotImplemented
        if op == "neg":
            return _new(ex, A.sparse, A.shape, _lam2(lambda i, j: -A.at(i, j)))
        raise Unsupported(f"unary {op} on a matrix")

    def isinstance_(self, ex, v, cls):
        A = _mat(ex, v)
        if A is None:
            return NotImplemented
        classes = cls if isinstance(cls, tuple) else (cls,)
        shorts = [(c.name if isinstance(c, BuiltinV) else getattr(c, "qualname", "?")).rsplit(".", 1)[-1] for c in classes]
        dense = any(s == "ndarray" for s in shorts)
        sparse = any(s in SPARSE_NAMES for s in shorts)
        if dense and sparse:
            return True
        if dense:
            return ex.st.decide(z3.Not(A.sparse))
        if sparse:
            return ex.st.decide(A.sparse)
        return False

    def module_constant(self, ex, mi, name):
        if name == "READ_ONLY_EMPTY_DICT" and _on(ex):
            return ex.models.make_dict(ex, [], [])  # MappingProxyType({}): an empty mapping
        return NotImplemented

    def class_constant(self, ex, ci, name):
        if name == "DerivationMode" and ci.qualname.endswith(("JacobianAssembly", "CoupledSystem")):
            return ClassV("gemseo.core.derivatives.derivation_modes.DerivationMode")
        return NotImplemented


# =========================================================================== Part 2: abstract matrix ring
MatrixS = z3.DeclareSort("Matrix")
_MM = (MatrixS, MatrixS)
madd = z3.Function("m_add", *_MM, MatrixS)
mmul = z3.Function("m_mul", *_MM, MatrixS)
mneg = z3.Function("m_neg", MatrixS, MatrixS)
mtr = z3.Function("m_transpose", MatrixS, MatrixS)
minv = z3.Function("m_inverse", MatrixS, MatrixS)
mcol = z3.Function("m_col", MatrixS, z3.IntSort(), MatrixS)  # column j as an n x 1 matrix
mrow = z3.Function("m_row", MatrixS, z3.IntSort(), MatrixS)  # row i as a 1 x n matrix
nrows = z3.Function("m_nrows", MatrixS, z3.IntSort())
ncols = z3.Function("m_ncols", MatrixS, z3.IntSort())
set_col = z3.Function("m_set_col", MatrixS, z3.IntSort(), MatrixS, MatrixS)
set_row = z3.Function("m_set_row", MatrixS, z3.IntSort(), MatrixS, MatrixS)
ext_q = z3.Function("trg_matrix_equality", *_MM, z3.BoolSort())  # always-true trigger function: names a pair of matrices to compare
diff_col = z3.Function("m_differing_col", *_MM, z3.IntSort())
diff_row = z3.Function("m_differing_row", *_MM, z3.IntSort())


mat_of = z3.Function("m_of_concrete_matrix", TMat.sort(), MatrixS)  # abstraction: the ring element a concrete real matrix stands for


def msolve(a, b):
    """The exact solution of a x = b for an invertible a."""
    return mmul(minv(a), b)


# ---- linear operators (scipy.sparse.linalg.LinearOperator): an operator denotes a (possibly complex) matrix A;
# matvec(x) = A x, rmatvec(x) = A^H x (conjugate transpose: `m_adjoint`), `m_real_part` is the entry-wise real part
madj = z3.Function("m_adjoint", MatrixS, MatrixS)
mre = z3.Function("m_real_part", MatrixS, MatrixS)
is_real = z3.Function("m_is_real", MatrixS, z3.BoolSort())
midentity = z3.Function("m_identity", z3.IntSort(), MatrixS)
op_dtype = z3.Function("operator_dtype", MatrixS, z3.DeclareSort("NpDtype"))


def operator_axioms():
    """Textbook identities of the conjugate transpose and of distributivity used by the operator contracts (ASSUMED, listed)."""
    X, Y, Z = (z3.Const(n, MatrixS) for n in ("X!oa", "Y!oa", "Z!oa"))
    FA = z3.ForAll
    return [
        ("adjoint-involution: (X^H)^H = X", FA([X], madj(madj(X)) == X, patterns=[madj(madj(X))])),
        ("adjoint-of-sum: (X+Y)^H = X^H + Y^H", FA([X, Y], madj(madd(X, Y)) == madd(madj(X), madj(Y)), patterns=[madj(madd(X, Y))])),
        ("adjoint-of-opposite: (-X)^H = -(X^H)", FA([X], madj(mneg(X)) == mneg(madj(X)), patterns=[madj(mneg(X))])),
        ("adjoint-of-product: (XY)^H = Y^H X^H", FA([X, Y], madj(mmul(X, Y)) == mmul(madj(Y), madj(X)), patterns=[madj(mmul(X, Y))])),
        ("adjoint-of-a-real-matrix-is-its-transpose", FA([X], z3.Implies(is_real(X), madj(X) == mtr(X)), patterns=[madj(X)])),
        ("right-distributivity: (X+Y)Z = XZ + YZ", FA([X, Y, Z], mmul(madd(X, Y), Z) == madd(mmul(X, Z), mmul(Y, Z)), patterns=[mmul(madd(X, Y), Z)])),
        ("product-with-opposite: (-X)Z = -(XZ)", FA([X, Z], mmul(mneg(X), Z) == mneg(mmul(X, Z)), patterns=[mmul(mneg(X), Z)])),
        ("associativity: (XY)Z = X(YZ)", FA([X, Y, Z], mmul(mmul(X, Y), Z) == mmul(X, mmul(Y, Z)), patterns=[mmul(mmul(X, Y), Z)])),
        ("shape-of-adjoint", FA([X], z3.And(nrows(madj(X)) == ncols(X), ncols(madj(X)) == nrows(X)), patterns=[madj(X)])),
        ("shape-of-transpose", FA([X], z3.And(nrows(mtr(X)) == ncols(X), ncols(mtr(X)) == nrows(X)), patterns=[mtr(X)])),
        ("shape-of-product", FA([X, Y], z3.And(nrows(mmul(X, Y)) == nrows(X), ncols(mmul(X, Y)) == ncols(Y)), patterns=[mmul(X, Y)])),
        ("shape-of-sum", FA([X, Y], z3.And(nrows(madd(X, Y)) == nrows(X), ncols(madd(X, Y)) == ncols(X)), patterns=[madd(X, Y)])),
        ("shape-of-opposite", FA([X], z3.And(nrows(mneg(X)) == nrows(X), ncols(mneg(X)) == ncols(X)), patterns=[mneg(X)])),
    ]


def ring_axioms():
    """Textbook identities of the matrix ring used by the proofs (ASSUMED; every one is listed in the evidence)."""
    X, Y, Z, v = (z3.Const(n, MatrixS) for n in ("X!ra", "Y!ra", "Z!ra", "v!ra"))
    i, j = z3.Int("i!ra"), z3.Int("j!ra")
    FA = z3.ForAll
    return [
        ("column-of-product: col(XY, j) = X col(Y, j)", FA([X, Y, j], mcol(mmul(X, Y), j) == mmul(X, mcol(Y, j)), patterns=[mcol(mmul(X, Y), j)])),
        ("column-of-opposite: col(-X, j) = -col(X, j)", FA([X, j], mcol(mneg(X), j) == mneg(mcol(X, j)), patterns=[mcol(mneg(X), j)])),
        ("row-of-product: row(XY, i) = row(X, i) Y", FA([X, Y, i], mrow(mmul(X, Y), i) == mmul(mrow(X, i), Y), patterns=[mrow(mmul(X, Y), i)])),
        ("row-of-opposite: row(-X, i) = -row(X, i)", FA([X, i], mrow(mneg(X), i) == mneg(mrow(X, i)), patterns=[mrow(mneg(X), i)])),
        ("row-of-sum: row(X+Y, i) = row(X, i) + row(Y, i)", FA([X, Y, i], mrow(madd(X, Y), i) == madd(mrow(X, i), mrow(Y, i)), patterns=[mrow(madd(X, Y), i)])),
        ("product-with-opposite: X(-Y) = -(XY) = (-X)Y", FA([X, Y], z3.And(mmul(X, mneg(Y)) == mneg(mmul(X, Y)), mmul(mneg(X), Y) == mneg(mmul(X, Y))), patterns=[mmul(X, mneg(Y)), mmul(mneg(X), Y)])),
        ("associativity: (XY)Z = X(YZ)", FA([X, Y, Z], mmul(mmul(X, Y), Z) == mmul(X, mmul(Y, Z)), patterns=[mmul(mmul(X, Y), Z), mmul(X, mmul(Y, Z))])),
        ("transpose-of-product: (XY)^T = Y^T X^T", FA([X, Y], mtr(mmul(X, Y)) == mmul(mtr(Y), mtr(X)), patterns=[mtr(mmul(X, Y))])),
        ("transpose-involution: (X^T)^T = X", FA([X], mtr(mtr(X)) == X, patterns=[mtr(mtr(X))])),
        ("transpose-of-opposite: (-X)^T = -(X^T)", FA([X], mtr(mneg(X)) == mneg(mtr(X)), patterns=[mtr(mneg(X))])),
        ("inverse-of-transpose: (X^T)^-1 = (X^-1)^T", FA([X], minv(mtr(X)) == mtr(minv(X)), patterns=[minv(mtr(X))])),
        ("shape-of-set-col", FA([X, j, v], z3.And(nrows(set_col(X, j, v)) == nrows(X), ncols(set_col(X, j, v)) == ncols(X)), patterns=[set_col(X, j, v)])),
        ("set-col: the written column is read back, the others are kept", FA([X, j, v, i], mcol(set_col(X, j, v), i) == z3.If(i == j, v, mcol(X, i)), patterns=[mcol(set_col(X, j, v), i)])),
        ("shape-of-set-row", FA([X, j, v], z3.And(nrows(set_row(X, j, v)) == nrows(X), ncols(set_row(X, j, v)) == ncols(X)), patterns=[set_row(X, j, v)])),
        ("set-row: the written row is read back, the others are kept", FA([X, j, v, i], mrow(set_row(X, j, v), i) == z3.If(i == j, v, mrow(X, i)), patterns=[mrow(set_row(X, j, v), i)])),
        ("shape-of-product", FA([X, Y], z3.And(nrows(mmul(X, Y)) == nrows(X), ncols(mmul(X, Y)) == ncols(Y)), patterns=[mmul(X, Y)])),
        ("shape-of-opposite", FA([X], z3.And(nrows(mneg(X)) == nrows(X), ncols(mneg(X)) == ncols(X)), patterns=[mneg(X)])),
        ("shape-of-sum", FA([X, Y], z3.And(nrows(madd(X, Y)) == nrows(X), ncols(madd(X, Y)) == ncols(X)), patterns=[madd(X, Y)])),
        ("shape-of-inverse", FA([X], z3.And(nrows(minv(X)) == ncols(X), ncols(minv(X)) == nrows(X)), patterns=[minv(X)])),
        ("extensionality-by-columns: same shape and same columns => equal", FA([X, Y], z3.Implies(z3.And(ext_q(X, Y), nrows(X) == nrows(Y), ncols(X) == ncols(Y), X != Y), z3.And(
            0 <= diff_col(X, Y), diff_col(X, Y) < ncols(X), mcol(X, diff_col(X, Y)) != mcol(Y, diff_col(X, Y)))), patterns=[ext_q(X, Y)])),
        ("extensionality-by-rows: same shape and same rows => equal", FA([X, Y], z3.Implies(z3.And(ext_q(X, Y), nrows(X) == nrows(Y), ncols(X) == ncols(Y), X != Y), z3.And(
            0 <= diff_row(X, Y), diff_row(X, Y) < nrows(X), mrow(X, diff_row(X, Y)) != mrow(Y, diff_row(X, Y)))), patterns=[ext_q(X, Y)])),
        ("trigger-function (always true)", FA([X, Y], ext_q(X, Y), patterns=[ext_q(X, Y)])),
    ]


JACOBIAN_OPERATOR = "gemseo.core.derivatives.jacobian_operator.JacobianOperator"


class RingObj(HeapObj):
    """A mutable matrix of the abstract ring (a numpy array / scipy matrix whose entries are not modelled)."""

    def __init__(self, term):
        self.term = term

    def clone(self):
        c = RingObj(self.term)
        c.origin, c.ty = self.origin, self.ty
        return c


class _TRing(T):
    name = "Matrix"

    def sort(self):
        return MatrixS

    def embed(self, st, v):
        if isinstance(v, Ref) and isinstance(st.heap.get(v.id), RingObj):
            return st.heap[v.id].term
        if isinstance(v, SV) and v.ty == self:
            return v.term
        raise Unsupported(f"cannot embed {v!r} as an abstract matrix")

    def project(self, st, term, origin=None):
        o = RingObj(term)
        o.origin, o.ty = origin, self
        st.assume(z3.And(nrows(term) >= 0, ncols(term) >= 0))
        return st.alloc(o)

    def fresh(self, st, hint):
        return self.project(st, st.fresh_const(hint, MatrixS))


TRing = _TRing()


class _TOp(T):
    """An abstract linear operator (a scipy LinearOperator whose implementation is not looked at): the value IS the matrix it denotes."""

    name = "LinearOperator"

    def sort(self):
        return MatrixS

    def embed(self, st, v):
        if isinstance(v, SV) and v.ty == self:
            return v.term
        raise Unsupported(f"cannot embed {v!r} as an abstract linear operator")

    def fresh(self, st, hint):
        t = st.fresh_const(hint, MatrixS)
        st.assume(z3.And(nrows(t) >= 0, ncols(t) >= 0))
        return SV(t, self)


TOp = _TOp()
NPDTYPE = op_dtype.range()


class _TDtypeOpaque(T):
    name = "NpDtype"

    def sort(self):
        return NPDTYPE

    def embed(self, st, v):
        if isinstance(v, SV) and v.ty == self:
            return v.term
        raise Unsupported(f"cannot embed {v!r} as a dtype")


TDtype = _TDtypeOpaque()
LSF = TRec("LinearSolverLibraryFactory", {})  # the linear solver factory: only `execute` is used (assumed exact solver)


def _ring(ex, v):
    if isinstance(v, Ref):
        o = ex.st.heap.get(v.id)
        if isinstance(o, RingObj):
            return o
    return None


def _rnew(ex, term):
    return TRing.project(ex.st, term)


def _is_full_slice(k):
    return isinstance(k, tuple) and len(k) == 4 and k[0] == "slice" and k[1] is None and k[2] is None and k[3] is None


class FactorizedV:
    """The solver function returned by scipy.sparse.linalg.factorized(lhs)."""

    def __init__(self, lhs):
        self.lhs = lhs


class _TNpFloat(T):
    """A numpy.float64 scalar (norms, residual ratios): a real; its division never raises."""

    name = "NpFloat64"

    def sort(self):
        return z3.RealSort()

    def embed(self, st, v):
        if isinstance(v, SV) and v.ty == self:
            return v.term
        raise Unsupported(f"cannot embed {v!r} as a numpy float")


TNpFloat = _TNpFloat()


class C07RingModels:
    """Operations on abstract matrices (contracts with ``c07 = "ring"``): shapes are tracked, entries are not."""

    def _on(self, ex):
        return getattr(ex.contract, "c07", None) == "ring"

    def call_builtin(self, ex, name, args, kwargs, lineno, node=None):
        if not self._on(ex):
            return NotImplemented
        if name == "numpy.dtype" and len(args) == 1 and isinstance(args[0], BuiltinV):
            return SV(z3.Const(f"np_dtype_{args[0].name.replace('.', '_')}", NPDTYPE), TDtype)
        if name in ("scipy.sparse.csc_matrix", "scipy.sparse.csr_matrix") and len(args) == 1 and _ring(ex, args[0]) is not None:
            return _rnew(ex, _ring(ex, args[0]).term)  # another storage format of the same matrix
        if name == "scipy.sparse.linalg.factorized" and len(args) == 1 and _ring(ex, args[0]) is not None:
            ex.assumed.add("assumed scipy contract: factorized(A) returns a function solving A x = b exactly (x = A^-1 b, invertible A)")
            return FactorizedV(_ring(ex, args[0]).term)
        if name == "numpy.linalg.norm" and len(args) == 1 and _ring(ex, args[0]) is not None:
            r = ex.st.fresh_const("norm", z3.RealSort())
            ex.st.assume(r >= 0)
            return SV(r, TNpFloat)
        if name == "numpy.empty" and len(args) == 1 and isinstance(args[0], tuple) and len(args[0]) == 2 and all(ex.num(x) is not None for x in args[0]):
            from .engine import PyRaise

            r, c = ex.num(args[0][0])[0], ex.num(args[0][1])[0]
            if not ex.st.decide(z3.And(r >= 0, c >= 0)):
                raise PyRaise("ValueError", lineno)
            m = ex.st.fresh_const("empty", MatrixS)
            ex.st.assume(z3.And(nrows(m) == r, ncols(m) == c))
            return _rnew(ex, m)
        return NotImplemented

    def construct(self, ex, cv, args, kwargs, lineno):
        if self._on(ex) and cv.qualname.endswith("linear_problem.LinearProblem") and len(args) in (1, 2) and not kwargs:
            from .values import PyObj

            lhs = args[0]
            if _mat(ex, lhs) is not None:
                # a concrete (assembled) matrix handed to the solver: the element of the ring it stands for
                lhs = _rnew(ex, mat_of(TMat.embed(ex.st, lhs)))
            if _ring(ex, lhs) is None or (len(args) == 2 and _ring(ex, args[1]) is None):
                return NotImplemented
            return ex.st.alloc(PyObj(cv.qualname, {"lhs": lhs, "rhs": args[1] if len(args) == 2 else None, "solution": None,
                                                   "is_converged": SV(ex.st.fresh_const("is_converged", z3.BoolSort()), TBool)}))
        return NotImplemented

    def getitem(self, ex, cont, key, lineno):
        if self._on(ex) and isinstance(cont, tuple) and key == ("slice", None, None, -1):
            return cont[::-1]  # shape[::-1]
        A = _ring(ex, cont)
        if A is None:
            return NotImplemented
        from .engine import PyRaise

        if isinstance(key, tuple) and len(key) == 2:
            r, c = key
            if _is_full_slice(r) and ex.num(c) is not None:
                j = ex.num(c)[0]
                if not ex.st.decide(z3.And(j >= -ncols(A.term), j < ncols(A.term))):
                    raise PyRaise("IndexError", lineno)
                return _rnew(ex, mcol(A.term, z3.If(j < 0, j + ncols(A.term), j) if not ex.st.decide(j >= 0) else j))
            if _is_full_slice(c) and ex.num(r) is not None:
                i = ex.num(r)[0]
                if not ex.st.decide(z3.And(i >= -nrows(A.term), i < nrows(A.term))):
                    raise PyRaise("IndexError", lineno)
                return _rnew(ex, mrow(A.term, z3.If(i < 0, i + nrows(A.term), i) if not ex.st.decide(i >= 0) else i))
        raise Unsupported(f"subscript {key!r} of an abstract matrix")

    def setitem(self, ex, cont, key, v, lineno):
        st = ex.st
        if self._on(ex) and isinstance(cont, Ref) and isinstance(st.heap.get(cont.id), DictObj) and st.heap[cont.id].v.name == "Val" \
                and isinstance(v, Ref) and getattr(st.heap.get(v.id), "is_empty_literal", False):
            # settings["outer_v"] = []: an opaque option value
            D = st.heap[cont.id]
            D.set(st, D.k.embed(st, key), st.fresh_const("optval", D.v.sort()))
            ex.writeback(D)
            return True
        A = _ring(ex, cont)
        if A is None:
            return NotImplemented
        from .engine import PyRaise

        V = _ring(ex, v)
        if V is None or not (isinstance(key, tuple) and len(key) == 2):
            raise Unsupported(f"store {key!r} into an abstract matrix")
        r, c = key
        ex.assumed.add("matrix ring model: shape (broadcast) errors of row / column assignments are not modelled; a solution vector is identified with the column / row it fills")
        if _is_full_slice(r) and ex.num(c) is not None:
            j = ex.num(c)[0]
            if not st.decide(z3.And(j >= 0, j < ncols(A.term))):
                if st.decide(j >= 0) or not st.decide(j >= -ncols(A.term)):
                    raise PyRaise("IndexError", lineno)
                raise Unsupported("negative column index")
            A.term = set_col(A.term, j, V.term)
        elif _is_full_slice(c) and ex.num(r) is not None:
            i = ex.num(r)[0]
            if not st.decide(z3.And(i >= 0, i < nrows(A.term))):
                if st.decide(i >= 0) or not st.decide(i >= -nrows(A.term)):
                    raise PyRaise("IndexError", lineno)
                raise Unsupported("negative row index")
            A.term = set_row(A.term, i, V.term)
        else:
            raise Unsupported(f"store {key!r} into an abstract matrix")
        ex.writeback(A)
        return True

    def ref_attr(self, ex, obj, o, attr, lineno):
        if isinstance(o, RingObj):
            return self.value_attr(ex, obj, attr, lineno)
        return NotImplemented

    def value_attr(self, ex, obj, attr, lineno):
        if isinstance(obj, SV) and obj.ty == LSF:
            return BoundMethod(obj, None, f"lsf.{attr}")
        if isinstance(obj, SV) and obj.ty == TOp:
            if attr == "shape":
                return (SV(nrows(obj.term), TInt), SV(ncols(obj.term), TInt))
            if attr == "dtype":
                return SV(op_dtype(obj.term), TDtype)
            if attr in ("matvec", "rmatvec"):
                return BoundMethod(obj, None, f"linop.{attr}")
            raise Unsupported(f"attribute {attr} of an abstract linear operator")
        A = _ring(ex, obj)
        if A is None:
            return NotImplemented
        if attr == "shape":
            return (SV(nrows(A.term), TInt), SV(ncols(A.term), TInt))
        if attr == "T":
            return _rnew(ex, mtr(A.term))
        if attr == "real":
            return _rnew(ex, mre(A.term))
        if attr == "dtype":
            return SV(op_dtype(A.term), TDtype)
        return BoundMethod(obj, None, f"ring.{attr}")

    def call_method(self, ex, recv, name, args, kwargs, lineno):
        if not isinstance(name, str):
            return NotImplemented
        st = ex.st
        if name == "lsf.execute" and isinstance(recv, SV) and recv.ty == LSF:
            from .values import PyObj

            p = args[0]
            P = st.heap[p.id] if isinstance(p, Ref) else None
            if not isinstance(P, PyObj) or _ring(ex, P.fields.get("lhs")) is None or _ring(ex, P.fields.get("rhs")) is None:
                raise Unsupported("linear solver call on something else than a LinearProblem with lhs and rhs")
            ex.assumed.add("assumed linear-solver contract: LinearSolverLibraryFactory.execute(problem, ...) sets problem.solution to lhs^-1 rhs exactly "
                           "(invertible lhs, exact solve, for every algorithm and option) and leaves lhs / rhs unchanged")
            P.fields["solution"] = _rnew(ex, msolve(_ring(ex, P.fields["lhs"]).term, _ring(ex, P.fields["rhs"]).term))
            if "is_converged" in P.fields:
                P.fields["is_converged"] = SV(st.fresh_const("is_converged", z3.BoolSort()), TBool)
            return None
        if name in ("linop.matvec", "linop.rmatvec") and isinstance(recv, SV) and recv.ty == TOp and len(args) == 1 and _ring(ex, args[0]) is not None:
            ex.assumed.add("assumed scipy contract: for a LinearOperator denoting the matrix A, matvec(x) returns A x and rmatvec(x) returns A^H x "
                           "(conjugate transpose), without modifying x; dimension-mismatch errors are not modelled")
            a = recv.term if name == "linop.matvec" else madj(recv.term)
            return _rnew(ex, mmul(a, _ring(ex, args[0]).term))
        if not name.startswith("ring."):
            return NotImplemented
        A = _ring(ex, recv)
        if A is None:
            return NotImplemented
        name = name[5:]
        if name in ("toarray", "todense", "copy", "squeeze") and not args:
            return _rnew(ex, A.term)  # same matrix in another storage format / a vector identified with the column it fills
        if name == "dot" and len(args) == 1 and _ring(ex, args[0]) is not None:
            return _rnew(ex, mmul(A.term, _ring(ex, args[0]).term))
        raise Unsupported(f"abstract matrix method {name}")

    def call_opaque(self, ex, fv, args, kwargs, lineno):
        if isinstance(fv, FactorizedV) and len(args) == 1 and _ring(ex, args[0]) is not None:
            return _rnew(ex, msolve(fv.lhs, _ring(ex, args[0]).term))
        return NotImplemented

    def compare_any(self, ex, op, a, b, lineno):
        if not any(isinstance(v, SV) and v.ty == TNpFloat for v in (a, b)) or op not in ("Lt", "LtE", "Gt", "GtE"):
            return NotImplemented
        ta, tb = (v.term if isinstance(v, SV) else ex.num(v)[0] for v in (a, b))
        ta, tb = (z3.ToReal(t) if t.sort() == z3.IntSort() else t for t in (ta, tb))
        return SV({"Lt": ta < tb, "LtE": ta <= tb, "Gt": ta > tb, "GtE": ta >= tb}[op], TBool)

    def havoc_obj(self, ex, ref, o, hint):
        if not isinstance(o, RingObj):
            return NotImplemented
        o.term = ex.st.fresh_const(hint, MatrixS)
        ex.st.assume(z3.And(nrows(o.term) >= 0, ncols(o.term) >= 0))
        ex.writeback(o)
        return True

    def isinstance_(self, ex, v, cls):
        if not (_ring(ex, v) is not None or (isinstance(v, SV) and v.ty == TOp)):
            return NotImplemented
        classes = cls if isinstance(cls, tuple) else (cls,)
        shorts = [(c.name if isinstance(c, BuiltinV) else getattr(c, "qualname", "?")).rsplit(".", 1)[-1] for c in classes]
        if _ring(ex, v) is not None:  # an array (dense or sparse) of the abstract ring
            return any(n in ("ndarray",) + SPARSE_NAMES for n in shorts)
        return any(n in ("LinearOperator", "JacobianOperator") for n in shorts)

    def super_method(self, ex, recv, o, name, args, kwargs, lineno):
        from . import source as S

        if name == "__init__" and len(args) == 2 and not kwargs and S.is_subclass(o.cls, JACOBIAN_OPERATOR):
            ex.assumed.add("assumed scipy contract: LinearOperator.__init__(dtype, shape) stores dtype and shape (shape validation not modelled)")
            o.fields["dtype"], o.fields["shape"] = args[0], args[1]
            return None
        return NotImplemented

    def unary(self, ex, op, v, lineno):
        A = _ring(ex, v)
        if A is None:
            return NotImplemented
        if op == "neg":
            return _rnew(ex, mneg(A.term))
        raise Unsupported(f"unary {op} on an abstract matrix")

    def _operator_obj(self, ex, v):
        from . import source as S
        from .values import PyObj

        if isinstance(v, Ref):
            o = ex.st.heap.get(v.id)
            if isinstance(o, PyObj) and S.is_subclass(o.cls, JACOBIAN_OPERATOR):
                return o
        return None

    def binop(self, ex, op, a, b, lineno, inplace=False):
        if op == "Div" and any(isinstance(v, SV) and v.ty == TNpFloat for v in (a, b)):
            # numpy.float64 division never raises (x / 0 is inf or nan with a warning): an unspecified value
            return SV(ex.st.fresh_const("npdiv", z3.RealSort()), TNpFloat)
        o = self._operator_obj(ex, a)
        if o is not None and op in ("Add", "Sub", "MatMult"):
            # Python's binary-operator protocol: type(a).__op__(a, b) (defined in the repository for the Jacobian operators)
            from . import source as S

            m = S.find_method(o.cls, {"Add": "__add__", "Sub": "__sub__", "MatMult": "__matmul__"}[op])
            if m is not None:
                return ex.call_repo(m, [a, b], {}, lineno)
        A, B = _ring(ex, a), _ring(ex, b)
        if A is None or B is None:
            return NotImplemented
        if op == "Add":
            return _rnew(ex, madd(A.term, B.term))
        if op == "Sub":
            return _rnew(ex, madd(A.term, mneg(B.term)))
        if op == "MatMult":
            return _rnew(ex, mmul(A.term, B.term))
        raise Unsupported(f"operator {op} on abstract matrices")


# =========================================================================== Part 4: the cache of the minimal couplings (contracts with c07 = "cache")
NAME_SET = z3.ArraySort(TStr.sort(), z3.BoolSort())
_NAME_LIST = TList(TStr)
names_set = z3.Function("c07_names_set", _NAME_LIST.sort(), NAME_SET)  # the set of the elements of a list of names (set(list))
traverse_names = z3.Function("c07_traverse_names", z3.IntSort(), NAME_SET, NAME_SET, NAME_SET)  # names selected by traverse_add_diff_io_mda


class TraversalV:
    """The (opaque) mapping returned by traverse_add_diff_io_mda: only the set of all the names it lists is modelled."""

    def __init__(self, names):
        self.names = names


class C07CacheModels:
    def _on(self, ex):
        return getattr(ex.contract, "c07", None) == "cache"

    def call_builtin(self, ex, name, args, kwargs, lineno, node=None):
        if not (self._on(ex) and name == "set" and len(args) == 1 and isinstance(args[0], Ref)):
            return NotImplemented
        st = ex.st
        L = st.heap.get(args[0].id)
        if not isinstance(L, ListObj) or L.is_empty_literal or L.t != TStr:
            return NotImplemented
        from .values import SetObj

        member = getattr(L, "c07_member", None)
        if member is None:
            member = names_set(_NAME_LIST.dt.mk(L.n, L.elems))  # set(list): a function of the list (its definition is not needed by the cache contract)
        o = SetObj(TStr, member, st.fresh_int("setn"))
        o.ty = None
        for f in o.wf_facts(st):
            st.assume(f)
        return st.alloc(o)

    def call_repo_model(self, ex, fi, args, kwargs, lineno):
        if not (self._on(ex) and fi.qualname.endswith("mda_derivatives.traverse_add_diff_io_mda") and len(args) == 3):
            return NotImplemented
        from .values import PyObj

        st = ex.st
        cs = st.heap.get(args[0].id) if isinstance(args[0], Ref) else None
        if not isinstance(cs, PyObj) or "c07_identity" not in cs.fields:
            raise Unsupported("traverse_add_diff_io_mda on a coupling structure without the ghost identity field")
        sets = []
        for a in args[1:]:
            L = st.heap.get(a.id) if isinstance(a, Ref) else None
            if not isinstance(L, ListObj) or L.is_empty_literal or L.t != TStr:
                raise Unsupported("traverse_add_diff_io_mda on something else than lists of names")
            sets.append(names_set(_NAME_LIST.dt.mk(L.n, L.elems)))
        ex.assumed.add("assumed (graph traversal, C09): the names selected by traverse_add_diff_io_mda depend only on the coupling structure and on the SETS "
                       "of requested inputs / outputs; its effect on the disciplines' differentiated inputs / outputs is not modelled here")
        return TraversalV(traverse_names(cs.fields["c07_identity"].term, sets[0], sets[1]))

    def comprehension(self, ex, node, kind):
        if not (self._on(ex) and kind == "list" and len(node.generators) == 2):
            return NotImplemented
        g0 = node.generators[0]
        # [name for ios in mapping.values() for name in list(ios[0]) + list(ios[1])]: all the names listed by the traversal result
        if not (isinstance(g0.iter, ast.Call) and isinstance(g0.iter.func, ast.Attribute) and g0.iter.func.attr == "values"):
            return NotImplemented
        src = ex.ev(g0.iter.func.value)
        if not isinstance(src, TraversalV):
            return NotImplemented
        st = ex.st
        o = ListObj(TStr, st.fresh_int("ncpl"), st.fresh_const("cpl", z3.ArraySort(z3.IntSort(), TStr.sort())))
        st.assume(o.n >= 0)
        o.ty = _NAME_LIST
        o.c07_member = src.names
        return st.alloc(o)
