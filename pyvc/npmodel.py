"""Precise numpy model for rank-1 / rank-2 arrays of reals, ints and bools (DESIGN.md §2.4).

An array is a heap object ``ArrObj`` (mutable, aliasable): concrete rank, symbolic shape, elements
as a z3 array over the indices.  Element-wise operators follow numpy broadcasting on the trailing
axis; gathers ``a[idx]`` and scatters ``a[idx] = v`` with integer index arrays are exact for
pairwise distinct indices (a generated obligation); slices are copies (views that are later
mutated are not modelled - an assumption listed in the evidence).  float64 = mathematical reals.
"""
from __future__ import annotations

import z3

from .values import (BoundMethod, BuiltinV, ClassV, HeapObj, ListObj, Ref, SV, T, TBool, TInt, TReal, TRec, TStr, TVal, Unsupported, _dt_cache, is_concrete)

DTYPE = TRec("dtype", {"kind": TStr})
SORTS = {"f": z3.RealSort(), "i": z3.IntSort(), "b": z3.BoolSort()}
np_round = z3.Function("np_round", z3.RealSort(), z3.RealSort())
np_exp = z3.Function("np_exp", z3.RealSort(), z3.RealSort())
np_log = z3.Function("np_log", z3.RealSort(), z3.RealSort())
np_sqrt = z3.Function("np_sqrt", z3.RealSort(), z3.RealSort())
is_inf = z3.Function("is_pos_inf", z3.RealSort(), z3.BoolSort())  # extended-real tags (bounds arrays)
is_ninf = z3.Function("is_neg_inf", z3.RealSort(), z3.BoolSort())
is_nan_r = z3.Function("is_nan_real", z3.RealSort(), z3.BoolSort())


def round_axioms(x):
    """Ground instance of the rounding axioms at x: integer-valued, within 1/2, fixes integers."""
    r = np_round(x)
    return [z3.IsInt(r), r - x <= z3.Q(1, 2), x - r <= z3.Q(1, 2), z3.Implies(z3.IsInt(x), r == x)]


class ArrObj(HeapObj):
    def __init__(self, kind: str, shape: tuple, elems):
        self.kind, self.shape, self.elems = kind, tuple(shape), elems

    @property
    def rank(self):
        return len(self.shape)

    def at(self, *idx):
        return z3.Select(self.elems, *idx) if len(idx) > 1 else self.elems[idx[0]]

    src = None

    def clone(self):
        c = ArrObj(self.kind, self.shape, self.elems)
        c.origin, c.ty, c.src = self.origin, self.ty, self.src
        return c


def arr_sort(kind, rank):
    return z3.ArraySort(*([z3.IntSort()] * rank), SORTS[kind])


class TArr(T):
    """numpy array of the given kind ('f' real, 'i' int, 'b' bool) and rank (1 or 2)."""

    def __init__(self, kind="f", rank=1):
        self.kind, self.rank = kind, rank
        self.name = f"Arr[{kind},{rank}]"
        if self.name not in _dt_cache:
            i = len(_dt_cache)
            dt = z3.Datatype(f"Arr_{kind}{rank}_{i}")
            dt.declare("mk", *[(f"a_dim{j}_{i}", z3.IntSort()) for j in range(rank)], (f"a_el{i}", arr_sort(kind, rank)))
            _dt_cache[self.name] = dt.create()
        self.dt = _dt_cache[self.name]

    def sort(self):
        return self.dt

    def embed(self, st, v):
        if isinstance(v, Ref) and isinstance(st.heap[v.id], ArrObj):
            o = st.heap[v.id]
            if o.kind == self.kind and o.rank == self.rank:
                src = getattr(o, "src", None)
                if src is not None and src[1] is o.elems and all(a is b for a, b in zip(src[2], o.shape)):
                    return src[0]  # unmodified since it was projected out of this very term
                return self.dt.mk(*o.shape, o.elems)
        if isinstance(v, SV) and v.ty == self:
            return v.term
        raise Unsupported(f"cannot embed {v!r} as {self}")

    def project(self, st, term, origin=None):
        shape = tuple(self.dt.accessor(0, j)(term) for j in range(self.rank))
        o = ArrObj(self.kind, shape, self.dt.accessor(0, self.rank)(term))
        o.origin, o.ty = origin, self
        o.src = (term, o.elems, o.shape)
        for s in shape:
            st.assume(s >= 0)
        return st.alloc(o)

    def fresh(self, st, hint):
        shape = tuple(st.fresh_int(f"{hint}_n{j}") for j in range(self.rank))
        o = ArrObj(self.kind, shape, st.fresh_const(hint + "_el", arr_sort(self.kind, self.rank)))
        o.ty = self
        for s in shape:
            st.assume(s >= 0)
        return st.alloc(o)

    # spec helpers over embedded terms
    def dim(self, term, j=0):
        return self.dt.accessor(0, j)(term)

    def els(self, term):
        return self.dt.accessor(0, self.rank)(term)


def _is_arr(ex, v):
    return isinstance(v, Ref) and isinstance(ex.st.heap.get(v.id), ArrObj)


def _arr(ex, v) -> ArrObj:
    return ex.st.heap[v.id]


def _scalar(ex, v):
    """(term, kind) of a python/z3 scalar operand, or None."""
    if isinstance(v, bool):
        return z3.BoolVal(v), "b"
    if isinstance(v, int):
        return z3.IntVal(v), "i"
    if isinstance(v, float):
        n = ex.num(v)
        return (n[0], "f") if n is not None else None
    if isinstance(v, SV):
        if v.ty == TInt:
            return v.term, "i"
        if v.ty == TReal:
            return v.term, "f"
        if v.ty == TBool:
            return v.term, "b"
    from fractions import Fraction

    if isinstance(v, Fraction):
        return z3.Q(v.numerator, v.denominator), "f"
    return None


def _conv(t, frm, to):
    if frm == to:
        return t
    if to == "f":
        return z3.ToReal(t) if frm == "i" else z3.If(t, z3.RealVal(1), z3.RealVal(0))
    if to == "i":
        if frm == "b":
            return z3.If(t, z3.IntVal(1), z3.IntVal(0))
        return z3.If(t >= 0, z3.ToInt(t), -z3.ToInt(-t))  # truncation toward zero
    if to == "b":
        return t != 0
    raise Unsupported(f"conversion {frm}->{to}")


def _join_kind(a, b):
    order = "bif"
    return order[max(order.index(a), order.index(b))]


ARITH = {"Add": lambda x, y: x + y, "Sub": lambda x, y: x - y, "Mult": lambda x, y: x * y}
CMP = {"Lt": lambda x, y: x < y, "LtE": lambda x, y: x <= y, "Gt": lambda x, y: x > y, "GtE": lambda x, y: x >= y, "Eq": lambda x, y: x == y,
       "NotEq": lambda x, y: x != y}


class NumpyModel:
    # ------------------------------------------------------------------ helpers
    def new(self, ex, kind, shape, elems):
        o = ArrObj(kind, tuple(z3.simplify(s) if not isinstance(s, int) else z3.IntVal(s) for s in shape), elems)
        return ex.st.alloc(o)

    def lam(self, rank, f):
        vs = [z3.Int(f"i!np{j}") for j in range(rank)]
        return z3.Lambda(vs, f(*vs))

    def same(self, ex, a, b, lineno):
        """Decide equality of two dimensions (no fork when syntactically equal)."""
        if z3.simplify(a == b).eq(z3.BoolVal(True)) or a.eq(b):
            return True
        return ex.st.decide(a == b)

    def broadcast(self, ex, A, B, lineno):
        """Result shape + index maps for numpy broadcasting of two ArrObj (rank <= 2)."""
        from .engine import PyRaise

        ra, rb = A.rank, B.rank
        r = max(ra, rb)
        sa = (None,) * (r - ra) + A.shape
        sb = (None,) * (r - rb) + B.shape
        shape, ma, mb = [], [], []
        for da, db in zip(sa, sb):
            if da is None:
                shape.append(db), ma.append(None), mb.append("id")
            elif db is None:
                shape.append(da), ma.append("id"), mb.append(None)
            elif self.same(ex, da, db, lineno):
                shape.append(da), ma.append("id"), mb.append("id")
            elif ex.st.decide(db == 1):
                shape.append(da), ma.append("id"), mb.append("zero")
            elif ex.st.decide(da == 1):
                shape.append(db), ma.append("zero"), mb.append("id")
            else:
                raise PyRaise("ValueError", lineno)

        def pick(o, m):
            def f(*idx):
                sel = [z3.IntVal(0) if mm == "zero" else i for i, mm in zip(idx, m) if mm is not None]
                return o.at(*sel)

            return f

        return tuple(shape), pick(A, ma), pick(B, mb)

    # ------------------------------------------------------------------ operators
    def binop(self, ex, op, a, b, lineno, inplace=False):
        aa, ab = _is_arr(ex, a), _is_arr(ex, b)
        if not (aa or ab):
            if op == "Pow" and isinstance(b, float) and b in (0.5, 1.5) and ex.num(a) is not None and not is_concrete(a):
                # x ** 0.5 = sqrt(x),  x ** 1.5 = x * sqrt(x)   (real x >= 0)
                t, k = ex.num(a)
                t = z3.ToReal(t) if k == TInt else t
                return SV(np_sqrt(t) if b == 0.5 else t * np_sqrt(t), TReal)
            return NotImplemented
        from .engine import PyRaise

        st = ex.st
        if op == "MatMult":
            return self.matmul(ex, a, b, lineno)
        if aa and ab:
            A, B = _arr(ex, a), _arr(ex, b)
            shape, fa, fb = self.broadcast(ex, A, B, lineno)
            ka, kb = A.kind, B.kind
        elif aa:
            A = _arr(ex, a)
            s = _scalar(ex, b)
            if s is None:
                return NotImplemented
            shape, fa, ka = A.shape, A.at, A.kind
            fb, kb = (lambda *i: s[0]), s[1]
        else:
            B = _arr(ex, b)
            s = _scalar(ex, a)
            if s is None:
                return NotImplemented
            shape, fb, kb = B.shape, B.at, B.kind
            fa, ka = (lambda *i: s[0]), s[1]
        r = len(shape)
        if op in ARITH:
            k = _join_kind(_join_kind(ka, kb), "i")
            f = ARITH[op]
            return self.new(ex, k, shape, self.lam(r, lambda *i: f(_conv(fa(*i), ka, k), _conv(fb(*i), kb, k))))
        if op == "Div":
            # numpy: division by zero gives inf/nan with a warning, not an exception; the quotient is then unconstrained
            # (z3 division by zero is an unspecified total function), which is the safe reading.
            ex.assumed.add("numpy true division: x/0 is an unspecified value (inf/nan not modelled)")
            return self.new(ex, "f", shape, self.lam(r, lambda *i: _conv(fa(*i), ka, "f") / _conv(fb(*i), kb, "f")))
        if op == "Pow" and not ab:
            e = b
            if isinstance(e, int) and 0 <= e <= 4:
                k = _join_kind(ka, "i")

                def p(*i):
                    out = z3.RealVal(1) if k == "f" else z3.IntVal(1)
                    for _ in range(e):
                        out = out * _conv(fa(*i), ka, k)
                    return out

                return self.new(ex, k, shape, self.lam(r, p))
        if op in ("BitAnd", "BitOr") and ka == "b" and kb == "b":
            f = z3.And if op == "BitAnd" else z3.Or
            return self.new(ex, "b", shape, self.lam(r, lambda *i: f(fa(*i), fb(*i))))
        raise Unsupported(f"numpy operator {op} on kinds {ka},{kb}")

    def compare_any(self, ex, op, a, b, lineno):
        aa, ab = _is_arr(ex, a), _is_arr(ex, b)
        if not (aa or ab) and op in CMP:
            # scalar against a concrete +-inf (extended-real tags, as for array elements)
            for x, y, flip in ((a, b, False), (b, a, True)):
                if isinstance(y, float) and y in (float("inf"), float("-inf")) and isinstance(x, SV) and x.ty in (TReal, TInt):
                    t = x.term if x.ty == TReal else z3.ToReal(x.term)
                    o = op if not flip else {"Lt": "Gt", "LtE": "GtE", "Gt": "Lt", "GtE": "LtE", "Eq": "Eq", "NotEq": "NotEq"}[op]
                    pos = y > 0
                    tag = is_inf if pos else is_ninf
                    f = {
                        "Eq": tag(t), "NotEq": z3.Not(tag(t)),
                        "Lt": z3.Not(z3.Or(is_inf(t), is_nan_r(t))) if pos else z3.BoolVal(False),
                        "LtE": z3.Not(is_nan_r(t)) if pos else is_ninf(t),
                        "Gt": z3.BoolVal(False) if pos else z3.Not(z3.Or(is_ninf(t), is_nan_r(t))),
                        "GtE": is_inf(t) if pos else z3.Not(is_nan_r(t)),
                    }[o]
                    return SV(f, TBool)
        if not (aa or ab) or op not in CMP:
            return NotImplemented
        if aa and ab:
            A, B = _arr(ex, a), _arr(ex, b)
            shape, fa, fb = self.broadcast(ex, A, B, lineno)
            ka, kb = A.kind, B.kind
        elif aa:
            A = _arr(ex, a)
            s = _scalar(ex, b)
            if s is None:
                return self._cmp_special(ex, op, A, b)
            shape, fa, ka = A.shape, A.at, A.kind
            fb, kb = (lambda *i: s[0]), s[1]
        else:
            B = _arr(ex, b)
            s = _scalar(ex, a)
            if s is None:
                return NotImplemented
            shape, fb, kb = B.shape, B.at, B.kind
            fa, ka = (lambda *i: s[0]), s[1]
        k = _join_kind(ka, kb)
        if k == "b":
            k = "i" if op not in ("Eq", "NotEq") else "b"
        f = CMP[op]
        return self.new(ex, "b", shape, self.lam(len(shape), lambda *i: f(_conv(fa(*i), ka, k), _conv(fb(*i), kb, k))))

    def _cmp_special(self, ex, op, A, b):
        """Comparisons with +-inf (extended-real tags: a real element may be tagged +inf / -inf / nan)."""
        if isinstance(b, float) and b in (float("inf"), float("-inf")) and A.kind == "f":
            pos = b > 0
            tag = is_inf if pos else is_ninf
            f = {
                "Eq": lambda t: tag(t),
                "NotEq": lambda t: z3.Not(tag(t)),
                # x < +inf: x is not +inf and not nan;  x < -inf: never
                "Lt": (lambda t: z3.Not(z3.Or(is_inf(t), is_nan_r(t)))) if pos else (lambda t: z3.BoolVal(False)),
                "LtE": (lambda t: z3.Not(is_nan_r(t))) if pos else (lambda t: is_ninf(t)),
                "Gt": (lambda t: z3.BoolVal(False)) if pos else (lambda t: z3.Not(z3.Or(is_ninf(t), is_nan_r(t)))),
                "GtE": (lambda t: is_inf(t)) if pos else (lambda t: z3.Not(is_nan_r(t))),
            }[op]
            return self.new(ex, "b", A.shape, self.lam(A.rank, lambda *i: f(A.at(*i))))
        return NotImplemented

    def unary(self, ex, op, v, lineno):
        if not _is_arr(ex, v):
            return NotImplemented
        A = _arr(ex, v)
        if op == "neg":
            return self.new(ex, A.kind if A.kind != "b" else "i", A.shape, self.lam(A.rank, lambda *i: -_conv(A.at(*i), A.kind, A.kind if A.kind != "b" else "i")))
        if op == "invert":
            return self.ev_invert(ex, v)
        raise Unsupported(f"numpy unary {op}")

    def ev_invert(self, ex, v):
        A = _arr(ex, v)
        if A.kind == "b":
            return self.new(ex, "b", A.shape, self.lam(A.rank, lambda *i: z3.Not(A.at(*i))))
        raise Unsupported("~ on non-bool array")

    def truth(self, ex, v):
        if not _is_arr(ex, v):
            return NotImplemented
        from .engine import PyRaise

        A = _arr(ex, v)
        n = A.shape[0] if A.rank == 1 else A.shape[0] * A.shape[1]
        if not ex.st.decide(n <= 1):
            raise PyRaise("ValueError", 0)
        if ex.st.decide(n == 0):
            return False
        z = [z3.IntVal(0)] * A.rank
        return _conv(A.at(*z), A.kind, "b")

    def length(self, ex, v, lineno):
        if not _is_arr(ex, v):
            return NotImplemented
        return SV(_arr(ex, v).shape[0], TInt)

    def equals(self, ex, a, b, lineno):
        return NotImplemented

    def isinstance_(self, ex, v, cls):
        if not _is_arr(ex, v):
            return NotImplemented
        names = [c.name if isinstance(c, BuiltinV) else getattr(c, "qualname", "?") for c in (cls if isinstance(cls, tuple) else (cls,))]
        return any(n.rsplit(".", 1)[-1] == "ndarray" for n in names)

    def to_iter(self, ex, v, lineno):
        if not _is_arr(ex, v):
            return NotImplemented
        from .engine import IterV

        A = _arr(ex, v)
        if A.rank != 1:
            raise Unsupported("iteration over a rank-2 array")
        ty = {"f": TReal, "i": TInt, "b": TBool}[A.kind]
        return IterV(A.shape[0], lambda i: SV(A.elems[i], ty))

    # ------------------------------------------------------------------ indexing
    def _norm_index(self, ex, i, n, lineno):
        from .engine import PyRaise

        if not ex.st.decide(z3.And(i >= -n, i < n)):
            raise PyRaise("IndexError", lineno)
        return z3.simplify(z3.If(i < 0, i + n, i))

    def _slice_bounds(self, ex, key, n):
        _, lo, hi, step = key
        if step is not None:
            raise Unsupported("array slice with step")
        lo_t = z3.IntVal(0) if lo is None else ex.num(lo)[0]
        hi_t = n if hi is None else ex.num(hi)[0]
        lo_t = z3.If(lo_t < 0, z3.If(lo_t + n < 0, 0, lo_t + n), z3.If(lo_t > n, n, lo_t))
        hi_t = z3.If(hi_t < 0, z3.If(hi_t + n < 0, 0, hi_t + n), z3.If(hi_t > n, n, hi_t))
        return z3.simplify(lo_t), z3.simplify(z3.If(hi_t > lo_t, hi_t - lo_t, 0))

    def _index_array(self, ex, key, n, lineno):
        """Integer index array (ArrObj 'i' rank 1, list of ints, range) -> (length, f(j) normalised index) with the
        in-range obligation raised as IndexError."""
        from .engine import PyRaise

        st = ex.st
        if _is_arr(ex, key) and _arr(ex, key).kind == "i" and _arr(ex, key).rank == 1:
            K = _arr(ex, key)
            m, raw = K.shape[0], (lambda j: K.elems[j])
        elif isinstance(key, Ref) and isinstance(st.heap[key.id], ListObj) and st.heap[key.id].t == TInt:
            L = st.heap[key.id]
            m, raw = L.n, (lambda j: L.elems[j])
        elif isinstance(key, SV) and key.ty.name == "Rec[range]":
            from .values import TRange

            a0, b0 = TRange.accessor("start")(key.term), TRange.accessor("stop")(key.term)
            m, raw = z3.If(b0 > a0, b0 - a0, 0), (lambda j: a0 + j)
        else:
            return None
        j = z3.Int("j!ix")
        ok = z3.ForAll([j], z3.Implies(z3.And(0 <= j, j < m), z3.And(raw(j) >= -n, raw(j) < n)))
        if not st.decide(ok):
            raise PyRaise("IndexError", lineno)
        return z3.simplify(m), (lambda t: z3.If(raw(t) < 0, raw(t) + n, raw(t)))

    def _strip_ellipsis(self, key, rank):
        """a[..., k] on rank r -> tuple of r components (None = full axis)."""
        if isinstance(key, tuple) and key and isinstance(key[0], BuiltinV) and key[0].name == "Ellipsis":
            rest = key[1:]
            return (None,) * (rank - len(rest)) + tuple(rest)
        if isinstance(key, BuiltinV) and key.name == "Ellipsis":
            return (None,) * rank
        if isinstance(key, tuple) and not (key and key[0] == "slice"):
            return tuple(key) + (None,) * (rank - len(key))
        return (key,) + (None,) * (rank - 1)

    def _is_full(self, k):
        return k is None or (isinstance(k, tuple) and k and k[0] == "slice" and k[1] is None and k[2] is None and k[3] is None)

    def getitem(self, ex, cont, key, lineno):
        if not _is_arr(ex, cont):
            return NotImplemented
        st = ex.st
        A = _arr(ex, cont)
        ty = {"f": TReal, "i": TInt, "b": TBool}[A.kind]
        comps = self._strip_ellipsis(key, A.rank)
        if len(comps) != A.rank:
            raise Unsupported(f"array subscript {key!r} on rank {A.rank}")
        # classify each component
        kinds = []
        for c, n in zip(comps, A.shape):
            if self._is_full(c):
                kinds.append(("full", n, None))
            elif isinstance(c, tuple) and c and c[0] == "slice":
                lo, m = self._slice_bounds(ex, c, n)
                kinds.append(("slice", m, lo))
            elif ex.num(c) is not None and ex.num(c)[1] == TInt:
                kinds.append(("int", None, self._norm_index(ex, ex.num(c)[0], n, lineno)))
            elif _is_arr(ex, c) and _arr(ex, c).kind == "b":
                kinds.append(("mask", None, _arr(ex, c)))
            else:
                ia = self._index_array(ex, c, n, lineno)
                if ia is None:
                    raise Unsupported(f"array index {c!r}")
                kinds.append(("fancy", ia[0], ia[1]))
        tags = [k[0] for k in kinds]
        if all(t == "int" for t in tags):
            return SV(A.at(*[k[2] for k in kinds]), ty)
        if tags.count("mask") == 1 and all(t in ("mask", "full") for t in tags) and A.rank == 1:
            return self._mask_gather(ex, A, kinds[0][2], lineno)
        if tags.count("fancy") == 2 and A.rank == 2:
            # paired fancy indexing a[rows, cols] -> rank 1
            (_, m1, f1), (_, m2, f2) = kinds
            if not self.same(ex, m1, m2, lineno):
                from .engine import PyRaise

                raise PyRaise("IndexError", lineno)
            return self.new(ex, A.kind, (m1,), self.lam(1, lambda j: A.at(f1(j), f2(j))))
        out_shape, maps = [], []
        for t, m, x in kinds:
            if t == "int":
                maps.append(("const", x))
            elif t == "full":
                maps.append(("id", len(out_shape))), out_shape.append(m)
            elif t == "slice":
                maps.append(("off", len(out_shape), x)), out_shape.append(m)
            elif t == "fancy":
                maps.append(("fn", len(out_shape), x)), out_shape.append(m)
            else:
                raise Unsupported("boolean mask on a rank-2 array")

        def el(*idx):
            sel = []
            for mp in maps:
                if mp[0] == "const":
                    sel.append(mp[1])
                elif mp[0] == "id":
                    sel.append(idx[mp[1]])
                elif mp[0] == "off":
                    sel.append(idx[mp[1]] + mp[2])
                else:
                    sel.append(mp[2](idx[mp[1]]))
            return A.at(*sel)

        return self.new(ex, A.kind, tuple(out_shape), self.lam(len(out_shape), el))

    def _mask_gather(self, ex, A, M, lineno):
        """a[mask] (rank 1): the selected elements in order, via the strictly increasing enumeration of the mask."""
        st = ex.st
        m, idx = self._nonzero(ex, M)
        return self.new(ex, A.kind, (m,), self.lam(1, lambda j: A.elems[idx[j]]))

    def _nonzero(self, ex, M):
        """(count, idx array) - strictly increasing enumeration of the true positions of a rank-1 mask."""
        st = ex.st
        key = ("nonzero", M.elems.get_id(), M.shape[0].get_id())
        cache = st.ghost.setdefault("nonzero_cache", {})
        if key in cache:
            return cache[key]
        n = M.shape[0]
        m = st.fresh_int("nnz")
        idx = st.fresh_const("nzidx", z3.ArraySort(z3.IntSort(), z3.IntSort()))
        rank = st.fresh_const("nzrank", z3.ArraySort(z3.IntSort(), z3.IntSort()))
        j, i = z3.Int("j!nz"), z3.Int("i!nz")
        truth = lambda t: _conv(M.elems[t], M.kind, "b")  # noqa: E731
        st.assume(z3.And(m >= 0, m <= n))
        st.assume(z3.ForAll([j], z3.Implies(z3.And(0 <= j, j < m), z3.And(0 <= idx[j], idx[j] < n, truth(idx[j]), rank[idx[j]] == j)), patterns=[idx[j]]))
        st.assume(z3.ForAll([j], z3.Implies(z3.And(0 <= j, j < m - 1), idx[j] < idx[j + 1]), patterns=[idx[j]]))
        st.assume(z3.ForAll([i], z3.Implies(z3.And(0 <= i, i < n, truth(i)), z3.And(0 <= rank[i], rank[i] < m, idx[rank[i]] == i)), patterns=[rank[i]]))
        cache[key] = (m, idx)
        st.ghost.setdefault("nonzero_rank", {})[idx.get_id()] = rank
        return m, idx

    def setitem(self, ex, cont, key, v, lineno):
        if not _is_arr(ex, cont):
            return NotImplemented
        from .engine import PyRaise

        st = ex.st
        A = _arr(ex, cont)
        comps = self._strip_ellipsis(key, A.rank)
        if len(comps) != A.rank:
            raise Unsupported(f"array subscript store {key!r}")
        # value accessor
        if _is_arr(ex, v):
            Vv = _arr(ex, v)
            vk = Vv.kind
        else:
            s = _scalar(ex, v)
            if s is None:
                raise Unsupported(f"array store of {v!r}")
            Vv, vk = None, s[1]
            sval = s[0]
            if vk == "f" and isinstance(v, (int, float)) and not isinstance(v, bool):
                st.assume(z3.Not(z3.Or(is_inf(sval), is_ninf(sval), is_nan_r(sval))))  # a numeric literal is a finite number
        k = A.kind
        old = A.elems
        full = [self._is_full(c) for c in comps]
        if all(full):
            if Vv is None:
                A.elems = self.lam(A.rank, lambda *i: _conv(sval, vk, k))
            else:
                shape, fa, fb = self.broadcast(ex, A, Vv, lineno)
                A.elems = self.lam(A.rank, lambda *i: _conv(fb(*i), vk, k))
            ex.writeback(A)
            return True
        # single non-full component on the last axis (vectors, and columns of matrices / batches)
        pos = [j for j, f in enumerate(full) if not f]
        if len(pos) == 1:
            ax = pos[0]
            c, n = comps[ax], A.shape[ax]
            if ex.num(c) is not None and ex.num(c)[1] == TInt:
                ix = self._norm_index(ex, ex.num(c)[0], n, lineno)

                def val_int(*i):
                    rest = [x for j2, x in enumerate(i) if j2 != ax]
                    if Vv is None:
                        return _conv(sval, vk, k)
                    return _conv(Vv.at(*rest) if rest else Vv.at(z3.IntVal(0)), vk, k)

                if A.rank == 1:
                    if Vv is not None:
                        raise Unsupported("a[i] = array")
                    A.elems = z3.Store(old, ix, _conv(sval, vk, k))
                else:
                    A.elems = self.lam(A.rank, lambda *i: z3.If(i[ax] == ix, val_int(*i), z3.Select(old, *i)))
                ex.writeback(A)
                return True
            if isinstance(c, tuple) and c and c[0] == "slice":
                lo, m = self._slice_bounds(ex, c, n)
                inside = lambda t: z3.And(t >= lo, t < lo + m)  # noqa: E731
                jof = lambda t: t - lo  # noqa: E731
                cnt = m
            elif _is_arr(ex, c) and _arr(ex, c).kind == "b":
                M = _arr(ex, c)
                if not self.same(ex, M.shape[0], n, lineno):
                    raise PyRaise("IndexError", lineno)
                cnt, idx = self._nonzero(ex, M)
                rank = st.ghost["nonzero_rank"][idx.get_id()]
                inside = lambda t: z3.And(t >= 0, t < n, _conv(M.elems[t], M.kind, "b"))  # noqa: E731
                jof = lambda t: rank[t]  # noqa: E731
            else:
                ia = self._index_array(ex, c, n, lineno)
                if ia is None:
                    raise Unsupported(f"array index store {c!r}")
                cnt, f = ia
                # exact for pairwise distinct indices: generated obligation
                j1, j2 = z3.Int("j1!sc"), z3.Int("j2!sc")
                ex.check(z3.ForAll([j1, j2], z3.Implies(z3.And(0 <= j1, j1 < j2, j2 < cnt), f(j1) != f(j2))), "safety", "scatter-indices-distinct", lineno, aux=True)
                inv = st.fresh_const("scinv", z3.ArraySort(z3.IntSort(), z3.IntSort()))
                jq = z3.Int("j!sc")
                st.assume(z3.ForAll([jq], z3.Implies(z3.And(0 <= jq, jq < cnt), inv[f(jq)] == jq)))
                inside = lambda t: z3.And(0 <= inv[t], inv[t] < cnt, f(inv[t]) == t)  # noqa: E731
                jof = lambda t: inv[t]  # noqa: E731
            # shape compatibility of the value on the indexed axis
            if Vv is not None:
                vn = Vv.shape[-1]
                if not self.same(ex, vn, cnt, lineno):
                    if not ex.st.decide(vn == 1):
                        raise PyRaise("ValueError", lineno)
                    vjof = lambda t: z3.IntVal(0)  # noqa: E731
                else:
                    vjof = jof
                if Vv.rank > A.rank:
                    raise PyRaise("ValueError", lineno)

            def newel(*i):
                t = i[ax]
                if Vv is None:
                    nv = _conv(sval, vk, k)
                elif Vv.rank == 1:
                    nv = _conv(Vv.elems[vjof(t)], vk, k)
                else:
                    sel = list(i)
                    sel[ax] = vjof(t)
                    nv = _conv(Vv.at(*sel), vk, k)
                return z3.If(inside(t), nv, z3.Select(old, *i))

            A.elems = self.lam(A.rank, newel)
            ex.writeback(A)
            return True
        if A.rank == 2 and not any(full):
            # paired fancy store a[rows, cols] = v  (diagonal-like updates)
            i1 = self._index_array(ex, comps[0], A.shape[0], lineno)
            i2 = self._index_array(ex, comps[1], A.shape[1], lineno)
            if i1 is None or i2 is None:
                raise Unsupported(f"array store {key!r}")
            (m1, f1), (m2, f2) = i1, i2
            if not self.same(ex, m1, m2, lineno):
                raise PyRaise("IndexError", lineno)
            j1, j2 = z3.Int("j1!sc"), z3.Int("j2!sc")
            ex.check(z3.ForAll([j1, j2], z3.Implies(z3.And(0 <= j1, j1 < j2, j2 < m1), z3.Or(f1(j1) != f1(j2), f2(j1) != f2(j2)))), "safety",
                     "scatter-indices-distinct", lineno, aux=True)
            inv = st.fresh_const("scinv2", z3.ArraySort(z3.IntSort(), z3.IntSort(), z3.IntSort()))
            jq = z3.Int("j!sc")
            st.assume(z3.ForAll([jq], z3.Implies(z3.And(0 <= jq, jq < m1), z3.Select(inv, f1(jq), f2(jq)) == jq)))

            def newel2(r, c2):
                jj = z3.Select(inv, r, c2)
                hit = z3.And(0 <= jj, jj < m1, f1(jj) == r, f2(jj) == c2)
                if Vv is None:
                    nv = _conv(sval, vk, k)
                else:
                    nv = _conv(Vv.elems[jj], vk, k)
                return z3.If(hit, nv, z3.Select(old, r, c2))

            if Vv is not None and (Vv.rank != 1 or not self.same(ex, Vv.shape[0], m1, lineno)):
                raise PyRaise("ValueError", lineno)
            A.elems = self.lam(2, newel2)
            ex.writeback(A)
            return True
        raise Unsupported(f"array store with key {key!r}")

    # ------------------------------------------------------------------ attributes / methods
    def ref_attr(self, ex, obj, o, attr, lineno):
        return self.value_attr(ex, obj, attr, lineno)

    def value_attr(self, ex, obj, attr, lineno):
        if isinstance(obj, TiledV):
            return BoundMethod(obj, None, f"np.{attr}")
        if isinstance(obj, SV) and obj.ty == DTYPE:
            return NotImplemented
        if not _is_arr(ex, obj):
            return NotImplemented
        A = _arr(ex, obj)
        if attr == "size":
            return SV(A.shape[0] if A.rank == 1 else A.shape[0] * A.shape[1], TInt)
        if attr == "shape":
            return tuple(SV(s, TInt) for s in A.shape)
        if attr == "ndim":
            return A.rank
        if attr == "real":
            return obj
        if attr == "dtype":
            return DTYPE.mk(ex.st, kind=A.kind)
        if attr == "T":
            if A.rank == 1:
                return obj
            return self.new(ex, A.kind, (A.shape[1], A.shape[0]), self.lam(2, lambda i, j: A.at(j, i)))
        return BoundMethod(obj, None, f"np.{attr}")

    def call_method(self, ex, recv, name, args, kwargs, lineno):
        if isinstance(recv, TiledV) and name == "np.reshape":
            # tile(x, n).reshape((n, d)) with d = len(x): n stacked copies of x (row r = x)
            X = _arr(ex, recv.base)
            shp = args[0] if len(args) == 1 and isinstance(args[0], tuple) else tuple(args)
            if len(shp) != 2:
                raise Unsupported("reshape of a tiled vector to a non-matrix")
            r, c = ex.num(shp[0])[0], ex.num(shp[1])[0]
            if not (self.same(ex, r, recv.reps, lineno) and self.same(ex, c, X.shape[0], lineno)):
                raise Unsupported("reshape of tile(x, n) to a shape other than (n, len(x))")
            return self.new(ex, X.kind, (r, c), self.lam(2, lambda i, j: X.elems[j]))
        if not (name.startswith("np.") and _is_arr(ex, recv)):
            return NotImplemented
        name = name[3:]
        A = _arr(ex, recv)
        st = ex.st
        if name == "copy":
            return self.new(ex, A.kind, A.shape, A.elems)
        if name == "astype":
            k = self._kind_of_dtype(ex, args[0] if args else kwargs["dtype"])
            copy = kwargs.get("copy", True)
            if k == A.kind and copy is False:
                return recv
            return self.new(ex, k, A.shape, self.lam(A.rank, lambda *i: _conv(A.at(*i), A.kind, k)))
        if name in ("any", "all"):
            if args or kwargs:
                raise Unsupported(f"ndarray.{name} with axis")
            vs = [z3.Int(f"i!aa{j}") for j in range(A.rank)]
            rng = z3.And(*[z3.And(0 <= v, v < s) for v, s in zip(vs, A.shape)])
            body = _conv(A.at(*vs), A.kind, "b")
            return SV(z3.Exists(vs, z3.And(rng, body)) if name == "any" else z3.ForAll(vs, z3.Implies(rng, body)), TBool)
        if name == "nonzero":
            if A.rank != 1:
                raise Unsupported("nonzero on rank 2")
            m, idx = self._nonzero(ex, A)
            return (self.new(ex, "i", (m,), idx),)
        if name == "tolist" and A.rank == 1:
            ty = {"f": TReal, "i": TInt, "b": TBool}[A.kind]
            return st.alloc(ListObj(ty, A.shape[0], A.elems))
        if name == "reshape":
            return self.reshape(ex, recv, args, lineno)
        if name == "sum" and not args and not kwargs and A.rank == 1:
            return SV(self.vsum(ex, A), TReal if A.kind == "f" else TInt)
        if name == "dot":
            return self.matmul(ex, recv, args[0], lineno)
        raise Unsupported(f"ndarray.{name}")

    def _kind_of_dtype(self, ex, d):
        if isinstance(d, SV) and d.ty == DTYPE:
            t = z3.simplify(DTYPE.accessor("kind")(d.term))
            from .values import str_lit_of_term

            s = str_lit_of_term(t)
            if s in ("f", "i", "b"):
                return s
            # symbolic dtype: decide
            for k in ("f", "i", "b"):
                from .values import str_lit

                if ex.st.decide(t == str_lit(k)):
                    return k
            raise Unsupported("complex / unknown dtype")
        if isinstance(d, BuiltinV):
            n = d.name.rsplit(".", 1)[-1]
            if n in ("float", "float64"):
                return "f"
            if n in ("int", "int64", "int32"):
                return "i"
            if n in ("bool", "bool_"):
                return "b"
        if isinstance(d, str):
            return {"float": "f", "float64": "f", "int": "i", "int64": "i", "bool": "b"}[d]
        raise Unsupported(f"dtype {d!r}")

    # ------------------------------------------------------------------ sums and products
    def vsum(self, ex, A, upto=None):
        """Sum of a rank-1 array as an uninterpreted prefix sum with the recursive axiom (ghost)."""
        st = ex.st
        srt = SORTS[A.kind if A.kind != "b" else "i"]
        psum = z3.Function(f"psum_{A.kind}", z3.ArraySort(z3.IntSort(), srt), z3.IntSort(), srt)
        a = z3.Const("a!ps", z3.ArraySort(z3.IntSort(), srt))
        k = z3.Int("k!ps")
        zero = z3.RealVal(0) if A.kind == "f" else z3.IntVal(0)
        st.assume(z3.ForAll([a], psum(a, 0) == zero))
        st.assume(z3.ForAll([a, k], z3.Implies(k >= 0, psum(a, k + 1) == psum(a, k) + a[k]), patterns=[psum(a, k + 1)]))
        els = A.elems if A.kind != "b" else self.lam(1, lambda i: _conv(A.elems[i], "b", "i"))
        return psum(els, A.shape[0] if upto is None else upto)

    def matmul(self, ex, a, b, lineno):
        raise Unsupported("matrix product (use an abstract matrix-ring contract)")

    def reshape(self, ex, recv, args, lineno):
        raise Unsupported("reshape")

    # ------------------------------------------------------------------ numpy functions
    def call_builtin(self, ex, name, args, kwargs, lineno, node=None):
        if not name.startswith("numpy."):
            if name == "len" and args and _is_arr(ex, args[0]):
                return self.length(ex, args[0], lineno)
            if name == "abs" and len(args) == 1 and _is_arr(ex, args[0]):
                return self.call_builtin(ex, "numpy.abs", args, {}, lineno)
            return NotImplemented
        fn = name[6:]
        st = ex.st
        anyarr = any(_is_arr(ex, a) for a in args) or any(_is_arr(ex, a) for a in kwargs.values()) or \
            any(isinstance(a, tuple) and any(_is_arr(ex, x) for x in a) for a in args)
        if not anyarr and getattr(ex.contract, "numpy", "opaque") != "precise":
            return NotImplemented  # array creation from scalars: the contract chooses the opaque or the precise model
        if fn in ("sqrt", "exp", "log") and len(args) == 1 and not _is_arr(ex, args[0]) and ex.num(args[0]) is not None:
            t, k = ex.num(args[0])
            t = z3.ToReal(t) if k == TInt else t
            f = {"exp": np_exp, "log": np_log, "sqrt": np_sqrt}[fn]
            ex.assumed.add(f"numpy.{fn} on scalars: uninterpreted real function (only the axioms stated in the contract are used)")
            return SV(f(t), TReal)
        if fn in ("zeros", "ones", "empty", "full") and args:
            shp = args[0]
            dims = shp if isinstance(shp, tuple) else (shp,)
            terms = [ex.num(d)[0] for d in dims]
            if len(terms) > 2:
                raise Unsupported("rank > 2")
            if fn == "full":
                s = _scalar(ex, args[1])
                if s is None:
                    return NotImplemented
                fill, k = s
            else:
                k = "f"
                fill = z3.RealVal(0 if fn != "ones" else 1)
                if fn == "empty":
                    return self.new(ex, "f", terms, st.fresh_const("empty", arr_sort("f", len(terms))))
            if "dtype" in kwargs and kwargs["dtype"] is not None:
                k2 = self._kind_of_dtype(ex, kwargs["dtype"])
                fill, k = _conv(fill, k, k2), k2
            from .engine import PyRaise

            for t in terms:
                if not st.decide(t >= 0):
                    raise PyRaise("ValueError", lineno)
            return self.new(ex, k, terms, z3.K(z3.IntSort(), fill) if len(terms) == 1 else self.lam(2, lambda i, j: fill))
        if fn in ("zeros_like", "ones_like") and anyarr:
            A = _arr(ex, args[0])
            fill = _conv(z3.IntVal(0 if fn == "zeros_like" else 1), "i", A.kind)
            return self.new(ex, A.kind, A.shape, self.lam(A.rank, lambda *i: fill))
        if fn == "arange" and len(args) == 1 and ex.num(args[0]) is not None and ex.num(args[0])[1] == TInt:
            n = ex.num(args[0])[0]
            return self.new(ex, "i", (z3.If(n > 0, n, 0),), self.lam(1, lambda i: i))
        if fn == "eye" and len(args) == 1:
            n = ex.num(args[0])[0]
            return self.new(ex, "f", (n, n), self.lam(2, lambda i, j: z3.If(i == j, z3.RealVal(1), z3.RealVal(0))))
        if fn in ("array", "asarray", "atleast_1d") and args:
            a0 = args[0]
            if _is_arr(ex, a0):
                A = _arr(ex, a0)
                if fn == "array" and kwargs.get("copy", True) is not False:
                    return self.new(ex, A.kind, A.shape, A.elems)
                return a0
            if isinstance(a0, Ref) and isinstance(st.heap[a0.id], ListObj) and not st.heap[a0.id].is_empty_literal:
                L = st.heap[a0.id]
                k = {"Int": "i", "Real": "f", "Bool": "b"}.get(L.t.name)
                if k:
                    return self.new(ex, k, (L.n,), L.elems)
            if isinstance(a0, Ref) and isinstance(st.heap[a0.id], ListObj) and st.heap[a0.id].is_empty_literal:
                return self.new(ex, "f", (z3.IntVal(0),), st.fresh_const("emptyarr", arr_sort("f", 1)))
            s = _scalar(ex, a0)
            if s is not None and fn == "atleast_1d":
                return self.new(ex, s[1], (z3.IntVal(1),), z3.K(z3.IntSort(), s[0]))
            return NotImplemented
        if fn == "concatenate" and len(args) == 1 and isinstance(args[0], Ref) and isinstance(st.heap[args[0].id], ListObj) \
                and isinstance(st.heap[args[0].id].t, TArr) and st.heap[args[0].id].t.rank == 1:
            # concatenation of a symbolic list of vectors (under-specified, sound): every element of the result is an element of one
            # of the vectors (block index / offset given by two Skolem arrays); length and order are not specified
            L = st.heap[args[0].id]
            ta = L.t
            n = st.fresh_int("catn")
            blk = st.fresh_const("catblk", z3.ArraySort(z3.IntSort(), z3.IntSort()))
            offi = st.fresh_const("catoff", z3.ArraySort(z3.IntSort(), z3.IntSort()))
            R = st.fresh_const("catel", arr_sort(ta.kind, 1))
            i = z3.Int("i!cat")
            st.assume(n >= 0)
            st.assume(z3.ForAll([i], z3.Implies(z3.And(0 <= i, i < n), z3.And(0 <= blk[i], blk[i] < L.n, 0 <= offi[i], offi[i] < ta.dim(L.elems[blk[i]]),
                                                                           R[i] == ta.els(L.elems[blk[i]])[offi[i]])), patterns=[R[i]]))
            ex.assumed.add("numpy.concatenate of a symbolic list of vectors: element-wise membership only (length/order unspecified)")
            return self.new(ex, ta.kind, (n,), R)
        if not anyarr:
            return NotImplemented
        if fn in ("concatenate", "hstack") and isinstance(args[0], tuple) and all(_is_arr(ex, x) for x in args[0]):
            parts = [_arr(ex, x) for x in args[0]]
            if any(p.rank != 1 for p in parts):
                raise Unsupported("concatenate of rank-2 arrays")
            k = parts[0].kind
            for p in parts[1:]:
                k = _join_kind(k, p.kind)
            offs = [z3.IntVal(0)]
            for p in parts:
                offs.append(z3.simplify(offs[-1] + p.shape[0]))

            def el(i):
                out = _conv(parts[-1].elems[i - offs[-2]], parts[-1].kind, k)
                for p, o in reversed(list(zip(parts[:-1], offs[:-2]))):
                    out = z3.If(i < o + p.shape[0], _conv(p.elems[i - o], p.kind, k), out)
                return out

            return self.new(ex, k, (offs[-1],), self.lam(1, el))
        if fn == "where" and len(args) == 3:
            C0 = _arr(ex, args[0]) if _is_arr(ex, args[0]) else None
            if C0 is None:
                return NotImplemented

            def acc(x):
                if _is_arr(ex, x):
                    o = _arr(ex, x)
                    return o, o.kind
                s = _scalar(ex, x)
                if s is None:
                    raise Unsupported(f"where operand {x!r}")
                return s[0], s[1]

            (xa, ka), (xb, kb) = acc(args[1]), acc(args[2])
            k = _join_kind(ka, kb)
            shape = C0.shape
            fa = (lambda *i: xa.at(*i)) if isinstance(xa, ArrObj) else (lambda *i: xa)
            fb = (lambda *i: xb.at(*i)) if isinstance(xb, ArrObj) else (lambda *i: xb)
            for o in (xa, xb):
                if isinstance(o, ArrObj):
                    shape2, _, _ = self.broadcast(ex, C0, o, lineno)
                    if len(shape2) != len(shape):
                        raise Unsupported("where with rank change")
            return self.new(ex, k, shape, self.lam(len(shape), lambda *i: z3.If(_conv(C0.at(*i), C0.kind, "b"), _conv(fa(*i), ka, k), _conv(fb(*i), kb, k))))
        if fn in ("abs", "absolute", "fabs") and _is_arr(ex, args[0]):
            A = _arr(ex, args[0])
            return self.new(ex, A.kind, A.shape, self.lam(A.rank, lambda *i: z3.If(A.at(*i) < 0, -A.at(*i), A.at(*i))))
        if fn in ("round", "around", "rint") and _is_arr(ex, args[0]):
            A = _arr(ex, args[0])
            ex.assumed.add("numpy.round: uninterpreted rounding with ground axioms (integer-valued, within 1/2, fixes integers)")
            return self.new(ex, "f", A.shape, self.lam(A.rank, lambda *i: np_round(_conv(A.at(*i), A.kind, "f"))))
        if fn in ("logical_and", "logical_or") and _is_arr(ex, args[0]) and _is_arr(ex, args[1]):
            A, B = _arr(ex, args[0]), _arr(ex, args[1])
            shape, fa, fb = self.broadcast(ex, A, B, lineno)
            f = z3.And if fn == "logical_and" else z3.Or
            return self.new(ex, "b", shape, self.lam(len(shape), lambda *i: f(_conv(fa(*i), A.kind, "b"), _conv(fb(*i), B.kind, "b"))))
        if fn == "logical_not" and _is_arr(ex, args[0]):
            return self.ev_invert(ex, args[0]) if _arr(ex, args[0]).kind == "b" else NotImplemented
        if fn in ("isnan", "isinf", "isfinite") and _is_arr(ex, args[0]):
            A = _arr(ex, args[0])
            if A.kind != "f":
                v = fn == "isfinite"
                return self.new(ex, "b", A.shape, self.lam(A.rank, lambda *i: z3.BoolVal(v)))
            tag = {"isnan": lambda t: is_nan_r(t), "isinf": lambda t: z3.Or(is_inf(t), is_ninf(t)),
                   "isfinite": lambda t: z3.Not(z3.Or(is_inf(t), is_ninf(t), is_nan_r(t)))}[fn]
            return self.new(ex, "b", A.shape, self.lam(A.rank, lambda *i: tag(A.at(*i))))
        if fn in ("all", "any") and _is_arr(ex, args[0]) and len(args) == 1 and not kwargs:
            return self.call_method(ex, args[0], f"np.{fn}", [], {}, lineno)
        if fn == "argmin" and _is_arr(ex, args[0]) and _arr(ex, args[0]).rank == 1 and len(args) == 1:
            from .engine import PyRaise

            A = _arr(ex, args[0])
            if not st.decide(A.shape[0] > 0):
                raise PyRaise("ValueError", lineno)
            r = st.fresh_int("argmin")
            j = z3.Int("j!am")
            st.assume(z3.And(0 <= r, r < A.shape[0]))
            le = lambda a, b: z3.If(is_inf(b), z3.BoolVal(True), z3.If(is_inf(a), z3.BoolVal(False), a <= b))  # +inf-tagged values are the largest  # noqa: E731
            st.assume(z3.ForAll([j], z3.Implies(z3.And(0 <= j, j < A.shape[0]), le(A.elems[r], A.elems[j])), patterns=[A.elems[j]]))
            st.assume(z3.ForAll([j], z3.Implies(z3.And(0 <= j, j < r), z3.Not(le(A.elems[j], A.elems[r]))), patterns=[A.elems[j]]))
            ex.assumed.add("numpy.argmin: first index of a minimal element, +inf-tagged values being the largest (NaN ordering not modelled)")
            return SV(r, TInt)
        if fn in ("minimum", "maximum") and len(args) == 2:
            r = self.compare_any(ex, "LtE" if fn == "minimum" else "GtE", args[0], args[1], lineno)
            return self.call_builtin(ex, "numpy.where", [r, args[0], args[1]], {}, lineno)
        if fn in ("sum",) and _is_arr(ex, args[0]) and len(args) == 1 and not kwargs:
            A = _arr(ex, args[0])
            if A.rank == 1:
                return SV(self.vsum(ex, A), TReal if A.kind == "f" else TInt)
        if fn == "linalg.norm" and _is_arr(ex, args[0]) and len(args) == 1 and not kwargs:
            A = _arr(ex, args[0])
            ty = TArr(A.kind, A.rank)
            f = z3.Function(f"np_norm_{A.kind}{A.rank}", ty.sort(), z3.RealSort())
            r = f(ty.embed(st, args[0]))
            st.assume(r >= 0)
            ex.assumed.add("numpy.linalg.norm: an uninterpreted non-negative function of the array content")
            return SV(r, TReal)
        if fn in ("exp", "log", "sqrt") and _is_arr(ex, args[0]):
            A = _arr(ex, args[0])
            f = {"exp": np_exp, "log": np_log, "sqrt": np_sqrt}[fn]
            return self.new(ex, "f", A.shape, self.lam(A.rank, lambda *i: f(_conv(A.at(*i), A.kind, "f"))))
        if fn == "diag" and _is_arr(ex, args[0]):
            A = _arr(ex, args[0])
            if A.rank == 1:
                zero = _conv(z3.IntVal(0), "i", A.kind)
                return self.new(ex, A.kind, (A.shape[0], A.shape[0]), self.lam(2, lambda i, j: z3.If(i == j, A.elems[i], zero)))
            return self.new(ex, A.kind, (z3.If(A.shape[0] < A.shape[1], A.shape[0], A.shape[1]),), self.lam(1, lambda i: A.at(i, i)))
        if fn == "tile" and _is_arr(ex, args[0]) and _arr(ex, args[0]).rank == 1 and ex.num(args[1]) is not None:
            return TiledV(args[0], ex.num(args[1])[0])
        if fn == "array_equal" and _is_arr(ex, args[0]) and _is_arr(ex, args[1]):
            A, B = _arr(ex, args[0]), _arr(ex, args[1])
            if A.rank != B.rank:
                return False
            vs = [z3.Int(f"i!ae{j}") for j in range(A.rank)]
            rng = z3.And(*[z3.And(0 <= v, v < s) for v, s in zip(vs, A.shape)])
            k = _join_kind(A.kind, B.kind)
            return SV(z3.And(*[x == y for x, y in zip(A.shape, B.shape)], z3.ForAll(vs, z3.Implies(rng, _conv(A.at(*vs), A.kind, k) == _conv(B.at(*vs), B.kind, k)))), TBool)
        raise Unsupported(f"numpy.{fn} on precise arrays")

    def class_constant(self, ex, ci, name):
        if name.endswith("__FLOAT_DTYPE") or name.endswith("__DEFAULT_COMMON_DTYPE"):
            return DTYPE.mk(ex.st, kind="f")
        if name.endswith("__INT_DTYPE"):
            return DTYPE.mk(ex.st, kind="i")
        return NotImplemented

    def module_constant(self, ex, mi, name):
        if name == "sparse_classes":
            return (BuiltinV("scipy.sparse.spmatrix"), BuiltinV("scipy.sparse.sparray"))
        if name == "array_classes":
            return (BuiltinV("numpy.ndarray"), BuiltinV("scipy.sparse.spmatrix"), BuiltinV("scipy.sparse.sparray"))
        return NotImplemented


class TiledV:
    """tile(x, n) of a vector, only meaningful as tile(x, n).reshape((n, d)).T (perturbation matrices)."""

    def __init__(self, base: Ref, reps):
        self.base, self.reps = base, reps
