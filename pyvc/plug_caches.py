"""C05 plugin: what gemseo.caches.base_full_cache / memory_full_cache need beyond the core models.

* ``multiprocessing.Value`` cells (``_max_index``, ``_last_accessed_index``): plain objects with one
  ``value`` field (class ``multiprocessing.sharedctypes.Synchronized``, schema in the contract file).
* ``BaseCache.Group`` (a ``StrEnum`` nested class): its members *are* their string values.
* the index arrays stored in ``_hashes_to_indices`` (``array([i])``, ``append(indices, i)``,
  iteration): rank-1 integer arrays modelled as lists of ints (only inside the cache modules).
* ghost code: a contract may carry ``ghost_code = {"<ast.unparse of a statement>": fn(c) -> {ghost: term}}``;
  the updates are applied right *before* that statement of the function under contract is executed.
  Ghost code can only assign declared ghost variables (never program state).
* ``multiprocessing`` manager dictionaries (``DictProxy``): an object stored into a proxied dict is
  pickled, i.e. the dict holds a deep copy (fresh arrays with equal contents).  Contracts name the
  proxied field and the flag that tells whether it is a proxy through ``PROXY_FIELDS``.
"""
from __future__ import annotations

import ast

import z3

from . import contract as C
from .values import GHOST_SORTS, ClassV, DictObj, ListObj, PyObj, Ref, SV, TBool, TDict, TInt, TList, TStr

GROUP_CLS = "gemseo.caches.base_cache.BaseCache.Group"
GROUP_MEMBERS = {"INPUTS": "inputs", "OUTPUTS": "outputs", "JACOBIAN": "jacobian"}
GRAMMAR_CLS = "gemseo.core.grammars.base_grammar.BaseGrammar"
CACHE_MODULES = ("gemseo.caches.base_full_cache", "gemseo.caches.memory_full_cache")

# (class qualname, field) -> (flag field, copier(ex, value_term, type) -> value_term)
PROXY_FIELDS: dict = {}


def _in_cache_module(ex):
    return ex.frame.module.name in CACHE_MODULES


def _int_list(ex, v):
    if isinstance(v, Ref):
        o = ex.st.heap[v.id]
        if isinstance(o, ListObj) and (o.t == TInt or o.is_empty_literal):
            return o
    return None


class CacheModels:
    # ---- BaseCache.Group
    def pyobj_attr(self, ex, ref, o, attr, lineno):
        if attr == "Group" and any(q == "gemseo.caches.base_cache.BaseCache" for q in _mro(o.cls)):
            return ClassV(GROUP_CLS)
        return NotImplemented

    def class_attr(self, ex, cv, attr):
        if cv.qualname == GROUP_CLS and attr in GROUP_MEMBERS:
            return GROUP_MEMBERS[attr]
        if attr == "Group" and any(q == "gemseo.caches.base_cache.BaseCache" for q in _mro(cv.qualname)):
            return ClassV(GROUP_CLS)
        return NotImplemented

    # ---- integer index arrays as lists
    def call_builtin(self, ex, name, args, kwargs, lineno, node=None):
        if not _in_cache_module(ex):
            return NotImplemented
        st = ex.st
        if name == "numpy.array" and len(args) == 1 and not kwargs:
            o = _int_list(ex, args[0])
            if o is not None and not o.is_empty_literal:
                c = o.clone()
                c.origin = None
                return st.alloc(c)
        if name == "numpy.append" and len(args) == 2 and not kwargs:
            o = _int_list(ex, args[0])
            n = ex.num(args[1])
            if o is not None and not o.is_empty_literal and n is not None and n[1] == TInt:
                c = ListObj(TInt, o.n + 1, z3.Store(o.elems, o.n, n[0]))
                c.ty = TList(TInt)
                return st.alloc(c)
        return NotImplemented

    # ---- grammars (Mapping of element names): only their *names* matter here, kept in the model field ``_names``
    def _grammar_names(self, ex, v):
        if isinstance(v, Ref):
            o = ex.st.heap[v.id]
            if isinstance(o, PyObj) and GRAMMAR_CLS in _mro(o.cls) and "_names" in o.fields:
                return ex.st.heap[o.fields["_names"].id]
        return None

    def pyobj_truth(self, ex, ref, o):
        names = self._grammar_names(ex, ref)
        return names.n != 0 if names is not None else NotImplemented

    def contains(self, ex, cont, item, lineno):
        names = self._grammar_names(ex, cont)
        if names is None:
            return NotImplemented
        return SV(names.member[TStr.embed(ex.st, item)], TBool)

    def to_iter(self, ex, v, lineno):
        names = self._grammar_names(ex, v)
        if names is None:
            return NotImplemented
        return ex.to_iter(ex.st.heap[v.id].fields["_names"], lineno)

    def binop(self, ex, op, a, b, lineno, inplace=False):
        from .models import DictView

        names = self._grammar_names(ex, b)
        if names is not None and isinstance(a, DictView) and a.kind == "keys" and op == "Sub":
            return ex.models._set_binary(ex, ex.st.heap[a.ref.id], names.member, "difference")
        return NotImplemented

    def construct(self, ex, cv, args, kwargs, lineno):
        if cv.qualname == "gemseo.core.discipline.discipline_data.DisciplineData" and not kwargs and len(args) <= 1:
            # a dict subclass: DisciplineData(d) is a shallow copy of d
            return ex.models.call_builtin(ex, "dict", list(args), {}, lineno)
        return NotImplemented

    # ---- ghost code
    def before_stmt(self, ex, node):
        fr = ex.frame
        fi = getattr(fr, "finfo", None)
        if fi is None:
            return NotImplemented
        ct = ex.contract if fi is ex.finfo else C.lookup(fi.qualname, fi.kind == "setter")
        code = getattr(ct, "ghost_code", None) if ct is not None else None
        if not code or isinstance(node, (ast.For, ast.While, ast.If, ast.With, ast.Try)):
            return NotImplemented
        fn = code.get(ast.unparse(node))
        if fn is None:
            return NotImplemented
        c = ex._loop_ctx(None, None)
        for name, term in fn(c).items():
            if name not in GHOST_SORTS:
                raise ValueError(f"ghost code may only assign declared ghost variables, not {name}")
            ex.st.ghost_set(name, term)
        return NotImplemented

    # ---- manager dictionaries store pickled copies
    def setitem(self, ex, cont, key, v, lineno):
        if not PROXY_FIELDS or not isinstance(cont, Ref):
            return NotImplemented
        st = ex.st
        for i, o in st.heap.items():
            if not isinstance(o, PyObj):
                continue
            for (cls, field), (flag, copier) in PROXY_FIELDS.items():
                f = o.fields.get(field)
                if isinstance(f, Ref) and f.id == cont.id and cls in _mro(o.cls):
                    d = st.heap[cont.id]
                    shared = ex.truth(o.fields[flag])
                    if not st.decide(shared):
                        return NotImplemented
                    # proxied: store a deep copy of the value
                    ex.models._retype_empty(ex, d, key, v)
                    vt = copier(ex, d.v.embed(st, v), d.v)
                    d.set(st, d.k.embed(st, key), vt)
                    ex.writeback(d)
                    ex.assumed.add("multiprocessing manager DictProxy: an assigned value is stored as a deep copy (pickled)")
                    return None
        return NotImplemented


def _mro(q):
    from . import source as S

    return S.mro(q)
