"""C15 plugin: an ABSTRACT pydantic model for gemseo.core.grammars.pydantic_grammar (every hook is gated on that module / on the model objects below).

A model class created by ``pydantic.create_model`` is a heap object of class ``PYD_MODEL`` with
  * ``model_fields``: the live dictionary name -> FieldInfo (opaque values; ``FieldInfo(annotation=a)`` and ``.annotation`` are inverse uninterpreted functions),
  * ``_built`` (ghost): the fields dictionary the validation / JSON schema of the class was last built from - pydantic builds it at class creation and at
    ``model_rebuild(force=True)`` only; ``model_validate`` and ``model_json_schema`` are functions of ``_built``, NOT of ``model_fields``.
ASSUMED: create_model("Model") has no field; model_rebuild(force=True) rebuilds from the current fields; copy.copy(model class) is the class itself (CPython:
classes are copied atomically).
"""
from __future__ import annotations

import z3

from . import contract as C
from .values import BoundMethod, BuiltinV, ClassV, DictObj, PyObj, Ref, SV, TBool, TDict, TObj, TStr, TVal, Unsupported, ValS, val_none

PG = "gemseo.core.grammars.pydantic_grammar.PydanticGrammar"
PG_MODULE = "gemseo.core.grammars.pydantic_grammar"
PYD_MODEL = "pydantic.BaseModel#created"
PYD_EXC = "pydantic.ValidationError"
FIELDS_T = TDict(TStr, TVal)
Str = TStr.sort()

field_of_annotation = z3.Function("pyd_field_of_annotation", ValS, ValS)  # FieldInfo(annotation=a)
annotation_of = z3.Function("pyd_annotation_of", ValS, ValS)  # field.annotation
union_of = z3.Function("pyd_union", ValS, ValS, ValS)  # Union[a, b]
origin_of = z3.Function("pyd_get_origin", ValS, ValS)  # typing get_origin(a)
is_simple_type = z3.Function("pyd_is_simple_type", ValS, z3.BoolSort())  # a in PydanticGrammar.__SIMPLE_TYPES
pyd_accepts = z3.Function("pyd_model_accepts", FIELDS_T.sort(), TDict(TStr, TVal).sort(), z3.BoolSort())  # model_validate(data, strict=True) does not raise
schema_names = z3.Function("pyd_schema_names", ValS, z3.ArraySort(Str, z3.BoolSort()))  # what a model_json_schema() value lists
schema_fields = z3.Function("pyd_schema_fields", ValS, z3.ArraySort(Str, ValS))
ND_PYDANTIC = BuiltinV("gemseo.utils.pydantic_ndarray.NDArrayPydantic")
SIMPLE = "pyd.SIMPLE_TYPES"


def field_axioms():
    a = z3.Const("a!pyd", ValS)
    return [z3.ForAll([a], annotation_of(field_of_annotation(a)) == a, patterns=[field_of_annotation(a)])]


def _model(ex, v):
    if isinstance(v, Ref):
        o = ex.st.heap.get(v.id)
        if isinstance(o, PyObj) and o.cls == PYD_MODEL:
            return o
    return None


def built_term(d):
    return FIELDS_T.dt.mk(d.member, d.vals, d.n)


def _in_module(ex):
    return ex.frame.module.name == PG_MODULE


class PydanticModels:
    def module_constant(self, ex, mi, name):
        if mi.name == "gemseo.utils.pydantic_ndarray" and name == "NDArrayPydantic":
            return ND_PYDANTIC
        return NotImplemented

    def builtin_constant(self, ex, name):
        if name == PYD_EXC:
            return ClassV(PYD_EXC)
        return NotImplemented

    def class_constant(self, ex, ci, name):
        if name == "_PydanticGrammar__SIMPLE_TYPES" and ci.qualname == PG:
            return BuiltinV(SIMPLE)
        return NotImplemented

    def contains(self, ex, cont, item, lineno):
        if isinstance(cont, BuiltinV) and cont.name == SIMPLE:
            from .plug_grammars import as_val

            t = as_val(ex, item)
            if t is None:
                return NotImplemented
            return SV(is_simple_type(t), TBool)
        return NotImplemented

    def call_builtin(self, ex, name, args, kwargs, lineno, node=None):
        if not _in_module(ex):
            return NotImplemented
        st = ex.st
        if name == "pydantic.create_model" and len(args) == 1 and not kwargs:
            ref = TObj(PYD_MODEL).fresh(st, "model")
            o = st.heap[ref.id]
            for f in ("model_fields", "_built"):
                d = st.heap[o.fields[f].id]
                e = DictObj.empty(st, TStr, TVal, ordered=d.keys is not None)
                d.member, d.vals, d.n, d.keys, d.pos = e.member, e.vals, e.n, e.keys, e.pos
            ex.assumed.add("model:pydantic.create_model('Model') is a new model class without field")
            return ref
        if name == "pydantic.create_model" and len(args) == 1 and set(kwargs) == {"__base__"} and _model(ex, kwargs["__base__"]) is not None:
            # a subclass of an existing model: NOTHING is assumed about the fields it inherits nor about the schema pydantic builds for it
            # (PydanticGrammar._copy assigns model_fields explicitly and raises the rebuild flag)
            return TObj(PYD_MODEL).fresh(st, "submodel")
        if name == "pydantic.fields.FieldInfo" and not args and set(kwargs) == {"annotation"}:
            from .plug_grammars import as_val

            a = as_val(ex, kwargs["annotation"])
            if a is None:
                raise Unsupported("FieldInfo(annotation=<non-opaque value>)")
            return SV(field_of_annotation(a), TVal)
        if name in ("typing_extensions.get_origin", "typing.get_origin") and len(args) == 1 and isinstance(args[0], SV) and args[0].ty.sort() == ValS:
            return SV(origin_of(args[0].term), TVal)
        return NotImplemented

    def getitem(self, ex, cont, key, lineno):
        if isinstance(cont, BuiltinV) and cont.name == "typing.Union" and isinstance(key, tuple) and len(key) == 2 and _in_module(ex):
            from .plug_grammars import as_val

            a, b = as_val(ex, key[0]), as_val(ex, key[1])
            if a is not None and b is not None:
                return SV(union_of(a, b), TVal)
        return NotImplemented

    def value_attr(self, ex, obj, attr, lineno):
        if isinstance(obj, SV) and obj.ty == TVal and attr == "annotation" and _in_module(ex):
            return SV(annotation_of(obj.term), TVal)
        return NotImplemented

    def pyobj_attr(self, ex, ref, o, attr, lineno):
        if o.cls == PYD_MODEL and attr == "__name__":
            return SV(ex.st.fresh_const("model_name", Str), TStr)
        if o.cls == PYD_MODEL and attr in ("model_rebuild", "model_validate", "model_json_schema"):
            return BoundMethod(ref, None, f"pydmodel.{attr}")
        return NotImplemented

    def call_method(self, ex, recv, name, args, kwargs, lineno):
        from .engine import PyRaise

        st = ex.st
        if name.startswith("pydmodel."):
            o = _model(ex, recv)
            fields, built = st.heap[o.fields["model_fields"].id], st.heap[o.fields["_built"].id]
            what = name[9:]
            if what == "model_rebuild":
                # (force=True) the validation schema is rebuilt from the CURRENT fields
                built.member, built.vals, built.n = fields.member, fields.vals, fields.n
                if built.keys is not None:
                    fields.ensure_order(st)
                    built.keys, built.pos = fields.keys, fields.pos
                ex.assumed.add("model:model_rebuild(force=True) rebuilds the validation schema from the current model_fields")
                return None
            if what == "model_validate":
                d = TDict(TStr, TVal).embed(st, args[0])
                if not st.decide(pyd_accepts(built_term(built), d)):
                    raise PyRaise(PYD_EXC, lineno)
                ex.assumed.add("model:model_validate / model_json_schema are functions of the schema built at creation / at the last model_rebuild")
                return args[0]
            if what == "model_json_schema":
                v = st.fresh_const("pyd_schema", ValS)
                # (quantifier-free on purpose: what the schema value lists IS the built dictionary; keeps counter-models cheap)
                st.assume(z3.And(schema_names(v) == built.member, schema_fields(v) == built.vals))
                return SV(v, TVal)
        if isinstance(recv, SV) and recv.ty == TStr and name == "split" and _in_module(ex):
            return (SV(st.fresh_const("line", Str), TStr),)  # lines of an error message (text is dropped)
        return NotImplemented

    def shallow_copy(self, ex, v, lineno):
        if _model(ex, v) is not None:
            return v  # copy.copy(<class object>) is the class itself
        return NotImplemented

    def compare_any(self, ex, op, a, b, lineno):
        # `annotation is ndarray` / `x is NDArrayPydantic`-style identity tests on opaque annotations are handled by plug_grammars (type constants)
        return NotImplemented
