"""MDAChain plugin (C08 / C09): abstract process factories, the iterator of sub coupling structures, abstract linearisation.

Every hook is gated on the opt-in attribute ``mdachain = True`` of the contract being verified (``ex.contract``).

* Processes are opaque disciplines (sort ``Disc`` of plug_graph).  The three constructors used by MDAChain are uninterpreted
  functions with observers (ground facts are assumed at each construction):
    - inner MDA:        ``mk_mda(class, disciplines, settings, sub coupling structure)``      kind 1
    - ``MDOChain``:      ``mk_chain(processes, name)``                                         kind 2
    - ``MDOParallelChain``: ``mk_parallel(processes, settings)``                               kind 3
* ``isinstance(d, BaseMDA)`` on an opaque discipline is the uninterpreted predicate ``is_base_mda(d)``.
* ``iter(list)`` / ``itertools.repeat(None)`` / ``next(it)``: a small iterator object (items, position, endless-None flag).
* Abstract linearisation of an opaque discipline (C09): ghost maps ``c09m_state`` (the point at which the discipline was last
  executed) and ``c09m_jac`` (its ``jac`` attribute):  ``d.linearize(data, execute=e)`` = [e => state(d) := point(data)];
  jac(d) := Jac(d, state(d), differentiated inputs of d, differentiated outputs of d).
"""
from __future__ import annotations

import z3

from .plug_graph import DIFF_S, DLIST, DiscS, NameSetS, TDisc
from .values import DictObj, ListObj, PyObj, Ref, SV, StrS, TBool, TDict, TInt, TList, TStr, TVal, Unsupported, ValS, declare_ghost, val_none

I = z3.IntSort()  # noqa: E741
B = z3.BoolSort()
LS = DLIST.sort()

KIND_MDA, KIND_CHAIN, KIND_PARALLEL = 1, 2, 3
mk_mda = z3.Function("mk_mda", ValS, LS, ValS, ValS, DiscS)
mk_chain = z3.Function("mk_chain", LS, StrS, DiscS)
mk_parallel = z3.Function("mk_parallel", LS, ValS, DiscS)
proc_kind = z3.Function("proc_kind", DiscS, I)
proc_items = z3.Function("proc_items", DiscS, LS)  # the disciplines / processes the process was built from
proc_class = z3.Function("proc_class", DiscS, ValS)
proc_settings = z3.Function("proc_settings", DiscS, ValS)
proc_sub = z3.Function("proc_sub", DiscS, ValS)  # the sub coupling structure given to an inner MDA
proc_name = z3.Function("proc_name", DiscS, StrS)
is_base_mda = z3.Function("is_base_mda", DiscS, B)
inner_settings_f = z3.Function("inner_mda_settings", ValS, ValS, ValS, ValS)  # (inner_mda_settings, other settings, inner class)

SETTINGS = "mdachain.Settings"
ITER = "mdachain.Iterator"
INNER_SETTINGS = "mdachain.InnerSettings"
SETTINGS_FIELDS = {
    "chain_linearize": TBool,
    "mdachain_parallelize_tasks": TBool,
    "mdachain_parallel_settings": TVal,
    "inner_mda_settings": TVal,
    "sub_coupling_structures": TList(TVal),
    "_sub_mdas": DLIST,
    "rest": TVal,  # every other field
}
ITER_FIELDS = {"items": TList(TVal), "pos": TInt, "endless_none": TBool}
INNER_SETTINGS_FIELDS = {"base": TVal, "coupling_structure": TVal}

# ---- abstract linearisation (C09)
point_of = z3.Function("point_of", z3.ArraySort(StrS, B), z3.ArraySort(StrS, ValS), ValS)  # the content of a data mapping, as a point
jac_at = z3.Function("jac_at", DiscS, ValS, NameSetS, NameSetS, ValS)  # Jacobian of a discipline at a state point for given differentiated names
STATE_S = z3.ArraySort(DiscS, ValS)
declare_ghost("c09m_state", STATE_S)
declare_ghost("c09m_jac", STATE_S)


IOX = "mdachain.IO"
IOX_FIELDS = {"_IO__data": TDict(TStr, TVal)}
input_part_m = z3.Function("io_input_data_member", z3.ArraySort(StrS, B), z3.ArraySort(StrS, ValS), z3.ArraySort(StrS, B))  # io.get_input_data(): keys ...
input_part_v = z3.Function("io_input_data_vals", z3.ArraySort(StrS, B), z3.ArraySort(StrS, ValS), z3.ArraySort(StrS, ValS))  # ... and values


def _on(ex):
    return getattr(ex.contract, "mdachain", False)


def _list_term(ex, v):
    st = ex.st
    if isinstance(v, Ref) and isinstance(st.heap[v.id], ListObj):
        o = st.heap[v.id]
        if o.is_empty_literal:
            return DLIST.dt.mk(z3.IntVal(0), st.fresh_const("el", z3.ArraySort(I, DiscS)))
        if o.t != TDisc:
            raise Unsupported("process built from a list that is not a list of disciplines")
        return DLIST.dt.mk(o.n, o.elems)
    raise Unsupported(f"process built from {v!r}")


def _new_iter(ex, items_ref, endless):
    st = ex.st
    if items_ref is None:
        items_ref = TList(TVal).fresh(st, "noitems")
    return st.alloc(PyObj(ITER, {"items": items_ref, "pos": SV(z3.IntVal(0), TInt), "endless_none": SV(z3.BoolVal(endless), TBool)}))


class MdaChainModels:
    # ------------------------------------------------------------------ constructors
    def construct(self, ex, cv, args, kwargs, lineno):
        if not _on(ex):
            return NotImplemented
        st = ex.st
        short = cv.qualname.rsplit(".", 1)[-1]
        if short == "MDOChain":
            lt = _list_term(ex, args[0] if args else kwargs["disciplines"])
            name = kwargs.get("name", "")
            p = mk_chain(lt, TStr.embed(st, name))
            st.assume(z3.And(proc_kind(p) == KIND_CHAIN, proc_items(p) == lt, proc_name(p) == TStr.embed(st, name)))
            ex.assumed.add("MDOChain(...)/MDOParallelChain(...)/inner MDA class(...): abstract constructors (uninterpreted functions of their arguments, with observers)")
            return SV(p, TDisc)
        if short == "MDOParallelChain":
            lt = _list_term(ex, args[0] if args else kwargs["disciplines"])
            sv = kwargs.get("**")
            s = TVal.embed(st, sv) if sv is not None else val_none
            p = mk_parallel(lt, s)
            st.assume(z3.And(proc_kind(p) == KIND_PARALLEL, proc_items(p) == lt, proc_settings(p) == s))
            return SV(p, TDisc)
        return NotImplemented

    def call_opaque(self, ex, fv, args, kwargs, lineno):
        if not _on(ex):
            return NotImplemented
        st = ex.st
        if isinstance(fv, SV) and fv.ty == TVal and not args and set(kwargs) == {"disciplines", "settings_model"}:
            # the inner MDA class called as a constructor
            lt = _list_term(ex, kwargs["disciplines"])
            sm = kwargs["settings_model"]
            so = st.heap[sm.id] if isinstance(sm, Ref) else None
            if not (isinstance(so, PyObj) and so.cls == INNER_SETTINGS):
                raise Unsupported("inner MDA settings model of an unexpected kind")
            base, sub = so.fields["base"].term, so.fields["coupling_structure"].term
            p = mk_mda(fv.term, lt, base, sub)
            st.assume(z3.And(proc_kind(p) == KIND_MDA, proc_items(p) == lt, proc_class(p) == fv.term, proc_settings(p) == base, proc_sub(p) == sub))
            return SV(p, TDisc)
        return NotImplemented

    def isinstance_(self, ex, v, cls):
        if not _on(ex):
            return NotImplemented
        if isinstance(v, SV) and v.ty.sort() == DiscS:
            names = [getattr(c, "qualname", getattr(c, "name", "?")).rsplit(".", 1)[-1] for c in (cls if isinstance(cls, tuple) else (cls,))]
            if names == ["BaseMDA"]:
                return SV(is_base_mda(v.term), TBool)
            raise Unsupported(f"isinstance of an opaque discipline against {names}")
        return NotImplemented

    # ------------------------------------------------------------------ iterators
    def call_builtin(self, ex, name, args, kwargs, lineno, node=None):
        if not _on(ex):
            return NotImplemented
        st = ex.st
        if name == "itertools.repeat" and len(args) == 1 and args[0] is None:
            return _new_iter(ex, None, True)
        if name == "iter" and len(args) == 1 and isinstance(args[0], Ref):
            o = st.heap[args[0].id]
            if isinstance(o, PyObj) and o.cls == ITER:
                return args[0]
            if isinstance(o, ListObj) and not o.is_empty_literal:
                c = o.clone()  # the iterator walks the list as it is now (the list is not modified by the functions under contract)
                c.origin = None
                return _new_iter(ex, st.alloc(c), False)
        if name == "next" and len(args) == 1 and isinstance(args[0], Ref) and isinstance(st.heap[args[0].id], PyObj) and st.heap[args[0].id].cls == ITER:
            from .engine import PyRaise

            o = st.heap[args[0].id]
            if st.decide(o.fields["endless_none"].term):
                return None
            items = st.heap[o.fields["items"].id]
            pos = o.fields["pos"].term
            if not st.decide(pos < items.n):
                raise PyRaise("StopIteration", lineno)
            o.fields["pos"] = SV(pos + 1, TInt)
            return SV(items.elems[pos], TVal)
        return NotImplemented

    # ------------------------------------------------------------------ abstract linearisation (C09)
    def pyobj_attr(self, ex, ref, o, attr, lineno):
        if _on(ex) and o.cls == IOX and attr == "get_input_data":
            from .values import BoundMethod

            return BoundMethod(ref, None, "mdachain.get_input_data")
        if _on(ex) and o.cls == IOX and attr == "data":
            return o.fields["_IO__data"]  # the `data` property
        return NotImplemented

    def value_attr(self, ex, obj, attr, lineno):
        if not _on(ex):
            return NotImplemented
        if isinstance(obj, SV) and obj.ty is TDisc or (isinstance(obj, SV) and obj.ty == TDisc):
            if attr == "linearize":
                from .values import BoundMethod

                return BoundMethod(obj, None, "mdachain.linearize")
            if attr == "jac":
                return SV(ex.st.ghost_get("c09m_jac", STATE_S)[obj.term], TVal)
        return NotImplemented

    def call_method(self, ex, recv, name, args, kwargs, lineno):
        if not _on(ex):
            return NotImplemented
        st = ex.st
        if name == "mdachain.get_input_data" and not args and not kwargs:
            # io.get_input_data(): a new mapping, deterministic function of the content of io.data (its restriction to the input names)
            d = st.heap[st.heap[recv.id].fields["_IO__data"].id]
            o = DictObj(TStr, TVal, input_part_m(d.member, d.vals), input_part_v(d.member, d.vals), st.fresh_int("indn"))
            for f in o.wf_facts(st):
                st.assume(f)
            ex.assumed.add("IO.get_input_data(): a new mapping that is a deterministic function of the content of io.data (assumed)")
            return st.alloc(o)
        if name != "mdachain.linearize":
            return NotImplemented
        d = recv.term
        data = args[0] if args else kwargs.get("input_data")
        execute = kwargs.get("execute", args[1] if len(args) > 1 else True)
        o = st.heap[data.id] if isinstance(data, Ref) else None
        if not isinstance(o, DictObj) or o.is_empty_literal:
            raise Unsupported("linearize() without a data mapping")
        state = st.ghost_get("c09m_state", STATE_S)
        t = ex.truth(execute)
        pt = point_of(o.member, o.vals)
        new_pt = pt if t is True else (state[d] if t is False else z3.If(t, pt, state[d]))
        state = z3.Store(state, d, new_pt)
        st.ghost_set("c09m_state", state)
        di, do = st.ghost_get("c09_diff_in", DIFF_S), st.ghost_get("c09_diff_out", DIFF_S)
        jac = st.ghost_get("c09m_jac", STATE_S)
        st.ghost_set("c09m_jac", z3.Store(jac, d, jac_at(d, new_pt, di[d], do[d])))
        ex.assumed.add("abstract inner chain: linearize(data, execute) = [execute => state point := content of data]; jac := Jac(discipline, state point, differentiated inputs, differentiated outputs)")
        return None
