"""gemseo-/numpy-facing models shared by all contract files (trusted base, DESIGN.md §2.4).

* ``TAddr`` values: references to mutable arrays living in a symbolic heap; ``.copy()`` and
  ``deepcopy`` allocate a fresh address with equal content.
* ``typing.NamedTuple`` classes of the repository: concrete-shape records.
* logging / warnings: no-ops (DESIGN §2.2).
"""
from __future__ import annotations

import ast

import z3

from . import source as S
from .values import (BoundMethod, BuiltinV, ClassV, RecV, Ref, SV, TAddr, TBool, TStruct, TVal, Unsupported, ValS)

is_ndarray = z3.Function("is_ndarray", ValS, z3.BoolSort())


class GemseoModels:
    def value_attr(self, ex, obj, attr, lineno):
        if isinstance(obj, SV) and isinstance(obj.ty, TAddr):
            return BoundMethod(obj, None, attr)
        return NotImplemented

    def call_method(self, ex, recv, name, args, kwargs, lineno):
        st = ex.st
        if isinstance(recv, SV) and isinstance(recv.ty, TAddr):
            if name == "copy":
                return self._copy_addr(ex, recv)
        return NotImplemented

    def _copy_addr(self, ex, v):
        st = ex.st
        t = v.ty
        h = st.symheap(t.heap, t.content.sort())
        a = st.alloc_addr(t.heap, h[v.term], t.content.sort())
        return SV(a, t)

    def deep_copy(self, ex, v, lineno):
        if isinstance(v, SV) and isinstance(v.ty, TAddr):
            return self._copy_addr(ex, v)
        return NotImplemented

    def shallow_copy(self, ex, v, lineno):
        if isinstance(v, SV) and isinstance(v.ty, TAddr):
            return self._copy_addr(ex, v)
        return NotImplemented

    def isinstance_(self, ex, v, cls):
        if isinstance(v, SV) and isinstance(v.ty, TAddr):
            names = [c.name if isinstance(c, BuiltinV) else c.qualname for c in (cls if isinstance(cls, tuple) else (cls,))]
            if all(n.rsplit(".", 1)[-1] == "ndarray" for n in names):
                h = ex.st.symheap(v.ty.heap, v.ty.content.sort())
                if v.ty.content == TVal:
                    return SV(is_ndarray(h[v.term]), TBool)
            raise Unsupported(f"isinstance of an array reference against {names}")
        return NotImplemented

    def construct(self, ex, cv, args, kwargs, lineno):
        ci = S.load_class(cv.qualname)
        if ci is not None and any(b.rsplit(".", 1)[-1] == "NamedTuple" for b in ci.bases):
            names = [it.target.id for it in ci.node.body if isinstance(it, ast.AnnAssign) and isinstance(it.target, ast.Name)]
            vals = dict(zip(names, args))
            vals.update(kwargs)
            if set(vals) != set(names):
                raise Unsupported(f"NamedTuple {cv.qualname} with defaults")
            return RecV(TStruct(cv.qualname, {}), {n: vals[n] for n in names})
        return NotImplemented

    def getitem(self, ex, cont, key, lineno):
        if isinstance(cont, RecV) and isinstance(key, int):
            return list(cont.vals.values())[key]
        return NotImplemented
