"""gemseo-/numpy-facing models shared by all contract files (trusted base, DESIGN.md §2.4).

* ``TAddr`` values: references to mutable arrays living in a symbolic heap; ``.copy()`` and
  ``deepcopy`` allocate a fresh address with equal content.
* ``typing.NamedTuple`` classes of the repository: concrete-shape records.
* logging / warnings: no-ops (DESIGN §2.2).
"""
from __future__ import annotations

import ast

import z3

from . import source as S
from .values import (BoundMethod, BuiltinV, ClassV, DictObj, PyObj, RecV, Ref, SV, TAddr, TBool, TCallable, TInt, TNd, TRec, TStruct, TVal,
                     Unsupported, ValS, declare_ghost)

is_ndarray = z3.Function("is_ndarray", ValS, z3.BoolSort())
np_isnan = z3.Function("np_isnan", ValS, ValS)
np_any = z3.Function("np_any", ValS, z3.BoolSort())
apply1 = z3.Function("apply1", ValS, ValS, ValS)  # result of calling an opaque callable on one argument

CallRec = z3.Datatype("CallRec")
CallRec.declare("mk", ("call_fn", ValS), ("call_arg", ValS))
CallRec = CallRec.create()
declare_ghost("calllog", z3.ArraySort(z3.IntSort(), CallRec))
declare_ghost("calllog_n", z3.IntSort())

MAPPING_MIXIN = ("get", "items", "values", "keys")
RECORD_CLASSES: dict = {}  # class qualname -> (TRec, constructor(ex, args, kwargs) -> SV)
RECORD_METHODS: dict = {}  # (class qualname, method) -> model(ex, recv, args, kwargs)
RECORD_SETATTR: dict = {}  # class qualname -> model(ex, rec, attr, value) -> stored value | NotImplemented
CLASS_CONSTANTS: dict = {}  # (class qualname, mangled attribute) -> model(ex) -> value   (class-level constants that are not literals)


def _is_mapping(cls):
    return any(q.rsplit(".", 1)[-1] in ("Mapping", "MutableMapping", "ABCMapping", "MutableStrKeyMapping") for q in S.mro(cls))


def has_nan(v):
    return np_any(np_isnan(v))


# ---- opaque numpy layer: results of numpy operations on opaque arrays are uninterpreted functions
# of the operands' contents (deterministic, no side effect on the operands) -----------------------------
val_of_real = z3.Function("val_of_real", z3.RealSort(), ValS)
val_of_bool = z3.Function("val_of_bool", z3.BoolSort(), ValS)
val_pos_inf, val_neg_inf, val_nan = z3.Const("val_pos_inf", ValS), z3.Const("val_neg_inf", ValS), z3.Const("val_nan", ValS)
nd_size = z3.Function("nd_size", ValS, z3.IntSort())
nd_len = z3.Function("nd_len", ValS, z3.IntSort())
np_truth = z3.Function("np_truth", ValS, z3.BoolSort())


def is_opaque(v):
    return isinstance(v, SV) and v.ty.sort() == ValS and not isinstance(v.ty, TRec)


def to_val(ex, v):
    """Embed an operand of an opaque numpy operation into Val (None if impossible)."""
    import math

    from .values import TReal, TStr, str_lit, val_none, val_of_int, val_of_str

    st = ex.st
    if is_opaque(v):
        return v.term
    if v is None:
        return val_none
    if isinstance(v, bool):
        return val_of_bool(z3.BoolVal(v))
    if isinstance(v, int):
        return val_of_int(z3.IntVal(v))
    if isinstance(v, float):
        if math.isinf(v):
            return val_pos_inf if v > 0 else val_neg_inf
        if math.isnan(v):
            return val_nan
        return val_of_real(TReal.embed(st, v))
    if isinstance(v, str):
        return val_of_str(str_lit(v))
    if isinstance(v, SV):
        if v.ty == TInt:
            return val_of_int(v.term)
        if v.ty == TReal:
            return val_of_real(v.term)
        if v.ty == TBool:
            return val_of_bool(v.term)
        if v.ty == TStr:
            return val_of_str(v.term)
    if isinstance(v, tuple):
        parts = [to_val(ex, x) for x in v]
        if all(p is not None for p in parts):
            f = z3.Function(f"val_tuple{len(parts)}", *([ValS] * len(parts)), ValS)
            return f(*parts) if parts else z3.Const("val_empty_tuple", ValS)
    if isinstance(v, BuiltinV):
        return z3.Const(f"val_const_{v.name.replace('.', '_')}", ValS)
    if isinstance(v, Ref):
        from .values import ListObj, TList

        o = st.heap.get(v.id)
        if isinstance(o, ListObj) and not o.is_empty_literal:
            try:
                lt = TList(o.t)
                f = z3.Function(f"val_of_list_{o.t.name}", lt.sort(), ValS)
                return f(lt.embed(st, v))
            except Unsupported:
                return None
    return None


def opaque_apply(ex, fname, operands):
    vals = [to_val(ex, o) for o in operands]
    if any(x is None for x in vals):
        return NotImplemented
    f = z3.Function(f"np_{fname}_{len(vals)}", *([ValS] * len(vals)), ValS)
    ex.assumed.add("opaque numpy layer: numpy results on opaque arrays are deterministic uninterpreted functions of the operands' contents")
    return SV(f(*vals), TNd)


class GemseoModels:
    def value_attr(self, ex, obj, attr, lineno):
        if isinstance(obj, SV) and isinstance(obj.ty, TAddr):
            return BoundMethod(obj, None, attr)
        if isinstance(obj, SV) and isinstance(obj.ty, TRec) and obj.ty.cls is not None and (obj.ty.cls, attr) in RECORD_METHODS:
            return BoundMethod(obj, None, f"rec:{attr}")
        if isinstance(obj, SV) and obj.ty.sort() == ValS and not isinstance(obj.ty, TRec):
            if attr in ("real", "data"):
                return obj  # real dtype assumed; `.data` is only used for NaN checks
            if attr == "size" and obj.ty == TNd:
                ex.st.assume(nd_size(obj.term) >= 0)
                return SV(nd_size(obj.term), TInt)
            if attr in ("shape", "dtype", "T", "ndim", "imag") and obj.ty == TNd:
                return opaque_apply(ex, f"attr_{attr}", [obj])
            return BoundMethod(obj, None, attr)
        return NotImplemented

    def class_constant(self, ex, ci, name):
        f = CLASS_CONSTANTS.get((ci.qualname, name))
        if f is not None:
            return f(ex)
        return NotImplemented

    def record_setattr(self, ex, rec, attr, v):
        if rec.ty.cls in RECORD_SETATTR:
            return RECORD_SETATTR[rec.ty.cls](ex, rec, attr, v)
        return NotImplemented

    def pyobj_attr(self, ex, ref, o, attr, lineno):
        if attr in MAPPING_MIXIN and _is_mapping(o.cls):
            return BoundMethod(ref, None, f"mapping.{attr}")
        return NotImplemented

    def call_method(self, ex, recv, name, args, kwargs, lineno):
        st = ex.st
        if isinstance(recv, SV) and isinstance(recv.ty, TAddr):
            if name == "copy":
                return self._copy_addr(ex, recv)
        if isinstance(recv, SV) and recv.ty.sort() == ValS and not isinstance(recv.ty, TRec):
            if name == "any":
                return SV(np_any(recv.term), TBool)
            if recv.ty == TNd:
                ops = [recv] + list(args) + [kwargs[k] for k in sorted(kwargs)]
                return opaque_apply(ex, f"method_{name}" + "".join("_" + k for k in sorted(kwargs)), ops)
        if name.startswith("rec:") and isinstance(recv, SV):
            return RECORD_METHODS[(recv.ty.cls, name[4:])](ex, recv, args, kwargs)
        if name.startswith("mapping.") and isinstance(recv, Ref):
            return self._mapping_mixin(ex, recv, name[8:], args, kwargs, lineno)
        return NotImplemented

    def _mapping_mixin(self, ex, recv, name, args, kwargs, lineno):
        """collections.abc.Mapping mixin methods, in terms of __getitem__/__iter__ (as in CPython)."""
        from .engine import IterV, PyRaise

        st = ex.st
        o = st.heap[recv.id]
        if name == "get":
            default = args[1] if len(args) > 1 else kwargs.get("default")
            try:
                return ex.call_repo(S.find_method(o.cls, "__getitem__"), [recv, args[0]], {}, lineno)
            except PyRaise as e:
                if e.cls.rsplit(".", 1)[-1] == "KeyError":
                    return default
                raise
        seq = ex.to_iter(recv, lineno)
        getitem = S.find_method(o.cls, "__getitem__")
        if name == "keys":
            return seq
        if name == "values":
            return IterV(seq.n, lambda i: ex.call_repo(getitem, [recv, seq.elem(i)], {}, lineno), concrete=None)
        if name == "items":
            return IterV(seq.n, lambda i: (seq.elem(i), ex.call_repo(getitem, [recv, seq.elem(i)], {}, lineno)), concrete=None)
        return NotImplemented

    def call_builtin(self, ex, name, args, kwargs, lineno, node=None):
        if name in ("numpy.isnan", "isnan") and len(args) == 1 and isinstance(args[0], SV) and args[0].ty.sort() == ValS:
            return SV(np_isnan(args[0].term), TNd)
        if name == "numpy.array" and len(args) == 1 and isinstance(args[0], Ref) and getattr(ex.st.heap[args[0].id], "is_empty_literal", False):
            e = z3.Const("val_empty_array", ValS)
            ex.st.assume(z3.And(nd_size(e) == 0, nd_len(e) == 0))
            return SV(e, TNd)
        if name.startswith(("numpy.", "scipy.")):
            ops = list(args) + [kwargs[k] for k in sorted(kwargs)]
            return opaque_apply(ex, name.replace(".", "_") + "".join("_" + k for k in sorted(kwargs)), ops)
        return NotImplemented

    def builtin_constant(self, ex, name):
        if name in ("numpy.inf", "math.inf"):
            return float("inf")
        if name == "numpy.nan":
            return float("nan")
        return NotImplemented

    def binop(self, ex, op, a, b, lineno, inplace=False):
        if is_opaque(a) or is_opaque(b):
            return opaque_apply(ex, f"op_{op}", [a, b])
        return NotImplemented

    def compare_any(self, ex, op, a, b, lineno):
        """Element-wise comparison operators of numpy arrays (incl. == and !=)."""
        if op in ("Eq", "NotEq", "Lt", "LtE", "Gt", "GtE") and ((is_opaque(a) and a.ty == TNd) or (is_opaque(b) and b.ty == TNd)):
            return opaque_apply(ex, f"cmp_{op}", [a, b])
        return NotImplemented

    def unary(self, ex, op, v, lineno):
        if is_opaque(v):
            return opaque_apply(ex, f"unary_{op}", [v])
        return NotImplemented

    def truth(self, ex, v):
        if is_opaque(v) and v.ty == TNd:
            return np_truth(v.term)
        return NotImplemented

    def length(self, ex, v, lineno):
        if is_opaque(v) and v.ty == TNd:
            ex.st.assume(nd_len(v.term) >= 0)
            return SV(nd_len(v.term), TInt)
        return NotImplemented

    def to_iter(self, ex, v, lineno):
        """collections.abc.Sequence mixin: iteration through __len__/__getitem__."""
        from .engine import IterV

        if isinstance(v, Ref) and isinstance(ex.st.heap[v.id], PyObj):
            o = ex.st.heap[v.id]
            if any(q.rsplit(".", 1)[-1] in ("Sequence", "MutableSequence") for q in S.mro(o.cls)) and S.find_method(o.cls, "__iter__") is None:
                n = ex.num(ex.models.length(ex, v, lineno))[0]
                gi = S.find_method(o.cls, "__getitem__")
                return IterV(n, lambda i: ex.call_repo(gi, [v, SV(i, TInt)], {}, lineno))
        return NotImplemented

    def call_opaque(self, ex, fv, args, kwargs, lineno):
        st = ex.st
        if isinstance(fv, SV) and fv.ty == TCallable and len(args) == 1 and not kwargs:
            arg = TVal.embed(st, args[0])
            log = st.ghost_get("calllog", z3.ArraySort(z3.IntSort(), CallRec))
            n = st.ghost_get("calllog_n", z3.IntSort())
            st.ghost_set("calllog", z3.Store(log, n, CallRec.mk(fv.term, arg)))
            st.ghost_set("calllog_n", n + 1)
            ex.assumed.add("opaque callables: deterministic result apply1(f, x), no effect on the verified state (logged in ghost calllog)")
            return SV(apply1(fv.term, arg), TNd)
        return NotImplemented

    def _copy_addr(self, ex, v):
        st = ex.st
        t = v.ty
        h = st.symheap(t.heap, t.content.sort())
        a = st.alloc_addr(t.heap, h[v.term], t.content.sort())
        return SV(a, t)

    def deep_copy(self, ex, v, lineno):
        if isinstance(v, SV) and isinstance(v.ty, TAddr):
            return self._copy_addr(ex, v)
        return NotImplemented

    def shallow_copy(self, ex, v, lineno):
        if isinstance(v, SV) and isinstance(v.ty, TAddr):
            return self._copy_addr(ex, v)
        return NotImplemented

    def isinstance_(self, ex, v, cls):
        names = [c.name if isinstance(c, BuiltinV) else getattr(c, "qualname", "?") for c in (cls if isinstance(cls, tuple) else (cls,))]
        shorts = [n.rsplit(".", 1)[-1] for n in names]
        if isinstance(v, SV) and v.ty == TNd:
            return "ndarray" in shorts
        if isinstance(v, SV) and isinstance(v.ty, TRec):
            if v.ty.cls is not None:
                return any(S.is_subclass(v.ty.cls, n) for n in names)
            return any(n == v.ty.rname for n in shorts)
        if isinstance(v, SV) and isinstance(v.ty, TAddr):
            names = [c.name if isinstance(c, BuiltinV) else c.qualname for c in (cls if isinstance(cls, tuple) else (cls,))]
            if all(n.rsplit(".", 1)[-1] == "ndarray" for n in names):
                h = ex.st.symheap(v.ty.heap, v.ty.content.sort())
                if v.ty.content == TVal:
                    return SV(is_ndarray(h[v.term]), TBool)
            raise Unsupported(f"isinstance of an array reference against {names}")
        return NotImplemented

    def construct(self, ex, cv, args, kwargs, lineno):
        if cv.qualname in RECORD_CLASSES:
            return RECORD_CLASSES[cv.qualname][1](ex, args, kwargs)
        ci = S.load_class(cv.qualname)
        if ci is not None and any(b.rsplit(".", 1)[-1] == "NamedTuple" for b in ci.bases):
            names = [it.target.id for it in ci.node.body if isinstance(it, ast.AnnAssign) and isinstance(it.target, ast.Name)]
            vals = dict(zip(names, args))
            vals.update(kwargs)
            if set(vals) != set(names):
                raise Unsupported(f"NamedTuple {cv.qualname} with defaults")
            return RecV(TStruct(cv.qualname, {}), {n: vals[n] for n in names})
        return NotImplemented

    def getitem(self, ex, cont, key, lineno):
        if isinstance(cont, RecV) and isinstance(key, int):
            return list(cont.vals.values())[key]
        if is_opaque(cont) and cont.ty == TNd:
            return opaque_apply(ex, "getitem", [cont, _slice_val(ex, key)])
        return NotImplemented


def _slice_val(ex, key):
    if isinstance(key, tuple) and key and key[0] == "slice":
        return ("slice",) + tuple(key[1:])
    return key
