"""C09 plugin, numerical chain rule (MDOChain.reverse_chain_rule / _compute_jacobian, MDOParallelChain._compute_jacobian).

Every hook is gated on contracts that opt in with ``c09_numeric = True``.

Modelled:

* Jacobian blocks are *references* (``TAddr("arr", TVal)``, the same symbolic heap of arrays as MDOChain.copy_jacs / the caches) so that
  identity and aliasing are exact: ``a @ b`` allocates a FRESH array, ``a + b`` allocates a fresh array, ``a += b`` updates the array
  ``a`` *in place* (every reference to it sees the change).  The content of an array denotes a matrix of the abstract ring of
  pyvc/plug_np_c07.py (``c09n_mat``: content -> Matrix): the content of ``a @ b`` denotes ``m_mul(mat a, mat b)``, of ``a + b`` and of
  ``a`` after ``a += b``: ``m_add(mat a, mat b)``.  Shapes (hence the ValueError of mismatched operands) are not modelled.
  Blocks are dense / sparse arrays: ``isinstance(block, JacobianOperator)`` is False, ``isinstance(block, dict)`` is False,
  ``isinstance(block, (array_classes, JacobianOperator))`` is True.
* ``discipline.jac`` of an opaque discipline (sort ``Disc``) is the slot of the discipline in the ghost dictionary ``self._c09n_disc_jacs``
  (``Disc -> {output: {input: block reference}}``); ``discipline.linearize(...)`` is ASSUMED to leave there the dictionary the ghost slot
  holds (prophecy: the slot IS the Jacobian the linearisation produces, held in arrays that exist at function entry);
  ``discipline.io.get_input_data()`` is an opaque value.
* ``set.intersection(dict)`` + ``sorted(set of names)``: the sorted list of ``A & B`` is the enumeration ``c09n_sorted_at(A, B, .)`` of length
  ``c09n_sorted_n(A, B)`` - a *function of the two membership arrays* - ASSUMED to be a bijective enumeration of the intersection (the
  lexicographic order itself is not modelled: the proofs hold for every order).
* ``outer[k]`` for a dictionary of dictionaries (value-embedded): when a live dictionary object already stands for that slot (e.g. the local
  ``output_jac = self.jac[output_name]``), THE SAME object is returned (Python reference semantics: ``self.jac[o][v] = x`` is seen through
  ``output_jac`` and conversely); a stale object (slot rebound / havoc'ed since) is never returned (checked on the terms).
* ``{x: d.pop(x) for x in names}`` for ``names`` = such a sorted intersection: the popped entries, in the order of the list (an ordered
  dictionary keyed by the list), ``d`` loses exactly these keys; the KeyError of a missing / repeated name is a generated obligation.
"""
from __future__ import annotations

import ast

import z3

from .plug_graph import DiscS, TDisc, _TDiscIO
from .plug_np_c07 import MatrixS, madd, mmul
from .values import (BoundMethod, BuiltinV, ClassV, DictObj, ListObj, PyObj, Ref, SV, SetObj, TAddr, TDict, TStr, TVal, StrS, Unsupported, ValS, forall_pat)

I = z3.IntSort()  # noqa: E741
B = z3.BoolSort()
ARR = TAddr("arr", TVal)
JROW = TDict(TStr, ARR)
JADDR = TDict(TStr, JROW)
ALLJ = TDict(TDisc, JADDR)
NSET = z3.ArraySort(StrS, B)

mat = z3.Function("c09n_mat", ValS, MatrixS)  # the matrix an array content denotes
# sorted(keys(row) & keys(jacobian)): the arguments are the two dictionary VALUES (records), not their key-set arrays: array-sorted arguments of
# uninterpreted functions make z3 compare every pair of such arrays (extensionality witnesses = new names = more instances)
sn = z3.Function("c09n_sorted_n", JROW.sort(), JADDR.sort(), I)  # length
sa = z3.Function("c09n_sorted_at", JROW.sort(), JADDR.sort(), I, StrS)  # ... element at a position
sp = z3.Function("c09n_sorted_pos", JROW.sort(), JADDR.sort(), StrS, I)  # ... position of an element


def sorted_facts(R, D):
    """sorted(keys(R) & keys(D)) is a bijective enumeration of the intersection (ASSUMED model of set.intersection + sorted; order not modelled)."""
    A, Bm = JROW.acc(0)(R), JADDR.acc(0)(D)
    p, q = z3.Int("p!srt"), z3.Int("q!srt")
    y = z3.Const("y!srt", StrS)
    # (triggers chosen so that the facts do not feed one another: no position term is created from an element term)
    return [
        sn(R, D) >= 0,
        z3.ForAll([p], z3.Implies(z3.And(0 <= p, p < sn(R, D)), z3.And(A[sa(R, D, p)], Bm[sa(R, D, p)])), patterns=[sa(R, D, p)]),
        z3.ForAll([p, q], z3.Implies(z3.And(0 <= p, p < q, q < sn(R, D)), sa(R, D, p) != sa(R, D, q)), patterns=[z3.MultiPattern(sa(R, D, p), sa(R, D, q))]),
        z3.ForAll([y], z3.Implies(z3.And(A[y], Bm[y]), z3.And(0 <= sp(R, D, y), sp(R, D, y) < sn(R, D), sa(R, D, sp(R, D, y)) == y)), patterns=[sp(R, D, y)]),
    ]


def _on(ex):
    return getattr(ex.contract, "c09_numeric", False)


def _is_blk(v):
    return isinstance(v, SV) and isinstance(v.ty, TAddr) and v.ty.heap == "arr"


def _heap(st):
    return st.symheap("arr", ValS)


def _new_block(ex, matrix):
    st = ex.st
    c = st.fresh_const("blk", ValS)
    st.assume(mat(c) == matrix)
    return SV(st.alloc_addr("arr", c, ValS), ARR)


class C09NumModels:
    # ------------------------------------------------------------------ attributes of opaque disciplines
    def value_attr(self, ex, obj, attr, lineno):
        if not _on(ex) or not isinstance(obj, SV):
            return NotImplemented
        st = ex.st
        if type(obj.ty) is _TDiscIO:
            if attr == "get_input_data":
                return BoundMethod(obj, None, "c09n.get_input_data")
            return NotImplemented
        if obj.ty.sort() == DiscS:
            if attr == "jac":
                owner = ex.entry_args.get("self")
                oo = st.heap[owner.id] if isinstance(owner, Ref) else None
                if not isinstance(oo, PyObj) or "_c09n_disc_jacs" not in oo.fields:
                    raise Unsupported("discipline.jac without the ghost dictionary _c09n_disc_jacs in the schema of self")
                aref = oo.fields["_c09n_disc_jacs"]
                A = st.heap[aref.id]
                return JADDR.project(st, A.vals[obj.term], (aref, obj.term, "dict"))
            if attr == "linearize":
                return BoundMethod(obj, None, "disc.linearize")
        return NotImplemented

    def disc_method(self, ex, recv, name, args, kwargs, lineno):
        if not (_on(ex) and name == "linearize"):
            return NotImplemented
        ex.assumed.add("opaque disciplines: discipline.linearize(...) leaves in discipline.jac the dictionary held by the ghost slot self._c09n_disc_jacs[discipline] "
                       "(prophecy: the Jacobian the linearisation produces, in arrays that exist at function entry) and modifies nothing else that is read here")
        return None

    def call_method(self, ex, recv, name, args, kwargs, lineno):
        if not _on(ex) or not isinstance(name, str):
            return NotImplemented
        st = ex.st
        if name == "c09n.get_input_data":
            return SV(st.fresh_const("input_data", ValS), TVal)
        if name == "intersection" and isinstance(recv, Ref) and isinstance(st.heap[recv.id], SetObj) and len(args) == 1 and not kwargs:
            a = st.heap[recv.id]
            if a.is_empty_literal or a.k != TStr:
                return NotImplemented
            mb = ex.models._member_of(ex, args[0])
            if mb is None:
                return NotImplemented
            k = z3.Const("k!cap", StrS)
            capm = st.fresh_const("capm", NSET)  # (a fresh membership array + its pointwise definition instead of a lambda term)
            st.assume(z3.ForAll([k], capm[k] == z3.And(a.member[k], mb[k]), patterns=[capm[k]]))
            o = SetObj(TStr, capm, st.fresh_int("setn"))
            for f in o.wf_facts(st):
                st.assume(f)
            ref = st.alloc(o)
            if z3.is_app(a.member) and a.member.decl().eq(JROW.acc(0)) and z3.is_app(mb) and mb.decl().eq(JADDR.acc(0)):
                st.ghost.setdefault("c09n_parts", {})[ref.id] = (a.member.arg(0), mb.arg(0))  # the two dictionary values
            return ref
        return NotImplemented

    def call_builtin(self, ex, name, args, kwargs, lineno, node=None):
        if not (_on(ex) and name == "sorted" and len(args) == 1 and not kwargs and isinstance(args[0], Ref)):
            return NotImplemented
        st = ex.st
        parts = st.ghost.get("c09n_parts", {}).get(args[0].id)
        if parts is None:
            return NotImplemented
        R, D = parts
        for f in sorted_facts(R, D):
            st.assume(f)
        el = st.fresh_const("sorted_el", z3.ArraySort(I, StrS))
        p = z3.Int("p!sel")
        st.assume(z3.ForAll([p], el[p] == sa(R, D, p), patterns=[el[p]]))
        ex.assumed.add("sorted(set(a).intersection(b)) of names: a bijective enumeration of the intersection, a function of the two key sets (the lexicographic order itself is not modelled)")
        lo = ListObj(TStr, sn(R, D), el)
        ref = st.alloc(lo)
        st.ghost.setdefault("c09n_sorted_lists", {})[ref.id] = (R, D, el)
        return ref

    # ------------------------------------------------------------------ the dictionary object of a slot of a dictionary of dictionaries
    def getitem(self, ex, cont, key, lineno):
        if not (_on(ex) and isinstance(cont, Ref)):
            return NotImplemented
        st = ex.st
        o = st.heap.get(cont.id)
        if not (isinstance(o, DictObj) and not o.is_empty_literal and isinstance(o.v, TDict)):
            return NotImplemented
        from .engine import PyRaise

        kt = o.k.embed(st, key)
        if not st.decide(o.member[kt]):
            raise PyRaise("KeyError", lineno)
        slot = z3.simplify(o.vals[kt])
        env_ids = {v.id for fr in st.frames for v in fr.env.values() if isinstance(v, Ref)}
        best = None
        for i, x in st.heap.items():
            if isinstance(x, DictObj) and x.origin is not None and isinstance(x.origin[0], Ref) and x.origin[0].id == cont.id and x.origin[2] == "dict" \
                    and x.origin[1].eq(kt) and x.ty is not None and z3.simplify(x.ty.embed(st, Ref(i))).eq(slot):
                if best is None or (i in env_ids and best not in env_ids):
                    best = i
        if best is not None:
            return Ref(best)
        if o.origin is not None and not o.v.ordered:
            # a row of a discipline's Jacobian (read only here): its iteration order is given once, by facts whose triggers do not feed one
            # another (no position term is created from a key term) - the engine's own order facts are not added for it
            ref = o.v.project(st, o.vals[kt], (cont, kt, "dict"))
            r = st.heap[ref.id]
            r.keys = st.fresh_const("rkeys", z3.ArraySort(I, r.k.sort()))
            r.pos = st.fresh_const("rpos", z3.ArraySort(r.k.sort(), I))
            t = z3.Int("t!ro")
            k = z3.Const("k!ro", r.k.sort())
            k2 = z3.Const("k2!ro", r.k.sort())
            # keys: [0, n) -> members with pos(keys(t)) = t; pos: members -> [0, n) injective  (i.e. pos is a bijection and keys its inverse);
            # no NAME term is ever created from a name term by these facts
            st.assume(z3.ForAll([t], z3.Implies(z3.And(0 <= t, t < r.n), z3.And(r.member[r.keys[t]], r.pos[r.keys[t]] == t)), patterns=[r.keys[t]]))
            st.assume(z3.ForAll([k], z3.Implies(r.member[k], z3.And(0 <= r.pos[k], r.pos[k] < r.n)), patterns=[r.pos[k]]))
            st.assume(z3.ForAll([k, k2], z3.Implies(z3.And(r.member[k], r.member[k2], r.pos[k] == r.pos[k2]), k == k2), patterns=[z3.MultiPattern(r.pos[k], r.pos[k2])]))
            return ref
        return NotImplemented

    def comprehension(self, ex, node, kind):
        """{x: d.pop(x) for x in names} with names = sorted(set(d0) & set(e)) built by the model above."""
        if not (_on(ex) and isinstance(node, ast.DictComp) and len(node.generators) == 1 and not node.generators[0].ifs):
            return NotImplemented
        gen = node.generators[0]
        call = node.value
        if not (isinstance(gen.target, ast.Name) and isinstance(node.key, ast.Name) and node.key.id == gen.target.id):
            return NotImplemented
        x = gen.target.id
        if isinstance(call, ast.Call) and isinstance(call.func, ast.Attribute) and call.func.attr == "pop" and len(call.args) == 1 and not call.keywords \
                and isinstance(call.args[0], ast.Name) and call.args[0].id == x:
            popping, dnode = True, call.func.value
        elif isinstance(call, ast.Subscript) and isinstance(call.slice, ast.Name) and call.slice.id == x:
            popping, dnode = False, call.value  # {x: d[x] for x in names}: the same entries, d is left as it is
        else:
            return NotImplemented
        st = ex.st
        L = ex.ev(gen.iter)
        info = st.ghost.get("c09n_sorted_lists", {}).get(L.id) if isinstance(L, Ref) else None
        d = ex.ev(dnode)
        do = st.heap.get(d.id) if isinstance(d, Ref) else None
        if info is None or not isinstance(do, DictObj) or do.is_empty_literal or do.k != TStr:
            return NotImplemented
        R, D, el = info
        lo = st.heap[L.id]
        n = lo.n
        i, j = z3.Int("i!pop"), z3.Int("j!pop")
        k = z3.Const("k!pop", StrS)
        # every pop finds its key: the names are keys of d and pairwise distinct (else KeyError)
        ex.check(z3.ForAll([i], z3.Implies(z3.And(0 <= i, i < n), do.member[sa(R, D, i)]), patterns=[sa(R, D, i)]), "safety", "popped-names-are-keys", node.lineno, aux=True)
        ex.check(z3.ForAll([i, j], z3.Implies(z3.And(0 <= i, i < j, j < n), sa(R, D, i) != sa(R, D, j)), patterns=[z3.MultiPattern(sa(R, D, i), sa(R, D, j))]), "safety", "popped-names-are-distinct", node.lineno, aux=True) if popping else None
        A, Bm = JROW.acc(0)(R), JADDR.acc(0)(D)
        mem = st.fresh_const("popped_mem", NSET)
        st.assume(z3.ForAll([k], mem[k] == z3.And(A[k], Bm[k]), patterns=[mem[k]]))
        pos = st.fresh_const("popped_pos", z3.ArraySort(StrS, I))
        st.assume(z3.ForAll([i], z3.Implies(z3.And(0 <= i, i < n), pos[sa(R, D, i)] == i), patterns=[pos[sa(R, D, i)]]))  # (no position term is created from a name)
        st.assume(z3.ForAll([k], z3.Implies(mem[k], z3.And(0 <= pos[k], pos[k] < n, sa(R, D, pos[k]) == k)), patterns=[pos[k]]))
        res = DictObj(do.k, do.v, mem, do.vals, n, keys=el, pos=pos)
        res.ty = TDict(do.k, do.v, ordered=True)
        if popping:
            left = st.fresh_const("left_mem", NSET)
            st.assume(z3.ForAll([k], left[k] == z3.And(do.member[k], z3.Not(mem[k])), patterns=[left[k]]))
            do.member, do.n = left, do.n - n
            if do.keys is not None:
                raise Unsupported("pop on an ordered dictionary of blocks")
            ex.writeback(do)
        ex.assumed.add("{x: d.pop(x) for x in sorted(set(d) & set(e))}: the popped entries in the order of the list; d loses exactly these keys (KeyError of a missing / repeated name: generated obligations)")
        return st.alloc(res)

    # ------------------------------------------------------------------ blocks
    def isinstance_(self, ex, v, cls):
        if not (_on(ex) and _is_blk(v)):
            return NotImplemented
        classes = cls if isinstance(cls, tuple) else (cls,)
        flat = []
        for c in classes:
            flat.extend(c if isinstance(c, tuple) else (c,))
        names = [(c.name if isinstance(c, BuiltinV) else getattr(c, "qualname", "?")).rsplit(".", 1)[-1] for c in flat]
        ex.assumed.add("Jacobian blocks are dense / sparse arrays (not JacobianOperator objects)")
        return any(n in ("ndarray", "sparray", "spmatrix", "csr_array", "array_classes") for n in names)

    def binop(self, ex, op, a, b, lineno, inplace=False):
        if not (_on(ex) and _is_blk(a) and _is_blk(b)):
            return NotImplemented
        st = ex.st
        h = _heap(st)
        ma, mb = mat(h[a.term]), mat(h[b.term])
        ex.assumed.add("array blocks denote matrices of the abstract ring: a @ b and a + b allocate a fresh array denoting the product / sum, a += b updates the array a in place; "
                       "shape mismatches (ValueError) are not modelled")
        if op == "MatMult" and not inplace:
            return _new_block(ex, mmul(ma, mb))
        if op == "Add" and not inplace:
            return _new_block(ex, madd(ma, mb))
        if op == "Add" and inplace:
            c = st.fresh_const("blk", ValS)
            st.assume(mat(c) == madd(ma, mb))
            st.heap.sym["arr"] = z3.Store(h, a.term, c)
            return a
        raise Unsupported(f"operator {op} on array blocks")
