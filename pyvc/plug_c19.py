"""C19 plugin: abstract third-party probability distributions (SciPy frozen distributions / OpenTURNS distributions) and the few
Python / numpy features the uncertainty contracts need beyond npmodel.py.

Every hook only fires for contracts that opt in with ``c19 = True`` or on the plugin's own record types, so that no other property's
verification conditions change.

The THIRD-PARTY part (assumed, listed in the evidence of every function that uses it): a wrapped distribution object ``d`` is the abstract
record ``ThirdPartyDistC19``; what it answers are uninterpreted functions of ``d`` (and of the argument):

  SciPy      d.cdf(x) = c19_cdf(d, x)   d.ppf(u) = c19_icdf(d, u)   d.pdf(x) = c19_pdf(d, x)   d.mean() = c19_mean(d)   d.std() = c19_std(d)
             d.interval(p) = (c19_interval_lo(d, p), c19_interval_hi(d, p))        d.rvs(n, random_state) = a NEW vector of n values (see below)
  OpenTURNS  d.computeCDF(x) = c19_cdf(d, x)   d.computeQuantile(u) = [c19_icdf(d, u)]   d.computePDF(x) = c19_pdf(d, x)
             d.getMean() = [c19_mean(d)]   d.getStandardDeviation() = [c19_std(d)]
             d.getRange() = interval with getLowerBound() = [c19_range_lo(d)], getUpperBound() = [c19_range_hi(d)],
                            getFiniteLowerBound() = [c19_finite_lo(d)], getFiniteUpperBound() = [c19_finite_hi(d)]
             d.getSample(n) = a NEW n x 1 sample (see below)
  sampling   every call of a third-party sampler returns a new array that is NOT a function of the arguments (pseudo-random); the call is
             recorded in the ghost log ``c19_draw_*`` (distribution, number of samples, returned values).
  creation   getattr(module, name)(**parameters) / (*parameters) = c19_create(library, name, parameters) or an exception.

* ``numpy.column_stack([a, b])`` of two vectors of equal length: the n x 2 matrix with columns a, b (ValueError otherwise);
* ``list.remove(x)``: the first occurrence is removed, the following elements move down by one (ValueError when absent);
* a statement that is only a ``LOGGER.*`` call is skipped (logging is a no-op, message construction is dropped: DESIGN §2.2);
* ``FilePathManager(...)`` (file names of the figures of ``plot``): an opaque value;
* iteration over a matrix yields its rows (new vectors);
* ``list(map(f, X))`` is not modelled (rank-2 batches are out of the scope of these contracts).
"""
from __future__ import annotations

import z3

from . import gmodels as G
from .npmodel import ArrObj, NumpyModel, TArr, _arr, _is_arr
from .values import (BuiltinV, DictObj, ListObj, Ref, SV, StrS, TBool, TDict, TInt, TList, TOpt, TReal, TRec, TStr, TVal, Unsupported, ValS,
                     declare_ghost, str_lit)

_NP = NumpyModel()
REAL, INT, BOOL = z3.RealSort(), z3.IntSort(), z3.BoolSort()
F1, F2 = TArr("f", 1), TArr("f", 2)

TPCLS = "c19.third_party.Distribution"
TPD = TRec("ThirdPartyDistC19", {"uid": TInt}, cls=TPCLS)
DS_ = TPD.sort()
cdf_v = z3.Function("c19_cdf", DS_, REAL, REAL)
icdf_v = z3.Function("c19_icdf", DS_, REAL, REAL)
pdf_v = z3.Function("c19_pdf", DS_, REAL, REAL)
mean_v = z3.Function("c19_mean", DS_, REAL)
std_v = z3.Function("c19_std", DS_, REAL)
interval_lo = z3.Function("c19_interval_lo", DS_, REAL, REAL)
interval_hi = z3.Function("c19_interval_hi", DS_, REAL, REAL)
range_lo = z3.Function("c19_range_lo", DS_, REAL)
range_hi = z3.Function("c19_range_hi", DS_, REAL)
finite_lo = z3.Function("c19_finite_lo", DS_, BOOL)
finite_hi = z3.Function("c19_finite_hi", DS_, BOOL)

# creation: what a created object was made from (library, name, keyword / positional parameters); derived OpenTURNS distributions
KWR, ARGS, OPTR = TDict(TStr, TReal), TList(TReal), TOpt(TReal)
created_lib = z3.Function("c19_created_library", DS_, StrS)
created_name = z3.Function("c19_created_name", DS_, StrS)
created_kw = z3.Function("c19_created_keywords", DS_, KWR.sort())
created_args = z3.Function("c19_created_arguments", DS_, ARGS.sort())
composite = z3.Function("c19_composite", DS_, StrS, DS_)  # CompositeDistribution(SymbolicFunction(["x"], [transformation]), d)
truncated = z3.Function("c19_truncated", DS_, OPTR.sort(), OPTR.sort(), REAL, DS_)  # TruncatedDistribution(d, lower / upper / interval, threshold)

# a scalar wrapper (SPDistribution / OTDistribution instance) seen from a joint distribution / a parameter space: its recorded state
BDCLS = "gemseo.uncertainty.distributions.base_distribution.BaseDistribution"
MARG = TRec("MarginalC19", {"distribution": TPD, "math_lower_bound": TReal, "math_upper_bound": TReal, "num_lower_bound": TReal, "num_upper_bound": TReal}, cls=BDCLS)
MARGINAL = ("a marginal held by a joint distribution is an SPDistribution / OTDistribution honouring the contracts verified for these classes: mean / "
            "standard_deviation / compute_samples are those of its wrapped object")

# a joint distribution (SPJointDistribution / OTJointDistribution instance) held by a parameter space: its marginals and recorded bound vectors
BJCLS = "gemseo.uncertainty.distributions.base_joint.BaseJointDistribution"
MARGS = TList(MARG)
JOINT = TRec("JointC19", {"marginals": MARGS, "math_lower_bound": F1, "math_upper_bound": F1, "num_lower_bound": F1, "num_upper_bound": F1}, cls=BJCLS)
JS_ = JOINT.sort()
JOINT_NOTE = ("a joint distribution held by a parameter space is an SPJointDistribution / OTJointDistribution honouring the contracts verified for these classes "
              "(compute_cdf / compute_inverse_cdf: component i through marginal i; dimension = number of marginals; mean / standard_deviation / range / support "
              "per marginal)")
# joint (inverse) CDF of a vector, as a term: defined component-wise by the verified contract of compute_cdf / compute_inverse_cdf
jcdf_t = z3.Function("c19_joint_cdf", JS_, F1.sort(), F1.sort())
jicdf_t = z3.Function("c19_joint_icdf", JS_, F1.sort(), F1.sort())


def j_n(j):
    return MARGS.dt.accessor(0, 0)(JOINT.accessor("marginals")(j))


def j_dist(j, i):
    return MARG.accessor("distribution")(MARGS.dt.accessor(0, 1)(JOINT.accessor("marginals")(j))[i])


def joint_map_definition(fn_t, fn_v, j, x):
    """Ground definition of (inverse) joint CDF applied to the vector term x (the postcondition of the verified compute_[inverse_]cdf)."""
    i = z3.Int("i!jd")
    r = fn_t(j, x)
    n = z3.If(F1.dim(x) < j_n(j), F1.dim(x), j_n(j))
    return [F1.dim(r) == n, z3.ForAll([i], z3.Implies(z3.And(0 <= i, i < n), F1.els(r)[i] == fn_v(j_dist(j, i), F1.els(x)[i])), patterns=[F1.els(r)[i]])]


def _joint_map(fn_t, fn_v):
    def model(ex, recv, args, kwargs):
        st = ex.st
        if not _is_arr(ex, args[0]) or _arr(ex, args[0]).rank != 1:
            raise Unsupported("joint (inverse) CDF of something else than a vector")
        x = F1.embed(st, args[0])
        for f in joint_map_definition(fn_t, fn_v, recv.term, x):
            st.assume(f)
        ex.assumed.add(JOINT_NOTE)
        return F1.project(st, fn_t(recv.term, x))

    return model


G.RECORD_METHODS[(BJCLS, "compute_cdf")] = _joint_map(jcdf_t, cdf_v)
G.RECORD_METHODS[(BJCLS, "compute_inverse_cdf")] = _joint_map(jicdf_t, icdf_v)

OTICLS = "c19.third_party.Interval"
OTI = TRec("OTIntervalC19", {"of": TPD}, cls=OTICLS)

# ghost log of the third-party sampler calls: k-th call = (distribution, number of samples, returned values)
declare_ghost("c19_draw_n", INT)
declare_ghost("c19_draw_dist", z3.ArraySort(INT, DS_))
declare_ghost("c19_draw_size", z3.ArraySort(INT, INT))
declare_ghost("c19_draw_values", z3.ArraySort(INT, F1.sort()))
DRAW_GHOSTS = ("ghost:c19_draw_n", "ghost:c19_draw_dist", "ghost:c19_draw_size", "ghost:c19_draw_values")

THIRD_PARTY = ("third-party distribution objects (SciPy frozen distributions / OpenTURNS distributions) are abstract: cdf/ppf/pdf/mean/std/interval "
               "(computeCDF/computeQuantile/computePDF/getMean/getStandardDeviation/getRange) are deterministic uninterpreted functions c19_* of the object "
               "(and the argument), without side effect on gemseo's state")
SAMPLING = ("third-party samplers (rvs / getSample): every call returns a NEW array of the requested number of values, not determined by the arguments; "
            "the call is recorded in the ghost log c19_draw_* (distribution, size, values)")


def _on(ex):
    return getattr(ex.contract, "c19", False)


def _real(ex, v):
    n = ex.num(v)
    if n is None:
        raise Unsupported(f"third-party distribution function applied to {v!r}")
    return z3.ToReal(n[0]) if n[1] == TInt else n[0]


def _draw(ex, d, n):
    """A third-party sampler call: a fresh vector of n values, recorded in the ghost log."""
    st = ex.st
    k = st.ghost_get("c19_draw_n", INT)
    arr = _NP.new(ex, "f", (n,), st.fresh_const("draw", z3.ArraySort(INT, REAL)))
    A = _arr(ex, arr)
    st.ghost_set("c19_draw_dist", z3.Store(st.ghost_get("c19_draw_dist", z3.ArraySort(INT, DS_)), k, d))
    st.ghost_set("c19_draw_size", z3.Store(st.ghost_get("c19_draw_size", z3.ArraySort(INT, INT)), k, n))
    st.ghost_set("c19_draw_values", z3.Store(st.ghost_get("c19_draw_values", z3.ArraySort(INT, F1.sort())), k, F1.dt.mk(A.shape[0], A.elems)))
    st.ghost_set("c19_draw_n", k + 1)
    ex.assumed.add(SAMPLING)
    return arr, A


def _tp(fn, unwrap=True):
    def model(ex, recv, args, kwargs):
        ex.assumed.add(THIRD_PARTY)
        return fn(ex, recv.term, args, kwargs)

    return model


def _scalar_fn(f, boxed=False):
    def fn(ex, d, args, kwargs):
        r = SV(f(d, _real(ex, args[0])), TReal)
        return (r,) if boxed else r

    return fn


def _const_fn(f, boxed=False, ty=TReal):
    def fn(ex, d, args, kwargs):
        r = SV(f(d), ty)
        return (r,) if boxed else r

    return fn


def _interval(ex, d, args, kwargs):
    p = _real(ex, args[0])
    return (SV(interval_lo(d, p), TReal), SV(interval_hi(d, p), TReal))


def _size(ex, v, lineno=0):
    from .engine import PyRaise

    n = ex.num(v)
    if n is None or n[1] != TInt:
        raise Unsupported("third-party sampler with a non-integer size")
    if not ex.st.decide(n[0] >= 0):
        raise PyRaise("ValueError", lineno)  # SciPy: "negative dimensions are not allowed"; OpenTURNS: TypeError/ValueError on a negative size
    return n[0]


def _rvs(ex, d, args, kwargs):
    return _draw(ex, d, _size(ex, args[0] if args else kwargs.get("size", 1)))[0]


def _get_sample(ex, d, args, kwargs):
    """OpenTURNS Sample of a 1-D distribution: n points of dimension 1 (seen through numpy.array(sample): an n x 1 matrix)."""
    arr, A = _draw(ex, d, _size(ex, args[0]))
    return _NP.new(ex, "f", (A.shape[0], z3.IntVal(1)), _NP.lam(2, lambda i, j: A.elems[i]))


for _name, _fn in (("cdf", _scalar_fn(cdf_v)), ("ppf", _scalar_fn(icdf_v)), ("pdf", _scalar_fn(pdf_v)), ("mean", _const_fn(mean_v)), ("std", _const_fn(std_v)),
                   ("interval", _interval), ("rvs", _rvs),
                   ("computeCDF", _scalar_fn(cdf_v)), ("computeQuantile", _scalar_fn(icdf_v, boxed=True)), ("computePDF", _scalar_fn(pdf_v)),
                   ("getMean", _const_fn(mean_v, boxed=True)), ("getStandardDeviation", _const_fn(std_v, boxed=True)), ("getSample", _get_sample),
                   ("getRange", lambda ex, d, args, kwargs: OTI.mk(ex.st, of=SV(d, TPD)))):
    G.RECORD_METHODS[(TPCLS, _name)] = _tp(_fn)

_OF = OTI.accessor("of")
for _name, _f, _ty in (("getLowerBound", range_lo, TReal), ("getUpperBound", range_hi, TReal), ("getFiniteLowerBound", finite_lo, TBool),
                       ("getFiniteUpperBound", finite_hi, TBool)):
    G.RECORD_METHODS[(OTICLS, _name)] = (lambda f, ty: lambda ex, recv, args, kwargs: (SV(f(_OF(recv.term)), ty),))(_f, _ty)


def _marg_samples(ex, recv, args, kwargs):
    ex.assumed.add(MARGINAL)
    return _draw(ex, MARG.accessor("distribution")(recv.term), _size(ex, args[0] if args else kwargs.get("n_samples", 1)))[0]


G.RECORD_METHODS[(BDCLS, "compute_samples")] = _marg_samples


# ---- the joint distribution of ALL the uncertain variables of a parameter space (an opaque value): its sampler
joint_dimension = z3.Function("c19_full_joint_dimension", ValS, INT)  # number of columns of its samples (what the third-party / gemseo joint reports)
declare_ghost("c19_joint_draw_n", INT)  # number of calls of the sampler of a full joint distribution
declare_ghost("c19_joint_draw_of", ValS)  # last call: the joint distribution, the number of samples, the returned matrix
declare_ghost("c19_joint_draw_size", INT)
declare_ghost("c19_joint_draw_values", F2.sort())
JOINT_DRAW_GHOSTS = ("ghost:c19_joint_draw_n", "ghost:c19_joint_draw_of", "ghost:c19_joint_draw_size", "ghost:c19_joint_draw_values")


# ---- distribution classes as values (DistributionFactory().get_class(name)): abstract, identified by the class name
family_id = z3.Function("c19_family_id", StrS, StrS)  # distribution_class.__name__[0:2]  ("SP" / "OT")
default_marginal = z3.Function("c19_default_marginal", StrS, MARG.sort())  # distribution_class() without arguments
FACTORY = ("distribution classes are abstract values identified by their name: DistributionFactory().get_class(name) never fails here (an unknown name raises ImportError in "
           "gemseo, not modelled), cls.__name__[0:2] = c19_family_id(name), cls() = the marginal c19_default_marginal(name) (or a ValueError of the library), "
           "cls.JOINT_DISTRIBUTION_CLASS(marginals) = a joint distribution with exactly these marginals, in order, whose bound vectors take component i from marginal i "
           "(verified contract of BaseJointDistribution._set_bounds)")


class FactoryV:
    pass


class DistClassV:
    def __init__(self, name, what="class"):
        self.name, self.what = name, what  # name: z3 Str term; what: class | __name__ | joint


def _new_joint(ex, marginals):
    """joint_distribution_class(marginals): the record whose marginals are the given list and whose bound vectors are those _set_bounds computes."""
    st = ex.st
    L = st.heap[marginals.id] if isinstance(marginals, Ref) else None
    if not isinstance(L, ListObj) or (L.t != MARG and not L.is_empty_literal):
        raise Unsupported("joint distribution of something else than a list of marginals")
    j = st.fresh_const("joint", JS_)
    n = z3.IntVal(0) if L.is_empty_literal else L.n
    st.assume(j_n(j) == n)
    if not L.is_empty_literal:
        st.assume(MARGS.dt.accessor(0, 1)(JOINT.accessor("marginals")(j)) == L.elems)
    i = z3.Int("i!nj")
    for f in ("math_lower_bound", "math_upper_bound", "num_lower_bound", "num_upper_bound"):
        b = JOINT.accessor(f)(j)
        st.assume(F1.dim(b) == n)
        st.assume(z3.ForAll([i], z3.Implies(z3.And(0 <= i, i < n), F1.els(b)[i] == MARG.accessor(f)(MARGS.dt.accessor(0, 1)(JOINT.accessor("marginals")(j))[i])),
                            patterns=[F1.els(b)[i]]))
    ex.assumed.add(FACTORY)
    return SV(j, JOINT)


class C19Models:
    """Hooks gated on ``c19 = True`` contracts."""

    def call_opaque(self, ex, fv, args, kwargs, lineno):
        if isinstance(fv, DistClassV) and fv.what == "class":
            from .engine import PyRaise

            if args or kwargs:
                raise Unsupported("distribution class called with parameters (only the default-parameter case is modelled)")
            ex.assumed.add(FACTORY)
            if ex.st.choose(2) == 1:
                raise PyRaise("ValueError", lineno)  # the library may reject the (default) parameters
            return SV(default_marginal(fv.name), MARG)
        if isinstance(fv, DistClassV) and fv.what == "joint" and len(args) == 1 and not kwargs:
            return _new_joint(ex, args[0])
        return NotImplemented

    def to_iter(self, ex, v, lineno):
        """Iteration over a matrix: its rows (each a new vector)."""
        if _on(ex) and _is_arr(ex, v) and _arr(ex, v).rank == 2:
            from .engine import IterV

            A = _arr(ex, v)
            return IterV(A.shape[0], lambda i: _NP.new(ex, A.kind, (A.shape[1],), _NP.lam(1, lambda j: A.at(i, j))))
        return NotImplemented

    def getitem(self, ex, cont, key, lineno):
        if isinstance(cont, DistClassV) and cont.what == "__name__" and isinstance(key, tuple) and key[:1] == ("slice",) and key[1:] == (0, 2, None):
            ex.assumed.add(FACTORY)
            return SV(family_id(cont.name), TStr)
        return NotImplemented

    def construct(self, ex, cv, args, kwargs, lineno):
        if _on(ex) and cv.qualname == "gemseo.uncertainty.distributions.factory.DistributionFactory" and not args and not kwargs:
            return FactoryV()
        if _on(ex) and cv.qualname == "gemseo.utils.file_path_manager.FilePathManager":
            # the manager of figure file names of a distribution (used by plot() only): an opaque value
            return SV(ex.st.fresh_const("file_path_manager", ValS), TVal)
        return NotImplemented

    def skip_stmt(self, ex, node):
        """A statement that is only a LOGGER.* call: logging is a no-op and the construction of its message is dropped (DESIGN §2.2).
        `self.__uncertain_variables_to_definitions[name] = ...` (the textual definitions kept for __getitem__ / add_variables_from): not modelled."""
        import ast

        if _on(ex) and isinstance(node, ast.Assign) and len(node.targets) == 1 and isinstance(node.targets[0], ast.Subscript) \
                and isinstance(node.targets[0].value, ast.Attribute) and node.targets[0].value.attr == "__uncertain_variables_to_definitions":
            ex.assumed.add("the dictionary __uncertain_variables_to_definitions (definitions kept for __getitem__ / add_variables_from) is not modelled: its update is skipped")
            return True

        if _on(ex) and isinstance(node, ast.Expr) and isinstance(node.value, ast.Call) and isinstance(node.value.func, ast.Attribute) \
                and isinstance(node.value.func.value, ast.Name) and node.value.func.value.id == "LOGGER":
            return True
        return NotImplemented

    def value_attr(self, ex, obj, attr, lineno):
        if isinstance(obj, FactoryV):
            from .values import BoundMethod

            return BoundMethod(obj, None, attr)
        if isinstance(obj, DistClassV) and obj.what == "class" and attr in ("__name__", "JOINT_DISTRIBUTION_CLASS"):
            return DistClassV(obj.name, "__name__" if attr == "__name__" else "joint")
        if isinstance(obj, SV) and obj.ty == MARG and attr in ("mean", "standard_deviation"):
            ex.assumed.add(MARGINAL)
            return SV((mean_v if attr == "mean" else std_v)(MARG.accessor("distribution")(obj.term)), TReal)
        if isinstance(obj, SV) and obj.ty == JOINT and attr in ("dimension", "mean", "standard_deviation", "range", "support"):
            ex.assumed.add(JOINT_NOTE)
            j = obj.term
            if attr == "dimension":
                ex.st.assume(j_n(j) >= 0)
                return SV(j_n(j), TInt)
            if attr in ("mean", "standard_deviation"):
                f = mean_v if attr == "mean" else std_v
                return _NP.new(ex, "f", (j_n(j),), _NP.lam(1, lambda i: f(j_dist(j, i))))
            lo, hi = ("num_lower_bound", "num_upper_bound") if attr == "range" else ("math_lower_bound", "math_upper_bound")
            lo, hi = F1.els(JOINT.accessor(lo)(j)), F1.els(JOINT.accessor(hi)(j))
            return _NP.new(ex, "f", (j_n(j), z3.IntVal(2)), _NP.lam(2, lambda i, c: z3.If(c == 0, lo[i], hi[i])))
        return NotImplemented

    def call_builtin(self, ex, name, args, kwargs, lineno, node=None):
        if not _on(ex):
            return NotImplemented
        if name == "numpy.column_stack" and len(args) == 1:
            return self._column_stack(ex, args[0], lineno)
        return NotImplemented

    def call_method(self, ex, recv, name, args, kwargs, lineno):
        if _on(ex) and name == "compute_samples" and isinstance(recv, SV) and recv.ty == TVal and len(args) == 1 and not kwargs:
            # sampler of the joint distribution of all the uncertain variables: a NEW n x dimension matrix, not determined by the arguments (ghost record)
            st = ex.st
            n = _size(ex, args[0], lineno)
            d = joint_dimension(recv.term)
            st.assume(d >= 0)
            arr = _NP.new(ex, "f", (n, d), st.fresh_const("jointdraw", z3.ArraySort(INT, INT, REAL)))
            A = _arr(ex, arr)
            st.ghost_set("c19_joint_draw_n", st.ghost_get("c19_joint_draw_n", INT) + 1)
            st.ghost_set("c19_joint_draw_of", recv.term)
            st.ghost_set("c19_joint_draw_size", n)
            st.ghost_set("c19_joint_draw_values", F2.dt.mk(A.shape[0], A.shape[1], A.elems))
            ex.assumed.add(SAMPLING)
            return arr
        if isinstance(recv, FactoryV) and name == "get_class" and len(args) == 1:
            ex.assumed.add(FACTORY)
            return DistClassV(TStr.embed(ex.st, args[0]))
        if not _on(ex):
            return NotImplemented
        if name == "remove" and isinstance(recv, Ref) and isinstance(ex.st.heap[recv.id], ListObj) and len(args) == 1 and not ex.st.heap[recv.id].is_empty_literal:
            # list.remove(x): the FIRST occurrence is removed, the following elements move down by one (ValueError when x is absent)
            from .engine import PyRaise

            st = ex.st
            o = st.heap[recv.id]
            et = o.t.embed(st, args[0])
            i = z3.Int("i!rm")
            if not st.decide(z3.Exists([i], z3.And(0 <= i, i < o.n, o.elems[i] == et))):
                raise PyRaise("ValueError", lineno)
            r = st.fresh_int("rmidx")
            st.assume(z3.And(0 <= r, r < o.n, o.elems[r] == et))
            st.assume(z3.ForAll([i], z3.Implies(z3.And(0 <= i, i < r), o.elems[i] != et), patterns=[o.elems[i]]))
            old = o.elems
            o.elems = z3.Lambda([i], z3.If(i < r, old[i], old[i + 1]))
            o.n = o.n - 1
            st.ghost["c19_removed_at"] = r
            ex.writeback(o)
            return None
        if name == "np.ravel" and _is_arr(ex, recv) and not args and not kwargs:
            A = _arr(ex, recv)
            if A.rank == 1:
                return _NP.new(ex, A.kind, A.shape, A.elems)
            if A.rank == 2 and z3.is_int_value(z3.simplify(A.shape[1])) and z3.simplify(A.shape[1]).as_long() == 1:
                return _NP.new(ex, A.kind, (A.shape[0],), _NP.lam(1, lambda i: A.at(i, z3.IntVal(0))))
            raise Unsupported("ravel of a matrix with more than one column")
        return NotImplemented

    def _column_stack(self, ex, seq, lineno):
        from .engine import PyRaise

        st = ex.st
        if isinstance(seq, Ref) and isinstance(st.heap[seq.id], ListObj):
            L = st.heap[seq.id]
            sn = z3.simplify(L.n)
            if z3.is_int_value(sn) and isinstance(L.t, TArr) and L.t.rank == 1:
                parts = [L.t.project(st, z3.simplify(L.elems[i])) for i in range(sn.as_long())]
                seq = tuple(parts)
        if isinstance(seq, tuple) and seq and all(_is_arr(ex, x) and _arr(ex, x).rank == 1 for x in seq):
            parts = [_arr(ex, x) for x in seq]
            n = parts[0].shape[0]
            for p in parts[1:]:
                if not _NP.same(ex, n, p.shape[0], lineno):
                    raise PyRaise("ValueError", lineno)

            def el(i, j):
                out = parts[-1].elems[i]
                for c in range(len(parts) - 2, -1, -1):
                    out = z3.If(j == c, parts[c].elems[i], out)
                return out

            return _NP.new(ex, "f", (n, z3.IntVal(len(parts))), _NP.lam(2, el))
        raise Unsupported("numpy.column_stack of something else than a short list of vectors")
