"""C05 plugin for the LINEARIZE side of the discipline cache protocol (contracts/c05_linearize.py).

Every hook only fires for contracts that opt in with ``c05lin = True``, so that the verification conditions of the other
properties (and of the other C05 contracts) do not change.

Modelled:

* **Jacobian dictionaries on the two sides of the cache interface.**  ``Discipline.jac`` is a nested dictionary
  ``{output: {input: array address}}`` (``JAC``); the SimpleCache contracts of c05_caches.py see Jacobian data as a flat dictionary of
  arrays (``DATA``).  ``SimpleCache`` stores the nested dictionary as is, so the two views are related by an ASSUMED key renaming
  ``jac_pair_key(output, input)`` (injective; listed in the evidence): where a nested dictionary is passed to a ``DATA`` parameter / a
  ``DATA`` value is stored into the ``JAC`` field, a fresh dictionary of the other type is created and *related* to the source by
  ``flat.member[pair(o, x)] == (nested has (o, x))``, ``flat.vals[pair(o, x)] == the block (o, x)``, every key of the flat dictionary is a
  pair key, and the two dictionaries are empty together.  Emptiness is read on the *nested* dictionary by the real code
  (``if cache_entry.jacobian``, ``if not self.__jacobian``), on the flat one by the cache contracts: the two agree when no row
  of the nested dictionary is empty, which is a GENERATED obligation (``jacobian-has-no-empty-row``) wherever a nested dictionary is
  handed to the cache, and an assumption on what comes out of the cache (the cache only holds what was handed to it).
* ``set(self.ApproximationMode)``: the tuple of the member values of the StrEnum (read from the real source file).
* ``ExecutionStatus.handle(status, record, function)`` (status / statistics bookkeeping, not verified): ASSUMED to call ``function``
  exactly once, through ``record(function)``, and to have no other effect on the verified state.
* ``tuple(grammar)`` / ``tuple(names)``: the core models; the enumeration axiom of the grammar's name set additionally gets the
  membership term as a trigger (an opt-in flag of the engine), so that "every name of the grammar occurs in the tuple" is provable.
"""
from __future__ import annotations

import ast

import z3

from . import source as S
from .values import DictObj, PyObj, Ref, SetObj, StrS, TAddr, TDict, TStr, TVal, forall_pat

ARR = TAddr("arr", TVal)
JROW = TDict(TStr, ARR)
JAC = TDict(TStr, JROW)
DATA = TDict(TStr, ARR)
PAIR = z3.Function("jac_pair_key", StrS, StrS, StrS)
ISPAIR = z3.Function("jac_is_pair_key", StrS, z3.BoolSort())
FST = z3.Function("jac_pair_output", StrS, StrS)
SND = z3.Function("jac_pair_input", StrS, StrS)
HANDLE = "gemseo.core.execution_status.ExecutionStatus.handle"
APPROX_ENUM = "gemseo.utils.derivatives.approximation_modes.ApproximationMode"
GRAMMAR_CLS = "gemseo.core.grammars.base_grammar.BaseGrammar"


def pair_axioms():
    """The key renaming is injective (assumed)."""
    o, x = z3.Const("o!pk", StrS), z3.Const("x!pk", StrS)
    k = z3.Const("k!pk", StrS)
    return [("assumed:pair-key-injective", z3.ForAll([o, x], z3.And(FST(PAIR(o, x)) == o, SND(PAIR(o, x)) == x, ISPAIR(PAIR(o, x))), patterns=[PAIR(o, x)])),
            ("assumed:pair-key-components", z3.ForAll([k], z3.Implies(ISPAIR(k), PAIR(FST(k), SND(k)) == k), patterns=[ISPAIR(k)]))]


def rowm(J, o):
    return JROW.acc(0)(J.vals[o])


def rowv(J, o):
    return JROW.acc(1)(J.vals[o])


def rown(J, o):
    return JROW.acc(2)(J.vals[o])


def related(J, F):
    """The flat dictionary F is the nested dictionary J seen through the key renaming."""
    o, x, k = z3.Const("o!rl", StrS), z3.Const("x!rl", StrS), z3.Const("k!rl", StrS)
    return [
        z3.ForAll([o, x], z3.And(F.member[PAIR(o, x)] == z3.And(J.member[o], rowm(J, o)[x]), F.vals[PAIR(o, x)] == rowv(J, o)[x]), patterns=[PAIR(o, x), rowm(J, o)[x], rowv(J, o)[x]]),
        forall_pat([k], z3.Implies(F.member[k], ISPAIR(k)), F.member[k]),
        (F.n == 0) == (J.n == 0),
    ]


def no_empty_row(J):
    o = z3.Const("o!ne", StrS)
    return forall_pat([o], z3.Implies(J.member[o], rown(J, o) >= 1), J.member[o])


def rows_wf(J):
    """Well-formedness of the (embedded) rows: a row with a member has a positive size."""
    o, x = z3.Const("o!rw", StrS), z3.Const("x!rw", StrS)
    return z3.ForAll([o, x], z3.Implies(z3.And(J.member[o], rowm(J, o)[x]), rown(J, o) >= 1), patterns=[rowm(J, o)[x]])


def _on(ex):
    return getattr(ex.contract, "c05lin", False)


def _enum_values(qualname):
    node = S.load_class(qualname).node
    return tuple(s.value.value for s in node.body if isinstance(s, ast.Assign) and isinstance(s.value, ast.Constant) and isinstance(s.value.value, str))


class C05LinModels:
    def coerce(self, ex, v, t):
        if not _on(ex) or not isinstance(v, Ref) or not isinstance(t, TDict):
            return NotImplemented
        st = ex.st
        o = st.heap.get(v.id)
        if not isinstance(o, DictObj) or o.is_empty_literal:
            return NotImplemented
        if t.name == DATA.name and o.k == TStr and isinstance(o.v, TDict) and o.v.name == JROW.name:
            # a nested Jacobian dictionary handed to the cache
            ex.check(no_empty_row(o), "safety", "jacobian-has-no-empty-row", getattr(ex, "_c05lin_line", 0))
            r = DATA.fresh(st, "flat_jac")
            f = st.heap[r.id]
            for fact in related(o, f):
                st.assume(fact)
            ex.assumed.add("model: a nested Jacobian dictionary is seen by the SimpleCache contracts as the flat dictionary of its blocks keyed by jac_pair_key(output, input) (injective)")
            return r
        if t.name == JAC.name and o.k == TStr and o.v.name == ARR.name:
            # Jacobian data coming out of the cache, stored into Discipline.jac
            r = JAC.fresh(st, "nested_jac")
            j = st.heap[r.id]
            for fact in related(j, o):
                st.assume(fact)
            st.assume(no_empty_row(j))
            st.assume(rows_wf(j))
            ex.assumed.add("model: the Jacobian data of a cache entry are a nested dictionary without empty row, seen by the SimpleCache contracts as the flat dictionary of its blocks keyed by jac_pair_key(output, input)")
            return r
        return NotImplemented

    def call_builtin(self, ex, name, args, kwargs, lineno, node=None):
        if not _on(ex):
            return NotImplemented
        if name == "set" and len(args) == 1 and getattr(args[0], "qualname", None) == APPROX_ENUM:
            return _enum_values(APPROX_ENUM)
        return NotImplemented

    def to_iter(self, ex, v, lineno):
        if _on(ex) and isinstance(v, Ref):
            o = ex.st.heap.get(v.id)
            if isinstance(o, PyObj) and GRAMMAR_CLS in S.mro(o.cls) and isinstance(o.fields.get("_names"), Ref):
                s = ex.st.heap[o.fields["_names"].id]
                if isinstance(s, SetObj):
                    s.enum_trigger_on_member = True
        return NotImplemented

    def call_repo_model(self, ex, fi, args, kwargs, lineno):
        if not _on(ex) or fi.qualname != HANDLE or len(args) != 4 or kwargs:
            return NotImplemented
        ex.assumed.add("model: ExecutionStatus.handle(status, record, function) calls function exactly once (through record) and has no other effect on the verified state")
        ex.call_value(args[3], [], {}, lineno)
        return None
