"""C16 / C13 plugin: the Python features the derivative-approximation code needs beyond models.py / npmodel.py.

Everything here models real Python semantics; the hooks only fire for contracts that opt in with ``c16 = True``
(or on the plugin's own values), so that no other property's verification conditions change.

Parallel gradient (``FirstOrderFD._compute_parallel_grad``):
* ``[f] * n`` for a non-embeddable ``f`` (a bound method): the value ``RepeatV(f, max(n, 0))``.
* ``[x, *xs]`` (list display with starred items): the concatenation, element-wise.
* ``[<array expression of i> for i in range(n)]``: list of arrays (the generic comprehension of models.py cannot type a freshly
  built array); no forking inside the element.
* ``CallableParallelExecution(functions, **options)`` + ``.execute(inputs)``: the *thin summary* of the contract of
  ``CallableParallelExecution.execute`` verified under C13 (contracts/c13_parallel.py, clauses ``result:length`` and
  ``result:positional``) for tasks that all succeed: ``len(result) == len(inputs)`` and ``result[i] == functions[i](inputs[i])``,
  where the task body is the REAL source of the callable (``BaseGradientApproximator._wrap_function``, inlined on a generic
  input).  The obligation ``one-callable-per-input`` (``len(functions) == len(inputs)``) is generated at the call site: with fewer
  callables the missing tasks fail with an IndexError inside the workers and their slot is ``None``.

Jacobian checking indices (``DisciplineJacApprox._compute_variable_indices``):
* ``TSel``: the union ``int | list[int] | slice(lo, hi) | Ellipsis | None`` of a component selection as a z3 datatype, with
  ``isinstance``, ``in (Ellipsis, None)``, iteration, ``range_list[slice]`` and list embedding.
* ``list(range(n))``; ``[item for sub in lists for item in sub]`` (flattening) relative to offsets supplied by the contract
  (``flatten_offsets``): the plugin generates the obligation that they satisfy the prefix-sum recurrence of the sublist lengths
  (offsets(0) = 0, offsets(j+1) = offsets(j) + len(lists[j])) - which determines them uniquely - and then places the items.
"""
from __future__ import annotations

import ast

import z3

from .npmodel import ArrObj, TArr
from .values import BoundMethod, BuiltinV, ClassV, ListObj, Ref, SV, T, TBool, TDict, TInt, TList, TOpt, TReal, TStr, Unsupported, _dt_cache, type_of_value

CPE = "gemseo.core.parallel_execution.callable_parallel_execution.CallableParallelExecution"


def _on(ex):
    return getattr(ex.contract, "c16", False)


def _ty(ex, v):
    if isinstance(v, CArrV):
        return TCArr(ex.st.heap[v.re.id].rank)
    if isinstance(v, Ref):
        o = ex.st.heap[v.id]
        if isinstance(o, ArrObj):
            return TArr(o.kind, o.rank)
    return type_of_value(ex.st, v)


class TNamesTuple(T):
    """``*names``: a tuple of 1..kmax lists of names (the verification forks on the arity; a call site has a concrete arity)."""

    def __init__(self, kmax=2):
        self.kmax = kmax
        self.name = f"Names[<={kmax}]"

    def fresh(self, st, hint):
        k = 1 + st.choose(self.kmax)
        return tuple(TList(TStr).fresh(st, f"{hint}{i}") for i in range(k))


class TByArity(T):
    """A type that depends on the arity of the ``*names`` argument of the function it belongs to (result of split_array_to_dict_of_arrays)."""

    def __init__(self, by_arity: dict):
        self.by_arity = by_arity
        self.name = "ByArity[" + ",".join(f"{k}:{v!r}" for k, v in sorted(by_arity.items())) + "]"

    def resolve(self, ex):
        k = getattr(ex, "_c16_call_arity", None)  # set while a callee contract is being applied (coercion of its *names argument)
        ex._c16_call_arity = None
        if k is None:
            k = len(ex.frame.env["names"])
        return self.by_arity[k]

    def fresh(self, st, hint):
        return self.resolve(st.ex).fresh(st, hint)


class TStepUnion(T):
    """A differentiation step: one global real step, or a vector of steps (``float | ndarray``); with ``optional`` also None."""

    def __init__(self, optional=False):
        self.optional = optional
        self.name = "Step[None|real|array]" if optional else "Step[real|array]"

    def fresh(self, st, hint):
        k = st.choose(3 if self.optional else 2)
        if k == 0:
            return TReal.fresh(st, hint)
        if k == 1:
            return TArr("f", 1).fresh(st, hint)
        return None


class TByStep(T):
    """A type that depends on the kind of the ``step`` argument (the steps returned by _generate_perturbations)."""

    def __init__(self, real: T, array: T):
        self.real, self.array = real, array
        self.name = f"ByStep[{real!r}|{array!r}]"

    def resolve(self, ex):
        k = getattr(ex, "_c16_call_step", None)  # set while a callee contract is being applied (coercion of its step argument)
        ex._c16_call_step = None
        if k is None:
            v = ex.frame.env["step"]
            k = "array" if isinstance(v, Ref) else "real"
        return self.array if k == "array" else self.real

    def fresh(self, st, hint):
        return self.resolve(st.ex).fresh(st, hint)


class ZeroTolCtx:
    """The context manager returned by DisciplineJacApprox.__set_zero_cache_tol()."""

    def __init__(self, owner):
        self.owner = owner


_F2S = TArr("f", 2).sort()
np_allclose = z3.Function("np_allclose", _F2S, _F2S, z3.RealSort(), z3.RealSort(), z3.BoolSort())


def dict_total(t):
    return z3.Function("dict_total", t.sort(), z3.IntSort())


class PyListV:
    """A Python list of non-embeddable items of concrete length (``[slice(None)] * array.ndim``), local to one function."""

    def __init__(self, items):
        self.items = list(items)


class RepeatV:
    """``[item] * n`` for an item that is not a z3-embeddable value (bound method)."""

    def __init__(self, item, n):
        self.item, self.n = item, n


class ParExecV:
    """A ``CallableParallelExecution`` object: its callables (the options only drive the scheduling, see C13)."""

    def __init__(self, workers: RepeatV):
        self.workers = workers


def _no_fork_eval(ex, fn, what, lineno, bound=None):
    """Evaluate ``fn()`` for a generic element (no forking, no exception); the facts learnt about the generic element are dropped."""
    from .engine import PyRaise

    st = ex.st
    depth, npc = len(st.dec.trail), len(st.pc)
    ex.no_fork = True
    st.solver.push()
    try:
        if bound is not None:
            st.assume(bound)
        val = fn()
    except PyRaise as e:
        raise Unsupported(f"{what} at line {lineno}: the generic element raises {e.cls}") from e
    finally:
        ex.no_fork = False
        st.solver.pop()
    if len(st.dec.trail) != depth:
        raise Unsupported(f"{what} at line {lineno}: the generic element forks")
    del st.pc[npc:]
    return val


# --------------------------------------------------------------------------- component selections (check_jacobian indices)
LInt = TList(TInt)
OInt = TOpt(TInt)


class _TSel(T):
    """``int | list[int] | slice(lo, hi) | Ellipsis | None``: what the ``indices`` mapping of check_jacobian associates with a variable
    (slices with a step are not representable: not covered)."""

    name = "Sel"

    def __init__(self):
        if "Sel" not in _dt_cache:
            dt = z3.Datatype("Sel")
            dt.declare("sel_int", ("sel_i", z3.IntSort()))
            dt.declare("sel_list", ("sel_l", LInt.sort()))
            dt.declare("sel_slice", ("sel_lo", OInt.sort()), ("sel_hi", OInt.sort()))
            dt.declare("sel_ellipsis")
            dt.declare("sel_none")
            _dt_cache["Sel"] = dt.create()
        self.dt = _dt_cache["Sel"]

    def sort(self):
        return self.dt

    def embed(self, st, v):
        dt = self.dt
        if isinstance(v, SV) and v.ty == self:
            return v.term
        if v is None:
            return dt.sel_none
        if isinstance(v, BuiltinV) and v.name == "Ellipsis":
            return dt.sel_ellipsis
        if isinstance(v, int) and not isinstance(v, bool):
            return dt.sel_int(z3.IntVal(v))
        if isinstance(v, SV) and v.ty == TInt:
            return dt.sel_int(v.term)
        if isinstance(v, Ref) and isinstance(st.heap[v.id], ListObj):
            o = st.heap[v.id]
            if o.is_empty_literal:
                return dt.sel_list(LInt.dt.mk(z3.IntVal(0), st.fresh_const("emptyl", z3.ArraySort(z3.IntSort(), z3.IntSort()))))
            if o.t == TInt:
                return dt.sel_list(LInt.dt.mk(o.n, o.elems))
            if o.t == self:
                # a list of selections that are integers (``[i]``): the list of these integers
                i = z3.Int("i!sl")
                return dt.sel_list(LInt.dt.mk(o.n, z3.Lambda([i], dt.sel_i(o.elems[i]))))
        raise Unsupported(f"cannot embed {v!r} as a component selection")

    # spec helpers
    def list_n(self, term):
        return LInt.dt.accessor(0, 0)(self.dt.sel_l(term))

    def list_el(self, term):
        return LInt.dt.accessor(0, 1)(self.dt.sel_l(term))


TSel = _TSel()


def _is_sel(v):
    return isinstance(v, SV) and v.ty == TSel


def clamp_slice(lo, hi, n):
    """Python's slice(lo, hi).indices(n) without step: (start, length); lo/hi are Opt[Int] terms."""
    lo_t = z3.If(OInt.is_none(lo), z3.IntVal(0), OInt.dt.get(lo))
    hi_t = z3.If(OInt.is_none(hi), n, OInt.dt.get(hi))
    lo_t = z3.If(lo_t < 0, z3.If(lo_t + n < 0, 0, lo_t + n), z3.If(lo_t > n, n, lo_t))
    hi_t = z3.If(hi_t < 0, z3.If(hi_t + n < 0, 0, hi_t + n), z3.If(hi_t > n, n, hi_t))
    return lo_t, z3.If(hi_t > lo_t, hi_t - lo_t, 0)


# --------------------------------------------------------------------------- complex arrays as (re, im) pairs (complex step)
class CArrV:
    """A complex numpy array: two real arrays of the same shape (real and imaginary parts)."""

    def __init__(self, re: Ref, im: Ref):
        self.re, self.im = re, im


class CScalarV:
    """A complex scalar (an element of a complex array)."""

    def __init__(self, re: SV, im: SV):
        self.re, self.im = re, im


class CConstV:
    """A complex constant of the source (``1j``)."""

    def __init__(self, re: float, im: float):
        self.re, self.im = re, im


class TCArr(T):
    def __init__(self, rank=1):
        self.rank = rank
        self.name = f"CArr[{rank}]"
        self.part = TArr("f", rank)

    def sort(self):
        key = f"CArr{self.rank}"
        if key not in _dt_cache:
            dt = z3.Datatype(key)
            dt.declare("mk_" + key, (f"c_re{self.rank}", self.part.sort()), (f"c_im{self.rank}", self.part.sort()))
            _dt_cache[key] = dt.create()
        return _dt_cache[key]

    def embed(self, st, v):
        if isinstance(v, CArrV):
            dt = self.sort()
            return dt.constructor(0)(self.part.embed(st, v.re), self.part.embed(st, v.im))
        if isinstance(v, SV) and v.ty == self:
            return v.term
        raise Unsupported(f"cannot embed {v!r} as {self}")

    def project(self, st, term, origin=None):
        dt = self.sort()
        return CArrV(self.part.project(st, dt.accessor(0, 0)(term)), self.part.project(st, dt.accessor(0, 1)(term)))

    def fresh(self, st, hint):
        re = self.part.fresh(st, hint + "_re")
        shape = st.heap[re.id].shape
        o = ArrObj("f", shape, st.fresh_const(hint + "_im_el", st.heap[re.id].elems.sort()))
        o.ty = self.part
        return CArrV(re, st.alloc(o))


def complex_fun(fname, part):
    """The two uninterpreted maps (re, im) -> re' and (re, im) -> im' of a function on complex vectors."""
    return (z3.Function(fname + "_re", part.sort(), part.sort(), part.sort()), z3.Function(fname + "_im", part.sort(), part.sort(), part.sort()))


def _np():
    from .npmodel import NumpyModel

    return NumpyModel()


class C16Models:
    # ------------------------------------------------------------------ complex arrays
    def constant(self, ex, v):
        if _on(ex) and isinstance(v, complex):
            return CConstV(v.real, v.imag)
        return NotImplemented

    def coerce(self, ex, v, t):
        if isinstance(t, TNamesTuple):
            if isinstance(v, tuple) and ex.frame.env.get("names") is not v:
                ex._c16_call_arity = len(v)  # a call site: remembered for the result type of the callee contract
            return v
        if isinstance(t, TByArity):
            return ex.coerce(v, t.resolve(ex))
        if isinstance(t, TStepUnion):
            ex._c16_call_step = "array" if isinstance(v, Ref) else "real"  # (only call sites coerce): remembered for the result type of the callee contract
            if isinstance(v, (int, float)) and not isinstance(v, bool):
                return SV(TReal.embed(ex.st, float(v)), TReal)
            return v
        if isinstance(t, TByStep):
            return ex.coerce(v, t.resolve(ex))
        if _on(ex) and isinstance(t, TList) and isinstance(v, Ref) and getattr(ex.st.heap.get(v.id), "is_empty_literal", False) \
                and type(ex.st.heap[v.id]).__name__ == "DictObj":
            v = ()  # `{}` handed to a sequence parameter (check_jacobian: input_indices = {}): an empty sequence
        if _on(ex) and isinstance(v, tuple) and not v and isinstance(t, TList):
            o = ListObj(t.t, z3.IntVal(0), ex.st.fresh_const("emptyl", z3.ArraySort(z3.IntSort(), t.t.sort())))  # () for a sequence parameter
            o.ty = t
            return ex.st.alloc(o)
        # a range handed to a callee contract that declares a list of ints: the same sequence as a list
        if _on(ex) and isinstance(v, SV) and getattr(v.ty, "name", "") == "Rec[range]" and isinstance(t, TList) and t.t == TInt:
            seq = ex.to_iter(v, 0)
            i = z3.Int("i!rl")
            bi = ex.st.fresh_int("bi")
            o = ListObj(TInt, z3.simplify(seq.n), z3.Lambda([i], z3.substitute(seq.elem(bi).term, (bi, i))))
            o.ty = t
            return ex.st.alloc(o)
        return NotImplemented

    # ------------------------------------------------------------------ discipline-level glue (compute_approx_jac)
    def call_repo_model(self, ex, fi, args, kwargs, lineno):
        if _on(ex) and fi.qualname.endswith("DisciplineJacApprox.__set_zero_cache_tol"):
            return ZeroTolCtx(args[0])
        return NotImplemented

    def enter_context(self, ex, v, node):
        if not isinstance(v, ZeroTolCtx):
            return NotImplemented
        # @contextmanager __set_zero_cache_tol: with no cache it only yields (the cache-tolerance save/restore is not modelled)
        cache = ex.get_attr(ex.get_attr(v.owner, "discipline", 0), "cache", 0)
        if cache is not None:
            raise Unsupported("__set_zero_cache_tol with a cache")
        return None

    def call_builtin(self, ex, name, args, kwargs, lineno, node=None):
        if _on(ex) and name == "numpy.atleast_2d" and len(args) == 1 and isinstance(args[0], Ref) and isinstance(ex.st.heap.get(args[0].id), ArrObj) \
                and ex.st.heap[args[0].id].rank == 2:
            return args[0]
        if _on(ex) and name == "numpy.zeros" and len(args) == 1 and not kwargs and isinstance(args[0], Ref) and isinstance(ex.st.heap.get(args[0].id), ListObj):
            L = ex.st.heap[args[0].id]
            n = z3.simplify(L.n)
            if L.t == TInt and z3.is_int_value(n) and n.as_long() == 2:
                return _np().call_builtin(ex, name, [tuple(SV(z3.simplify(L.elems[q]), TInt) for q in range(2))], {}, lineno)
        if _on(ex) and name == "sum" and len(args) == 1 and not kwargs and type(args[0]).__name__ == "DictView" and args[0].kind == "values":
            o = ex.st.heap[args[0].ref.id]
            if o.v == TInt and not o.is_empty_literal:
                # sum of the values of a dict of ints: an uninterpreted function of the dict (the contracts producing such dicts state its value)
                t = TDict(o.k, TInt)
                ex.assumed.add("sum(dict.values()) of a dict of ints: the function dict_total of the dict content (its value is stated by the contract that builds the dict)")
                return SV(dict_total(t)(t.dt.mk(o.member, o.vals, o.n)), TInt)
        if _on(ex) and name == "numpy.allclose" and len(args) == 2 and set(kwargs) <= {"atol", "rtol"} and all(
                isinstance(a, Ref) and isinstance(ex.st.heap.get(a.id), ArrObj) and ex.st.heap[a.id].rank == 2 for a in args):
            # allclose(a, b, atol, rtol): an uninterpreted predicate of the two matrices and the tolerances (the norm used is numpy's |a - b| <= atol + rtol |b|)
            t = TArr("f", 2)
            tol = [ex.num(kwargs.get(k, d))[0] for k, d in (("atol", 1e-8), ("rtol", 1e-5))]
            tol = [z3.ToReal(x) if x.sort() == z3.IntSort() else x for x in tol]
            ex.assumed.add("numpy.allclose: uninterpreted predicate np_allclose(a, b, atol, rtol)")
            return SV(np_allclose(t.embed(ex.st, args[0]), t.embed(ex.st, args[1]), *tol), TBool)
        if _on(ex) and name in ("numpy.amax", "numpy.max") and len(args) == 1 and isinstance(args[0], Ref) and isinstance(ex.st.heap.get(args[0].id), ArrObj):
            return SV(ex.st.fresh_const("amax", z3.RealSort()), TReal)  # only logged
        if _on(ex) and name == "numpy.divide" and len(args) == 2 and not kwargs:
            return ex.binop("Div", args[0], args[1], lineno)
        if _on(ex) and name == "slice" and 1 <= len(args) <= 3 and not kwargs:
            # slice objects: the representation of subscript slices (engine.ev_slice)
            lo, hi, step = (None, args[0], None) if len(args) == 1 else (args[0], args[1], args[2] if len(args) == 3 else None)
            return ("slice", lo, hi, step)
        if _on(ex) and name == "tuple" and len(args) == 1 and isinstance(args[0], PyListV):
            return tuple(args[0].items)
        if _on(ex) and name == "numpy.array" and len(args) == 1 and isinstance(args[0], Ref) and isinstance(ex.st.heap.get(args[0].id), ListObj) \
                and isinstance(ex.st.heap[args[0].id].t, TArr) and ex.st.heap[args[0].id].t.rank == 1 and getattr(ex.contract, "fun_output_dim", None) is not None:
            # array(list of n >= 1 vectors of the same length m): the (n, m) matrix of the rows; ragged rows are a ValueError (obligation)
            from .engine import PyRaise

            st = ex.st
            L = st.heap[args[0].id]
            m = ex.contract.fun_output_dim
            # array([]) is an empty rank-1 array, not a matrix: the callers here transpose / index a matrix
            ex.check(L.n >= 1, "safety", "array:at-least-one-row", lineno, aux=True)
            j = z3.Int("j!na")
            ex.check(z3.ForAll([j], z3.Implies(z3.And(0 <= j, j < L.n), L.t.dim(L.elems[j]) == m)), "safety", "array:rows-have-the-same-length", lineno, aux=True)
            r, q = z3.Int("i!np0"), z3.Int("i!np1")
            return _np().new(ex, "f", (L.n, m), z3.Lambda([r, q], L.t.els(L.elems[r])[q]))
        if _on(ex) and name == "int" and len(args) == 1 and isinstance(args[0], SV) and args[0].ty == TReal:
            t = args[0].term  # int(float): truncation toward zero
            if z3.is_app(t) and t.decl().kind() == z3.Z3_OP_DIV:
                a, b = t.children()
                if all(z3.is_app(x) and x.decl().kind() == z3.Z3_OP_TO_REAL for x in (a, b)) and z3.is_int_value(b.arg(0)) and b.arg(0).as_long() > 0:
                    # int(m / k) for integers m and a literal k > 0: integer division rounded toward zero (stays in linear integer arithmetic)
                    m, k = a.arg(0), b.arg(0)
                    return SV(z3.simplify(z3.If(m >= 0, m / k, -((-m) / k))), TInt)
            return SV(z3.simplify(z3.If(t >= 0, z3.ToInt(t), -z3.ToInt(-t))), TInt)
        if not _on(ex) or name != "numpy.zeros":
            return NotImplemented
        d = kwargs.get("dtype")
        if not (isinstance(d, BuiltinV) and d.name.rsplit(".", 1)[-1] in ("complex128", "complex")):
            return NotImplemented
        np_ = _np()
        return CArrV(np_.call_builtin(ex, name, args, {}, lineno), np_.call_builtin(ex, name, args, {}, lineno))

    def setitem(self, ex, cont, key, v, lineno):
        if isinstance(cont, PyListV):
            from .engine import PyRaise

            if not isinstance(key, int) or isinstance(key, bool):
                raise Unsupported("symbolic index into a list of subscript components")
            if not -len(cont.items) <= key < len(cont.items):
                raise PyRaise("IndexError", lineno)
            cont.items[key] = v
            return True
        if not isinstance(cont, CArrV):
            return NotImplemented
        if not isinstance(v, CArrV):
            raise Unsupported("store of a non-complex value into a complex array")
        np_ = _np()
        np_.setitem(ex, cont.re, key, v.re, lineno)
        np_.setitem(ex, cont.im, key, v.im, lineno)
        return True

    def _complex_binop(self, ex, op, a, b, lineno):
        from .npmodel import _is_arr

        np_ = _np()
        if op == "Mult":
            if isinstance(a, CConstV) and _is_arr(ex, b):
                return CArrV(np_.binop(ex, op, b, a.re, lineno), np_.binop(ex, op, b, a.im, lineno))
            for x, y in ((a, b), (b, a)):
                if isinstance(x, CArrV) and ex.num(y) is not None:
                    return CArrV(np_.binop(ex, op, x.re, y, lineno), np_.binop(ex, op, x.im, y, lineno))
        if op not in ("Add", "Sub"):
            raise Unsupported(f"operator {op} on complex values {a!r}, {b!r}")
        if isinstance(a, CArrV) and isinstance(b, CArrV):
            return CArrV(np_.binop(ex, op, a.re, b.re, lineno), np_.binop(ex, op, a.im, b.im, lineno))
        if isinstance(b, CArrV) and _is_arr(ex, a):
            # real + complex: the real part is shifted; the imaginary part is that of the complex operand (negated for a difference)
            im = np_.call_method(ex, b.im, "np.copy", [], {}, lineno) if op == "Add" else np_.unary(ex, "neg", b.im, lineno)
            return CArrV(np_.binop(ex, op, a, b.re, lineno), im)
        if isinstance(a, CArrV) and _is_arr(ex, b):
            return CArrV(np_.binop(ex, op, a.re, b, lineno), np_.call_method(ex, a.im, "np.copy", [], {}, lineno))
        raise Unsupported(f"operator {op} on {a!r}, {b!r}")

    def call_funv(self, ex, fv, args, kwargs, lineno):
        if _on(ex) and getattr(ex.contract, "fun_output_dim", None) is not None and not (args and isinstance(args[0], CArrV)) and not fv.ty.logged \
                and isinstance(fv.ty.ret, TArr) and fv.ty.ret.rank == 1:
            # the contract's precondition `output-dimension-is-fixed` (forall v. dim(F(v)) == m_out) instantiated at this application: the
            # result array carries the dimension m_out syntactically, so that shape tests between two outputs do not fork (the feasibility
            # solver never sees facts over lambda terms)
            st = ex.st
            ty = fv.ty
            f = z3.Function(ty.fname, *[t.sort() for t in ty.args], ty.ret.sort())
            app = f(*[t.embed(st, a) for t, a in zip(ty.args, args)])
            ex.assumed.add(f"uninterpreted:{ty.fname}")
            r = ty.ret.project(st, app)
            m = ex.contract.fun_output_dim
            st.assume(ty.ret.dim(app) == m)
            st.heap[r.id].shape = (m,)
            return r
        if not (args and isinstance(args[0], CArrV)):
            return NotImplemented
        st = ex.st
        part = TArr("f", 1)
        fre, fim = complex_fun(fv.ty.fname, part)
        a = (part.embed(st, args[0].re), part.embed(st, args[0].im))
        ex.assumed.add(f"uninterpreted:{fv.ty.fname} on complex vectors (two maps of the real and imaginary parts)")
        return CArrV(part.project(st, fre(*a)), part.project(st, fim(*a)))

    # ------------------------------------------------------------------ selections
    def isinstance_(self, ex, v, cls):
        if _on(ex) and isinstance(v, Ref) and isinstance(ex.st.heap.get(v.id), ArrObj) and not isinstance(cls, tuple) \
                and (cls.name if isinstance(cls, BuiltinV) else getattr(cls, "qualname", "?")).rsplit(".", 1)[-1] == "Sized":
            return True  # numpy arrays have a length
        if not _is_sel(v):
            return NotImplemented
        classes = cls if isinstance(cls, tuple) else (cls,)
        out = []
        for c in classes:
            n = (c.name if isinstance(c, BuiltinV) else getattr(c, "qualname", "?")).rsplit(".", 1)[-1]
            if n == "int":
                out.append(TSel.dt.is_sel_int(v.term))
            elif n == "slice":
                out.append(TSel.dt.is_sel_slice(v.term))
            elif n in ("list", "Sequence"):
                out.append(TSel.dt.is_sel_list(v.term))
            else:
                raise Unsupported(f"isinstance(selection, {n})")
        return SV(z3.simplify(z3.Or(*out)), TBool)

    def contains(self, ex, cont, item, lineno):
        if not _is_sel(item) or not isinstance(cont, tuple):
            return NotImplemented
        out = []
        for x in cont:
            if x is None:
                out.append(TSel.dt.is_sel_none(item.term))
            elif isinstance(x, BuiltinV) and x.name == "Ellipsis":
                out.append(TSel.dt.is_sel_ellipsis(item.term))
            else:
                raise Unsupported(f"selection in (..., {x!r})")
        return SV(z3.simplify(z3.Or(*out)), TBool)

    def to_iter(self, ex, v, lineno):
        if _on(ex) and isinstance(v, Ref) and isinstance(ex.st.heap.get(v.id), ArrObj) and ex.st.heap[v.id].rank == 2:
            # iterating a matrix yields its rows
            from .engine import IterV

            A = ex.st.heap[v.id]
            return IterV(A.shape[0], lambda i: _np().getitem(ex, v, i if isinstance(i, SV) else SV(i, TInt), lineno))
        if not _is_sel(v):
            return NotImplemented
        from .engine import IterV, PyRaise

        st = ex.st
        if not st.decide(TSel.dt.is_sel_list(v.term)):
            raise PyRaise("TypeError", lineno)
        n, els = TSel.list_n(v.term), TSel.list_el(v.term)
        st.assume(n >= 0)
        it = IterV(n, lambda i: SV(els[i], TInt))
        it.elem_type = TInt
        return it

    def length(self, ex, v, lineno):
        if not _is_sel(v):
            return NotImplemented
        from .engine import PyRaise

        if not ex.st.decide(TSel.dt.is_sel_list(v.term)):
            raise PyRaise("TypeError", lineno)  # len() of an int / slice / Ellipsis / None
        return SV(TSel.list_n(v.term), TInt)

    def getitem(self, ex, cont, key, lineno):
        if isinstance(cont, CArrV):
            np_ = _np()
            re, im = np_.getitem(ex, cont.re, key, lineno), np_.getitem(ex, cont.im, key, lineno)
            return CScalarV(re, im) if isinstance(re, SV) else CArrV(re, im)
        if not _is_sel(key):
            return NotImplemented
        st = ex.st
        o = st.heap[cont.id] if isinstance(cont, Ref) else None
        if not isinstance(o, ListObj):
            raise Unsupported("subscript by a selection on a non-list")
        if not st.decide(TSel.dt.is_sel_slice(key.term)):
            raise Unsupported("list subscript by a selection that is not a slice")
        lo, m = clamp_slice(TSel.dt.sel_lo(key.term), TSel.dt.sel_hi(key.term), o.n)
        i = z3.Int("i!sl")
        return st.alloc(ListObj(o.t, m, z3.Lambda([i], o.elems[i + lo])))

    # ------------------------------------------------------------------ [f] * n
    def binop(self, ex, op, a, b, lineno, inplace=False):
        if isinstance(a, (CArrV, CConstV)) or isinstance(b, (CArrV, CConstV)):
            return self._complex_binop(ex, op, a, b, lineno)
        if not _on(ex) or op != "Mult":
            return NotImplemented
        if isinstance(a, tuple) and len(a) == 1 and isinstance(a[0], tuple) and a[0] and a[0][0] == "slice" and isinstance(b, int) and not isinstance(b, bool):
            return PyListV([a[0]] * b)  # [slice(None)] * ndim: a (mutable) list of subscript components
        if isinstance(a, tuple) and len(a) == 1 and isinstance(a[0], BoundMethod) and ex.num(b) is not None and ex.num(b)[1] == TInt:
            n = ex.num(b)[0]
            return RepeatV(a[0], z3.simplify(z3.If(n > 0, n, 0)))
        return NotImplemented

    # ------------------------------------------------------------------ [x, *xs]
    def starred_list_display(self, ex, node):
        if not _on(ex):
            return NotImplemented
        st = ex.st
        parts = []  # (is_star, value)
        for e in node.elts:
            if isinstance(e, ast.Starred):
                v = ex.ev(e.value)
                o = st.heap[v.id] if isinstance(v, Ref) else None
                if not isinstance(o, ListObj):
                    raise Unsupported("starred item that is not a list")
                parts.append((True, o))
            else:
                parts.append((False, ex.ev(e)))
        t = None
        for star, v in parts:
            tv = v.t if star else _ty(ex, v)
            if t is not None and tv != t:
                raise Unsupported(f"heterogeneous list display: {t} vs {tv}")
            t = tv
        i = z3.Int("i!ld")
        off = z3.IntVal(0)
        pieces = []
        for star, v in parts:
            if star:
                pieces.append((off, v.n, (lambda o, f: lambda x: o.elems[x - f])(v, off)))
                off = z3.simplify(off + v.n)
            else:
                e = t.embed(st, v)
                pieces.append((off, z3.IntVal(1), (lambda e: lambda x: e)(e)))
                off = z3.simplify(off + 1)
        body = pieces[-1][2](i)
        for o0, n0, f in reversed(pieces[:-1]):
            body = z3.If(i < o0 + n0, f(i), body)
        return st.alloc(ListObj(t, off, z3.Lambda([i], body)))

    # ------------------------------------------------------------------ comprehensions
    def comprehension(self, ex, node, kind):
        if not _on(ex) or kind != "list":
            return NotImplemented
        if len(node.generators) == 2:
            return self._flatten(ex, node)
        if len(node.generators) != 1 or node.generators[0].ifs or node.generators[0].is_async:
            return NotImplemented
        gen = node.generators[0]
        # only element expressions that build arrays (subscripts / arithmetic of arrays); everything else: generic model
        if not isinstance(node.elt, (ast.Subscript, ast.BinOp, ast.Attribute)):
            return NotImplemented
        st = ex.st
        fr = ex.frame
        saved = dict(fr.env)
        try:
            seq = ex.to_iter(ex.ev(gen.iter), node.lineno)
            if seq.concrete is not None:
                return NotImplemented
            bi = st.fresh_int("ci")

            def body():
                ex.assign(gen.target, seq.elem(bi))
                v = ex.ev(node.elt)
                t = _ty(ex, v)
                return t, t.embed(st, v)

            t, e = _no_fork_eval(ex, body, "comprehension element", node.lineno, z3.And(0 <= bi, bi < seq.n))
            if not isinstance(t, (TArr, TCArr)):
                return NotImplemented  # the generic model of models.py handles scalars
            i = z3.Int("i!c")
            return st.alloc(ListObj(t, seq.n, z3.Lambda([i], z3.substitute(e, (bi, i)))))
        finally:
            fr.env.clear()
            fr.env.update(saved)

    def _flatten(self, ex, node):
        """``[item for sub in lists for item in sub]`` over a symbolic list of integer lists (selections that are lists)."""
        g0, g1 = node.generators
        if g0.ifs or g1.ifs or not (isinstance(node.elt, ast.Name) and isinstance(g1.target, ast.Name) and node.elt.id == g1.target.id
                                    and isinstance(g0.target, ast.Name) and isinstance(g1.iter, ast.Name) and g1.iter.id == g0.target.id):
            return NotImplemented
        st = ex.st
        src = ex.ev(g0.iter)
        L = st.heap[src.id] if isinstance(src, Ref) else None
        if not isinstance(L, ListObj) or (L.t != TSel and not L.is_empty_literal):
            return NotImplemented
        if L.is_empty_literal:
            return ex.models.make_list(ex, [])
        offs = getattr(ex.contract, "flatten_offsets", None)
        if offs is None:
            raise Unsupported("flattening comprehension: the contract must supply `flatten_offsets` (prefix sums of the sublist lengths)")
        j, t = z3.Int("j!fl"), z3.Int("t!fl")
        sub = L.elems[j]
        # iterating over an element that is not a list is a TypeError
        ex.check(z3.ForAll([j], z3.Implies(z3.And(0 <= j, j < L.n), TSel.dt.is_sel_list(sub))), "safety", "flatten:items-are-lists", node.lineno, aux=True)
        # the offsets supplied by the contract are the prefix sums of the sublist lengths (this determines them)
        ex.check(offs(0) == 0, "safety", "flatten:offsets-start-at-zero", node.lineno, aux=True)
        ex.check(z3.ForAll([j], z3.Implies(z3.And(0 <= j, j < L.n), offs(j + 1) == offs(j) + TSel.list_n(sub)), patterns=[offs(j + 1)]),
                 "safety", "flatten:offsets-are-prefix-sums-of-lengths", node.lineno, aux=True)
        res = st.fresh_const("flat", z3.ArraySort(z3.IntSort(), z3.IntSort()))
        st.assume(z3.ForAll([j, t], z3.Implies(z3.And(0 <= j, j < L.n, 0 <= t, t < TSel.list_n(sub)), res[offs(j) + t] == TSel.list_el(sub)[t]),
                            patterns=[res[offs(j) + t]]))
        ex.assumed.add("flattening comprehension [x for sub in lists for x in sub]: item t of sublist j is placed at offsets(j) + t, the offsets being the "
                       "(unique) prefix sums of the sublist lengths - recurrence checked on the offsets supplied by the contract")
        out = ListObj(TInt, offs(L.n), res)
        st.assume(out.n >= 0)
        return st.alloc(out)

    # ------------------------------------------------------------------ CallableParallelExecution
    def construct(self, ex, cv, args, kwargs, lineno):
        if not _on(ex) or not isinstance(cv, ClassV) or cv.qualname != CPE:
            return NotImplemented
        if len(args) != 1 or not isinstance(args[0], RepeatV) or set(kwargs) - {"**"}:
            raise Unsupported("CallableParallelExecution(...) with other arguments than ([f] * n, **options)")
        return ParExecV(args[0])

    def value_attr(self, ex, obj, attr, lineno):
        if isinstance(obj, (CArrV, CScalarV)):
            if attr == "imag":
                return obj.im
            if attr == "real":
                return obj.re
            if attr == "shape" and isinstance(obj, CArrV):
                return _np().value_attr(ex, obj.re, "shape", lineno)
            raise Unsupported(f"attribute {attr} of a complex value")
        if isinstance(obj, ParExecV) and attr == "execute":
            return BoundMethod(obj, None, "c16.execute")
        return NotImplemented

    def call_method(self, ex, recv, name, args, kwargs, lineno):
        if _on(ex) and name == "np.sum" and not args and not kwargs and getattr(ex.contract, "one_hot_sum", None) is not None \
                and isinstance(recv, Ref) and isinstance(ex.st.heap.get(recv.id), ArrObj) and ex.st.heap[recv.id].rank == 1:
            # sum of a vector with exactly one non-zero entry: the contract names the position r and the entry c (as terms over the locals);
            # the obligation `one-hot` is generated and the cited lemma (sum of a one-hot vector = its entry, proved by induction as base + step
            # SMT lemmas over the prefix-sum function of npmodel: contracts/c16_complex.OneHotSumLemmas) gives the value
            A = ex.st.heap[recv.id]
            r, cval = ex.contract.one_hot_sum(ex.frame.env)
            i = z3.Int("i!oh")
            ex.check(z3.And(0 <= r, r < A.shape[0]), "safety", "sum:one-hot-position-in-range", lineno, aux=True)
            ex.check(z3.ForAll([i], z3.Implies(z3.And(0 <= i, i < A.shape[0]), A.elems[i] == z3.If(i == r, cval, z3.RealVal(0)))),
                     "safety", "sum:vector-is-one-hot", lineno, aux=True)
            ex.assumed.add("cited lemma: the sum of a vector with a single non-zero entry is that entry (proved as base + step lemmas: OneHotSumLemmas)")
            return SV(cval, TReal)
        if not (isinstance(recv, ParExecV) and name == "c16.execute"):
            return NotImplemented
        st = ex.st
        if len(args) != 1 or kwargs:
            raise Unsupported("execute(inputs) with callbacks")
        inputs = st.heap[args[0].id] if isinstance(args[0], Ref) else None
        if isinstance(inputs, ArrObj) and inputs.rank == 2 and inputs.kind == "f":
            # a matrix as the sequence of inputs: one task per row (execute uses len(inputs) and inputs[i])
            A, row_t = inputs, TArr("f", 1)
            r, q = z3.Int("r!pe"), z3.Int("i!np0")
            inputs = ListObj(row_t, A.shape[0], z3.Lambda([r], row_t.dt.mk(A.shape[1], z3.Lambda([q], z3.Select(A.elems, r, q)))))
        if not isinstance(inputs, ListObj) or not isinstance(inputs.t, (TArr, TCArr)):
            raise Unsupported("execute on something else than a list of arrays")
        w = recv.workers
        # one callable per input (otherwise the surplus tasks fail inside the workers: IndexError -> None output)
        ex.check(w.n == inputs.n, "pre", "CallableParallelExecution.execute:one-callable-per-input", lineno, aux=True)
        # the task: the real callable on a generic input
        xg = st.fresh_const("task_input", inputs.t.sort())

        def body():
            r = ex.call_value(w.item, [inputs.t.project(st, xg)], {}, lineno)
            t = _ty(ex, r)
            return t, t.embed(st, r)

        t, e = _no_fork_eval(ex, body, "parallel task", lineno)
        i = z3.Int("i!pe")
        ex.assumed.add("CallableParallelExecution.execute: summary of its contract verified under C13 (result:length, result:positional) for tasks that "
                       "all succeed: len(result) == len(inputs) and result[i] == functions[i](inputs[i]); the task is the real source of the callable")
        ex.callee_contracts.add(CPE + ".execute (summary)")
        return st.alloc(ListObj(t, inputs.n, z3.Lambda([i], z3.substitute(e, (xg, inputs.elems[i])))))
