"""Models of the multiprocessing / threading objects used by gemseo's CallableParallelExecution (C13).

The OS scheduler is not modelled.  What *is* modelled is everything it can do to the places
where order matters:

* a queue is a pair of ghost sequences: the log of the items put (``q*_puts``, ``q*_n``) and, for
  the reading side, a delivery sequence.  The delivery sequence of the out-queue read by
  ``execute`` is the free (= universally quantified) constant ``RECV``; the only facts assumed about
  it are the **queue contract** (every item put by a worker is delivered exactly once, in *some*
  order: ``PERM``/``INV`` is an arbitrary bijection) composed with the verified contract of
  ``_execute_workers`` (one result item per task item taken, see ``res_rel``).  They are assumed at
  ``queue_out.get()`` *relative to the actual log of the in-queue*, so a wrong submission loop
  yields wrong results.
* the items a worker takes from the in-queue before its ``None`` sentinel are the free sequence
  ``TAKEN`` (any length, any content).
* a user task either returns ``task_value(f, x)`` or raises (``task_raises(f, x)``); both
  are uninterpreted (deterministic tasks - assumption); a raised exception is caught as a
  ``BaseException`` instance (``is_exc``).
* Thread/Process objects are integers (creation rank); ``start``/``join`` only update ghost flags
  but carry the blocking conditions as safety obligations (no ``get`` without a pending result,
  no ``join`` without a sentinel per live worker); ``Process.start`` inside a daemonic process raises
  AssertionError as in CPython.
"""
from __future__ import annotations

import z3

from . import contract as C
from .values import (BoundMethod, BuiltinV, ClassV, ExcObj, FuncV, HeapObj, ListObj, PyObj, Ref, SV, T, TBool, TInt, TList, TOpt, TRec, TStr,
                     TVal, Unsupported, ValS, _TVal, declare_ghost, str_lit, val_none)

MOD = "gemseo.core.parallel_execution.callable_parallel_execution"


# --------------------------------------------------------------------------- types
class _TResult(_TVal):
    """What a task produced: a value or an exception instance (``is_exc``)."""

    name = "TaskResult"


class _TWorker(_TVal):
    """A user task callable ``f(input) -> output`` (may raise)."""

    name = "Worker"


class _TCallback(_TVal):
    """A callback ``cb(index, output)``."""

    name = "Callback"


class _TSubmitCb(_TVal):
    """The ``task_submitted_callback()``."""

    name = "SubmitCallback"


ExcClassesS = z3.DeclareSort("ExcClasses")


class _TExcClasses(T):
    """A tuple of exception classes (second argument of isinstance); own sort, so that no other model takes it for a value."""

    name = "ExcClasses"

    def sort(self):
        return ExcClassesS

    def embed(self, st, v):
        if isinstance(v, SV) and v.ty == self:
            return v.term
        raise Unsupported(f"cannot embed {v!r} as ExcClasses")


class _TProc(T):
    """A Thread/Process object: its creation rank."""

    name = "Proc"

    def sort(self):
        return z3.IntSort()

    def embed(self, st, v):
        if isinstance(v, SV) and v.ty == self:
            return v.term
        raise Unsupported(f"cannot embed {v!r} as Proc")


TResult, TWorker, TCallback, TSubmitCb, TExcClasses, TProc = _TResult(), _TWorker(), _TCallback(), _TSubmitCb(), _TExcClasses(), _TProc()


class _Rec:
    """Record datatype with its *own* constructor name (TRec names every constructor `mk`: two records with the same field sorts
    would be ambiguous after the SMT-LIB round trip)."""

    def __init__(self, name, fields):
        self.fields = dict(fields)
        dt = z3.Datatype(name)
        dt.declare("mk_" + name, *[(f"{name}_{f}", t.sort()) for f, t in fields.items()])
        self.dt = dt.create()
        self.dt.mk = getattr(self.dt, "mk_" + name)

    def sort(self):
        return self.dt

    def accessor(self, f):
        return self.dt.accessor(0, list(self.fields).index(f))


InItem = _Rec("QInItem", {"index": TInt, "input": TVal})


class _InSlot:
    """What travels in the in-queue: a task item or the None sentinel (own datatype: constructor names distinct from TOpt's)."""

    def __init__(self):
        dt = z3.Datatype("QInSlot")
        dt.declare("sentinel")
        dt.declare("task", ("task_item", InItem.sort()))
        self.dt = dt.create()
        self.dt.none, self.dt.some, self.dt.get, self.dt.is_none = self.dt.sentinel, self.dt.task, self.dt.task_item, self.dt.is_sentinel

    def sort(self):
        return self.dt


OptInItem = _InSlot()
OutItem = _Rec("QOutItem", {"index": TInt, "output": TResult})
CbRec = _Rec("CbRec", {"fn": TCallback, "index": TInt, "output": TResult})

IntArr = z3.ArraySort(z3.IntSort(), z3.IntSort())
BoolArr = z3.ArraySort(z3.IntSort(), z3.BoolSort())
ValArr = z3.ArraySort(z3.IntSort(), ValS)
CbRow = z3.ArraySort(z3.IntSort(), CbRec.sort())

GHOSTS = {
    "qin_puts": z3.ArraySort(z3.IntSort(), OptInItem.sort()), "qin_n": z3.IntSort(), "qin_nones": z3.IntSort(), "qin_done": z3.IntSort(),
    "qout_puts": z3.ArraySort(z3.IntSort(), OutItem.sort()), "qout_n": z3.IntSort(), "qout_got": z3.IntSort(),
    "cbn": IntArr, "cblog": z3.ArraySort(z3.IntSort(), CbRow),
    "tsc_n": z3.IntSort(), "tsc_qin_n": z3.IntSort(), "tsc_got": z3.IntSort(),
    "proc_n": z3.IntSort(), "proc_live": z3.IntSort(), "proc_started": BoolArr, "proc_joined": BoolArr, "proc_is_thread": BoolArr, "proc_daemon": BoolArr,
    "wk_n": z3.IntSort(), "wk_elems": ValArr,
    "raised": ValS,
}
for _n, _s in GHOSTS.items():
    declare_ghost(_n, _s)

# free constants = universally quantified
RECV = z3.Const("c13_recv", z3.ArraySort(z3.IntSort(), OutItem.sort()))  # delivery order of the out-queue
PERM = z3.Const("c13_perm", IntArr)  # reception rank -> rank of the task item in the in-queue log
INV = z3.Const("c13_inv", IntArr)
TAKEN = z3.Const("c13_taken", z3.ArraySort(z3.IntSort(), InItem.sort()))  # what one worker takes from the in-queue
TAKEN_N = z3.Int("c13_taken_n")
CUR_PROC_NAME = z3.Const("c13_current_process_name", TStr.sort())
CUR_DAEMONIC = z3.Bool("c13_current_process_is_daemonic")

is_exc = z3.Function("is_exc", ValS, z3.BoolSort())  # isinstance(v, BaseException)
inst_of = z3.Function("inst_of", ValS, ExcClassesS, z3.BoolSort())  # isinstance(v, classes)
task_raises = z3.Function("task_raises", ValS, ValS, z3.BoolSort())
task_value = z3.Function("task_value", ValS, ValS, ValS)
obj_id = z3.Function("obj_id", ValS, z3.IntSort())

in_index, in_input = InItem.accessor("index"), InItem.accessor("input")
out_index, out_output = OutItem.accessor("index"), OutItem.accessor("output")


# --------------------------------------------------------------------------- specification functions (shared with the contracts)
def bad_index(n, idx):
    """``_TaskCallables.__call__`` raises IndexError."""
    return z3.If(n > 1, z3.Not(z3.And(idx >= -n, idx < n)), n == 0)


def chosen(n, elems, idx):
    """The callable picked by ``_TaskCallables.__call__``: the idx-th one, or the single shared one."""
    return z3.If(n > 1, elems[z3.If(idx < 0, idx + n, idx)], elems[0])


def task_fails(n, elems, idx, inp):
    return z3.Or(bad_index(n, idx), task_raises(chosen(n, elems, idx), inp))


def res_rel(n, elems, item_in, item_out):
    """Contract of one turn of ``_execute_workers``: the result item of a task item."""
    idx, inp = in_index(item_in), in_input(item_in)
    return z3.And(out_index(item_out) == idx,
                  z3.If(task_fails(n, elems, idx, inp), is_exc(out_output(item_out)), out_output(item_out) == task_value(chosen(n, elems, idx), inp)))


# --------------------------------------------------------------------------- heap objects
class QueueObj(HeapObj):
    def __init__(self, role: str):
        self.role = role  # "in" | "out"

    def clone(self):
        return QueueObj(self.role)


class TQueue(T):
    def __init__(self, role):
        self.role = role
        self.name = f"Queue[{role}]"

    def sort(self):
        raise Unsupported("a queue cannot be stored in a symbolic container")

    def fresh(self, st, hint):
        return st.alloc(QueueObj(self.role))


def g(st, name):
    return st.ghost_get(name, GHOSTS[name])


def gset(st, name, term):
    st.ghost_set(name, term)


def _queue_of(ex, v):
    if isinstance(v, Ref):
        o = ex.st.heap.get(v.id)
        if isinstance(o, QueueObj):
            return o
    return None


class ParallelModels:
    """Plugin hooks (see models.Models._plug)."""

    # ------------------------------------------------------------------ names
    def module_constant(self, ex, mi, name):
        if name == "PLATFORM_IS_WINDOWS":
            ex.assumed.add("POSIX platform (PLATFORM_IS_WINDOWS is False)")
            return False
        return NotImplemented

    def pyobj_attr(self, ex, ref, o, attr, lineno):
        if attr == "MULTI_PROCESSING_START_METHOD":
            return BuiltinV("mp_start_method")
        return NotImplemented

    def builtin_constant(self, ex, name):
        if name == "mp_current_process.name":
            return SV(CUR_PROC_NAME, TStr)
        return NotImplemented

    def value_attr(self, ex, obj, attr, lineno):
        if isinstance(obj, SV) and obj.ty == TProc:
            return BoundMethod(obj, None, attr)
        return NotImplemented

    def set_attr(self, ex, obj, attr, v, lineno):
        if isinstance(obj, SV) and obj.ty == TProc and attr == "daemon":
            st = ex.st
            gset(st, "proc_daemon", z3.Store(g(st, "proc_daemon"), obj.term, TBool.embed(st, v)))
            return None
        return NotImplemented

    def isinstance_(self, ex, v, cls):
        if isinstance(v, SV) and v.ty == TResult:
            if isinstance(cls, ClassV) and cls.qualname == "BaseException":
                return SV(is_exc(v.term), TBool)
            if isinstance(cls, SV) and cls.ty == TExcClasses:
                return SV(inst_of(v.term, cls.term), TBool)
            raise Unsupported(f"isinstance of a task result against {cls!r}")
        if v is None and isinstance(cls, SV) and cls.ty == TExcClasses:
            return False  # isinstance(None, <exception classes>)
        return NotImplemented

    def raise_value(self, ex, v, lineno):
        """``raise <task result>``: re-raising an exception instance received from a worker."""
        from .engine import PyRaise

        st = ex.st
        if isinstance(v, SV) and v.ty == TResult:
            if not st.decide(is_exc(v.term)):
                raise PyRaise("TypeError", lineno)  # exceptions must derive from BaseException
            gset(st, "raised", v.term)
            raise PyRaise("WorkerException", lineno, v.term)
        return NotImplemented

    def binop(self, ex, op, a, b, lineno, inplace=False):
        # [None] * n
        if op == "Mult" and a == (None,) and isinstance(a, tuple):
            n = ex.num(b)
            if n is not None and n[1] == TInt:
                st = ex.st
                o = ListObj(TVal, z3.If(n[0] > 0, n[0], z3.IntVal(0)), z3.K(z3.IntSort(), val_none))
                o.ty = TList(TVal)
                return st.alloc(o)
        return NotImplemented

    def getitem(self, ex, cont, key, lineno):
        # lst[::-1]
        if isinstance(cont, Ref) and isinstance(key, tuple) and key == ("slice", None, None, -1):
            o = ex.st.heap[cont.id]
            if isinstance(o, ListObj) and not o.is_empty_literal:
                i = z3.Int("i!rev")
                new = ListObj(o.t, o.n, z3.Lambda([i], o.elems[o.n - 1 - i]))
                new.ty = o.ty
                return ex.st.alloc(new)
        return NotImplemented

    # ------------------------------------------------------------------ functions
    def call_builtin(self, ex, name, args, kwargs, lineno, node=None):
        from .engine import IterV

        st = ex.st
        if name in ("queue.Queue", "mp_manager.Queue") and not args:
            return self._new_queue(ex)
        if name == "mp_manager.list" and len(args) == 1 and isinstance(args[0], Ref) and isinstance(st.heap[args[0].id], ListObj):
            c = st.heap[args[0].id].clone()  # a proxy of a *copy* held by the manager process
            c.origin = None
            return st.alloc(c)
        if name in ("threading.Thread", "mp_context.Process"):
            return self._new_process(ex, name == "threading.Thread", args, kwargs, lineno)
        if name == "multiprocessing.get_context":
            return BuiltinV("mp_context")
        if name == "multiprocessing.current_process":
            return BuiltinV("mp_current_process")
        if name in ("time.sleep", "sys.stdout.flush", "traceback.print_exc"):
            return None
        if name == "iter" and len(args) == 2 and args[1] is None and isinstance(args[0], BoundMethod) and args[0].name == "get":
            q = _queue_of(ex, args[0].recv)
            if q is not None and q.role == "in":
                # the items this worker obtains before the sentinel: any number, any content
                st.assume(TAKEN_N >= 0)
                ex.assumed.add("in-queue (worker side): a worker takes an arbitrary finite sequence of task items, then its None sentinel")
                return IterV(TAKEN_N, lambda i: (SV(in_index(TAKEN[i]), TInt), SV(in_input(TAKEN[i]), TVal)))
        if name == "callable" and len(args) == 1 and isinstance(args[0], SV) and args[0].ty in (TCallback, TWorker, TSubmitCb):
            return True
        if name == "id" and len(args) == 1 and isinstance(args[0], SV) and args[0].ty == TWorker:
            return SV(obj_id(args[0].term), TInt)
        return NotImplemented

    def _new_queue(self, ex):
        """Queues are created in the order (in, out) by ``execute``; a new queue is empty."""
        st = ex.st
        made = [o for o in st.heap.values() if isinstance(o, QueueObj)]
        if len(made) == 0:
            q = QueueObj("in")
            for n in ("qin_n", "qin_nones", "qin_done", "proc_live"):
                gset(st, n, z3.IntVal(0))
        elif len(made) == 1 and made[0].role == "in":
            q = QueueObj("out")
            for n in ("qout_n", "qout_got"):
                gset(st, n, z3.IntVal(0))
            gset(st, "cbn", z3.K(z3.IntSort(), z3.IntVal(0)))  # reception-indexed callback log of this queue
        else:
            raise Unsupported("more than two queues")
        return st.alloc(q)

    def _new_process(self, ex, is_thread, args, kwargs, lineno):
        st = ex.st
        target, pargs = kwargs.get("target"), kwargs.get("args")
        wired = isinstance(target, FuncV) and target.qualname == MOD + "._execute_workers" and isinstance(pargs, tuple) and len(pargs) == 3
        if wired:
            tc, qi, qo = pargs
            qi, qo = _queue_of(ex, qi), _queue_of(ex, qo)
            wired = qi is not None and qo is not None and qi.role == "in" and qo.role == "out" and isinstance(tc, Ref) and \
                isinstance(st.heap[tc.id], PyObj) and st.heap[tc.id].cls == MOD + "._TaskCallables"
        ex.check(z3.BoolVal(bool(wired)), "safety", "worker-wired:target=_execute_workers(task_callables, queue_in, queue_out)", lineno, aux=True)
        if not wired:
            raise Unsupported("process/thread with an unmodelled target")
        cl = st.heap[tc.id].fields["callables"]
        co = st.heap[cl.id]
        gset(st, "wk_n", co.n)
        gset(st, "wk_elems", co.elems)
        pid = g(st, "proc_n")
        gset(st, "proc_n", pid + 1)
        gset(st, "proc_is_thread", z3.Store(g(st, "proc_is_thread"), pid, z3.BoolVal(is_thread)))
        gset(st, "proc_started", z3.Store(g(st, "proc_started"), pid, z3.BoolVal(False)))
        gset(st, "proc_joined", z3.Store(g(st, "proc_joined"), pid, z3.BoolVal(False)))
        gset(st, "proc_daemon", z3.Store(g(st, "proc_daemon"), pid, z3.BoolVal(False)))
        return SV(pid, TProc)

    def call_method(self, ex, recv, name, args, kwargs, lineno):
        from .engine import PyRaise

        st = ex.st
        q = _queue_of(ex, recv)
        if q is not None:
            if name == "put" and len(args) == 1:
                return self._put(ex, q, args[0], lineno)
            if name == "get" and not args and q.role == "out":
                return self._get_out(ex, lineno)
            if name == "task_done" and not args and q.role == "in":
                gset(st, "qin_done", g(st, "qin_done") + 1)
                return None
            raise Unsupported(f"queue.{name} on the {q.role}-queue")
        if isinstance(recv, SV) and recv.ty == TProc:
            pid = recv.term
            if name == "start" and not args:
                # CPython: RuntimeError when started twice; AssertionError for a child of a daemonic process
                if st.decide(g(st, "proc_started")[pid]):
                    raise PyRaise("RuntimeError", lineno)
                if st.decide(z3.And(z3.Not(g(st, "proc_is_thread")[pid]), CUR_DAEMONIC)):
                    raise PyRaise("AssertionError", lineno)
                gset(st, "proc_started", z3.Store(g(st, "proc_started"), pid, z3.BoolVal(True)))
                gset(st, "proc_live", g(st, "proc_live") + 1)
                return None
            if name == "join" and not args:
                if not st.decide(g(st, "proc_started")[pid]):
                    raise PyRaise("RuntimeError", lineno)
                # liveness side condition (a join blocks until the worker has consumed its sentinel)
                ex.check(g(st, "qin_nones") >= g(st, "proc_live"), "safety", "join-does-not-block:one-sentinel-per-live-worker", lineno, aux=True)
                gset(st, "proc_joined", z3.Store(g(st, "proc_joined"), pid, z3.BoolVal(True)))
                return None
            raise Unsupported(f"Process.{name}")
        return NotImplemented

    def _put(self, ex, q, v, lineno):
        st = ex.st
        if q.role == "in":
            if v is None:
                item = OptInItem.dt.none
                gset(st, "qin_nones", g(st, "qin_nones") + 1)
            elif isinstance(v, tuple) and len(v) == 2:
                item = OptInItem.dt.some(InItem.dt.mk(TInt.embed(st, v[0]), TVal.embed(st, v[1])))
            else:
                raise Unsupported(f"in-queue item {v!r}")
            n = g(st, "qin_n")
            gset(st, "qin_puts", z3.Store(g(st, "qin_puts"), n, item))
            gset(st, "qin_n", n + 1)
            return None
        if not (isinstance(v, tuple) and len(v) == 2):
            raise Unsupported(f"out-queue item {v!r}")
        idx, out = v
        if isinstance(out, Ref) and isinstance(st.heap[out.id], ExcObj):
            e = st.fresh_const("caught_exc", ValS)  # the exception instance bound by ``except ... as err``
            st.assume(is_exc(e))
            out_t = e
        elif isinstance(out, SV) and out.ty.sort() == ValS:
            out_t = out.term
        else:
            raise Unsupported(f"out-queue output {out!r}")
        n = g(st, "qout_n")
        gset(st, "qout_puts", z3.Store(g(st, "qout_puts"), n, OutItem.dt.mk(TInt.embed(st, idx), out_t)))
        gset(st, "qout_n", n + 1)
        return None

    def _get_out(self, ex, lineno):
        """``queue_out.get()`` in ``execute``: the next element of the arbitrary delivery sequence."""
        st = ex.st
        got, nin, nones = g(st, "qout_got"), g(st, "qin_n"), g(st, "qin_nones")
        n_items = nin - nones
        # liveness side condition: a result is (or will be) available
        ex.check(z3.And(got >= 0, got < n_items, g(st, "proc_live") >= 1), "safety", "get-does-not-block:pending-result-and-live-worker", lineno, aux=True)
        for f in delivery_facts(g(st, "qin_puts"), nin, g(st, "wk_n"), g(st, "wk_elems")):
            st.assume(f)
        ex.assumed.add("queue contract: every result put by a worker is delivered exactly once, in an arbitrary order (RECV = any permutation); "
                       "each worker runs _execute_workers (verified contract) to completion")
        item = RECV[got]
        gset(st, "qout_got", got + 1)
        return (SV(out_index(item), TInt), SV(out_output(item), TResult))

    def call_opaque(self, ex, fv, args, kwargs, lineno):
        from .engine import PyRaise

        st = ex.st
        if isinstance(fv, Ref) and isinstance(st.heap.get(fv.id), PyObj):
            from . import source as S

            m = S.find_method(st.heap[fv.id].cls, "__call__")  # obj(...) = type(obj).__call__(obj, ...)
            if m is not None:
                return ex.call_repo(m, [fv, *args], kwargs, lineno)
        if isinstance(fv, SV) and fv.ty == TWorker and len(args) == 1 and not kwargs:
            x = TVal.embed(st, args[0])
            ex.assumed.add("user tasks: deterministic outcome (task_raises/task_value of the callable and its input), no effect on the verified state")
            if st.decide(task_raises(fv.term, x)):
                raise PyRaise("BaseException", lineno)
            return SV(task_value(fv.term, x), TResult)
        if isinstance(fv, SV) and fv.ty == TCallback and len(args) == 2 and not kwargs:
            j = g(st, "qout_got") - 1  # callbacks are logged per reception
            cbn, cblog = g(st, "cbn"), g(st, "cblog")
            rec = CbRec.dt.mk(fv.term, TInt.embed(st, args[0]), TVal.embed(st, args[1]))
            gset(st, "cblog", z3.Store(cblog, j, z3.Store(cblog[j], cbn[j], rec)))
            gset(st, "cbn", z3.Store(cbn, j, cbn[j] + 1))
            ex.assumed.add("callbacks return normally and do not touch the verified state (logged per reception in ghost cblog)")
            return None
        if isinstance(fv, SV) and isinstance(fv.ty, TOpt) and fv.ty.inner == TSubmitCb and not args and not kwargs:
            if st.decide(fv.ty.is_none(fv.term)):
                raise PyRaise("TypeError", lineno)
            gset(st, "tsc_n", g(st, "tsc_n") + 1)
            gset(st, "tsc_qin_n", g(st, "qin_n") - g(st, "qin_nones"))
            gset(st, "tsc_got", g(st, "qout_got"))
            return None
        if isinstance(fv, SV) and fv.ty == TSubmitCb and not args and not kwargs:
            # the optional callback after an `is not None` test (the engine narrows the local to its payload)
            gset(st, "tsc_n", g(st, "tsc_n") + 1)
            gset(st, "tsc_qin_n", g(st, "qin_n") - g(st, "qin_nones"))
            gset(st, "tsc_got", g(st, "qout_got"))
            return None
        return NotImplemented


def delivery_facts(qin_puts, nin, wk_n, wk_elems):
    """Queue contract o worker contract: RECV[j] is the result item of the PERM[j]-th task item put
    in the in-queue, PERM/INV being a bijection of [0, nin)."""
    j = z3.Int("j!dlv")
    i = z3.Int("i!dlv")
    it = OptInItem.dt.get(qin_puts[PERM[j]])
    return [
        z3.ForAll([j], z3.Implies(z3.And(0 <= j, j < nin), z3.And(0 <= PERM[j], PERM[j] < nin, INV[PERM[j]] == j)), patterns=[PERM[j]]),
        z3.ForAll([i], z3.Implies(z3.And(0 <= i, i < nin), z3.And(0 <= INV[i], INV[i] < nin, PERM[INV[i]] == i)), patterns=[INV[i]]),
        z3.ForAll([j], z3.Implies(z3.And(0 <= j, j < nin, z3.Not(OptInItem.dt.is_none(qin_puts[PERM[j]]))), res_rel(wk_n, wk_elems, it, RECV[j])), patterns=[RECV[j]]),
    ]


def _manager(ex, args, kwargs, lineno):
    return BuiltinV("mp_manager")


C.pure_external("gemseo.utils.multiprocessing.manager.get_multi_processing_manager", _manager)
