"""C18 plugin: the numpy / Python features the transformer and surrogate contracts need beyond npmodel.py.

Every hook only fires for contracts that opt in with ``c18 = True`` (no other property's verification conditions change).
Each item is an ASSUMED element-wise axiom of numpy (listed in the evidence of the functions that use it):

* ``numpy.diag(c)`` of a vector: the square matrix ``D[j, k] = c[j] if j == k else 0`` (as in npmodel), remembered as *diagonal*;
* ``x @ D`` with a rank-2 ``x`` of shape (n, d) and a diagonal ``D = diag(c)``, ``len(c) == d``: ``(x @ D)[i, j] == x[i, j] * c[j]``
  (the textbook identity sum_k x[i, k] * D[k, j] = x[i, j] * c[j]; ValueError when ``x.shape[1] != len(c)``);
  ``v @ D`` with a rank-1 ``v``: ``(v @ D)[j] == v[j] * c[j]``;
* ``numpy.tile(M, (n, 1, 1))`` of a matrix: the rank-3 array ``T[i, j, k] == M[j, k]`` of shape (n, rows, cols);
* ``a.min(0) / a.max(0) / a.mean(0) / a.std(0)`` of a rank-2 array with at least one row: per-column uninterpreted functions of the
  array content with the axioms  min[j] <= a[i, j] <= max[j],  min[j] <= mean[j] <= max[j],  std[j] >= 0, min and max attained
  (ValueError for min/max of an array without rows, as numpy; NaN not modelled);
* ``numpy.atleast_2d(v)`` of a vector: the (1, d) matrix whose row is v; of a matrix: the matrix itself;
* rank-3 subscripts ``J[..., 0, :, :]`` / ``J[0]`` and rank-2 ``M[..., 0, :]``: the selected sub-array;
* ``seq[::-1]`` of a list: the reversed list (fresh element array defined point-wise).
* ``numpy.zeros((n, p, q))``: the rank-3 array of zeros;  ``numpy.unique(v)`` of an int vector: the strictly increasing vector of the distinct
  values of v (uninterpreted functions of v: length, elements, slot of a value, an occurrence of each element);
* ``X[idx]`` of a matrix with an int index vector: the row gather (as npmodel), remembered as *gather of X by idx*;
  ``J[idx] = V`` on rank-3 arrays with pairwise distinct row indices (generated obligation) and V.shape == (len(idx), *J.shape[1:]): row scatter;
* ``d[key]`` inside a comprehension element: the obligation ``comprehension-key-present`` instead of a KeyError path (as plug_np_c17);
* iteration over a matrix: its rows (row s remembered as *row s of X*);  ``J[s] = M`` on a rank-3 array with M.shape == J.shape[1:];
  ``M[None]`` of a matrix: the (1, rows, cols) array;  ``numpy.repeat(A, n, axis=0)`` of a (1, p, q) array: n copies;
  ``a.reshape((n, -1))`` of an (n, p) matrix: the matrix itself (copy);  ``openturns.Point(v)``: the vector v;
* a numpy array listed in the ``modifies`` of a loop: same shape, arbitrary content.
* class hierarchy: ``gemseo.core.discipline.Discipline`` is the relative re-export (``from .discipline import Discipline``, the only relative
  import of the repository, not followed by pyvc/source.py) of ``gemseo.core.discipline.discipline.Discipline``: attribute look-ups that
  end at the re-export are continued in the real class (methods, nested classes).
"""
from __future__ import annotations

import z3

from .npmodel import ArrObj, NumpyModel, TArr, _arr, _is_arr
from .values import BuiltinV, DictObj, ListObj, Ref, SV, TInt, Unsupported

_NP = NumpyModel()
F2 = TArr("f", 2)
REAL, INT = z3.RealSort(), z3.IntSort()
col_min = z3.Function("np_colmin", F2.sort(), INT, REAL)
col_max = z3.Function("np_colmax", F2.sort(), INT, REAL)
col_mean = z3.Function("np_colmean", F2.sort(), INT, REAL)
col_std = z3.Function("np_colstd", F2.sort(), INT, REAL)
arg_min = z3.Function("np_colargmin", F2.sort(), INT, INT)
arg_max = z3.Function("np_colargmax", F2.sort(), INT, INT)
COLFN = {"min": col_min, "max": col_max, "mean": col_mean, "std": col_std}
I1 = TArr("i", 1)
u_len = z3.Function("np_unique_len", I1.sort(), INT)
u_el = z3.Function("np_unique_el", I1.sort(), INT, INT)
u_slot = z3.Function("np_unique_slot", I1.sort(), INT, INT)  # position of a value within unique(v)
u_occ = z3.Function("np_unique_occurrence", I1.sort(), INT, INT)  # an index of v holding the j-th distinct value


def arr1i_term(A):
    return I1.dt.mk(A.shape[0], A.elems)


def unique_axioms(t, n, at):
    """numpy.unique(v), v = (n, at): distinct values in increasing order."""
    i, j = z3.Int("i!un"), z3.Int("j!un")
    m = u_len(t)
    return [z3.And(0 <= m, m <= n),
            z3.ForAll([j], z3.Implies(z3.And(0 <= j, j < m), z3.And(0 <= u_occ(t, j), u_occ(t, j) < n, at(u_occ(t, j)) == u_el(t, j), u_slot(t, u_el(t, j)) == j)), patterns=[u_el(t, j)]),
            z3.ForAll([j], z3.Implies(z3.And(0 <= j, j < m - 1), u_el(t, j) < u_el(t, j + 1)), patterns=[u_el(t, j)]),
            z3.ForAll([i], z3.Implies(z3.And(0 <= i, i < n), z3.And(0 <= u_slot(t, at(i)), u_slot(t, at(i)) < m, u_el(t, u_slot(t, at(i))) == at(i))), patterns=[u_slot(t, at(i))])]


def arr2_term(A):
    """The embedded term of a rank-2 real array (what the per-column functions are applied to)."""
    return F2.dt.mk(A.shape[0], A.shape[1], A.elems)


def column_axioms(t, n, d, at):
    """Axioms of the per-column statistics of the (n, d) array t (n >= 1), `at(i, j)` its elements."""
    i, j = z3.Int("i!cs"), z3.Int("j!cs")
    col = z3.And(0 <= j, j < d)
    return [
        z3.ForAll([i, j], z3.Implies(z3.And(0 <= i, i < n, col), z3.And(col_min(t, j) <= at(i, j), at(i, j) <= col_max(t, j))), patterns=[at(i, j)])
        if _pat_ok(at(i, j)) else
        z3.ForAll([i, j], z3.Implies(z3.And(0 <= i, i < n, col), z3.And(col_min(t, j) <= at(i, j), at(i, j) <= col_max(t, j)))),
        z3.ForAll([j], z3.Implies(col, z3.And(col_min(t, j) <= col_max(t, j), col_min(t, j) <= col_mean(t, j), col_mean(t, j) <= col_max(t, j))), patterns=[col_min(t, j)]),
        z3.ForAll([j], z3.Implies(col, z3.And(col_min(t, j) <= col_max(t, j), col_min(t, j) <= col_mean(t, j), col_mean(t, j) <= col_max(t, j))), patterns=[col_max(t, j)]),
        z3.ForAll([j], z3.Implies(col, z3.And(col_min(t, j) <= col_mean(t, j), col_mean(t, j) <= col_max(t, j))), patterns=[col_mean(t, j)]),
        z3.ForAll([j], z3.Implies(col, col_std(t, j) >= 0), patterns=[col_std(t, j)]),
        z3.ForAll([j], z3.Implies(col, z3.And(0 <= arg_min(t, j), arg_min(t, j) < n, at(arg_min(t, j), j) == col_min(t, j))), patterns=[arg_min(t, j)]),
        z3.ForAll([j], z3.Implies(col, z3.And(0 <= arg_max(t, j), arg_max(t, j) < n, at(arg_max(t, j), j) == col_max(t, j))), patterns=[arg_max(t, j)]),
    ]


def _pat_ok(t):
    from .values import _pattern_ok

    return z3.is_app(t) and t.decl().kind() in (z3.Z3_OP_SELECT, z3.Z3_OP_UNINTERPRETED) and _pattern_ok(t)


def _on(ex):
    return getattr(ex.contract, "c18", False)


def _diag_table(ex):
    return ex.st.ghost.setdefault("c18_diag", {})


def _is_ellipsis(k):
    return isinstance(k, BuiltinV) and k.name == "Ellipsis"


# qualified name -> summary(ex, args, kwargs, lineno) -> value: the (verified) contract of a small function applied inside a comprehension
# element, where no forking is possible: its exceptional outcome becomes an obligation, its result is the term of its postcondition
NOFORK_SUMMARIES: dict = {}

# record type name -> model(ex, fv, args, kwargs, lineno): calling a value of an abstract record type (e.g. an OpenTURNS function object)
CALLABLE_RECORDS: dict = {}

# TFun name -> model(ex, fv, args, kwargs, lineno): calls of an abstract callable whose arguments are not all embeddable (e.g. an object)
FUNV_MODELS: dict = {}

REEXPORT = {"gemseo.core.discipline.Discipline": "gemseo.core.discipline.discipline.Discipline"}


class C18Models:
    # ------------------------------------------------------------------ class hierarchy through the relative re-export
    def pyobj_attr(self, ex, ref, o, attr, lineno):
        if not _on(ex):
            return NotImplemented
        from . import source as S
        from .values import BoundMethod, ClassV

        for q in S.mro(o.cls):
            real = REEXPORT.get(q)
            if real is None:
                continue
            m = S.find_method(real, attr)
            if m is not None and m.kind == "method":
                return BoundMethod(ref, m)
            nq = S.find_nested_class(real, attr)
            if nq is not None:
                return ClassV(nq)
        return NotImplemented

    def value_attr(self, ex, obj, attr, lineno):
        from .values import FunV

        if _on(ex) and isinstance(obj, FunV) and attr == "__name__" and getattr(ex.contract, "closure_names", {}).get(obj.ty.fname) is not None:
            return ex.contract.closure_names[obj.ty.fname]  # the name of the decorated function (a contract variant per name)
        return NotImplemented

    def call_funv(self, ex, fv, args, kwargs, lineno):
        if _on(ex) and fv.ty.fname in FUNV_MODELS:
            return FUNV_MODELS[fv.ty.fname](ex, fv, args, kwargs, lineno)
        return NotImplemented

    def call_opaque(self, ex, fv, args, kwargs, lineno):
        if _on(ex) and isinstance(fv, SV) and fv.ty.name in CALLABLE_RECORDS:
            return CALLABLE_RECORDS[fv.ty.name](ex, fv, args, kwargs, lineno)
        return NotImplemented

    def call_repo_model(self, ex, fi, args, kwargs, lineno):
        if _on(ex) and ex.no_fork and fi.qualname in NOFORK_SUMMARIES:
            return NOFORK_SUMMARIES[fi.qualname](ex, args, kwargs, lineno)
        return NotImplemented

    def to_iter(self, ex, v, lineno):
        if not (_on(ex) and _is_arr(ex, v) and _arr(ex, v).rank == 2):
            return NotImplemented
        from .engine import IterV

        A = _arr(ex, v)
        t = arr2_term(A) if A.kind == "f" else None

        def row(s):
            r = _NP.new(ex, A.kind, (A.shape[1],), _NP.lam(1, lambda j: A.at(s, j)))
            ex.st.ghost.setdefault("c18_row", {})[r.id] = (t, s, A)
            return r

        return IterV(A.shape[0], row)

    # ------------------------------------------------------------------ functions
    def call_builtin(self, ex, name, args, kwargs, lineno, node=None):
        if _on(ex) and name == "openturns.Point" and len(args) == 1 and not kwargs and _is_arr(ex, args[0]) and _arr(ex, args[0]).rank == 1:
            return args[0]
        if not _on(ex) or not name.startswith("numpy."):
            return NotImplemented
        fn = name[6:]
        if fn == "diag" and len(args) == 1 and not kwargs and _is_arr(ex, args[0]) and _arr(ex, args[0]).rank == 1:
            A = _arr(ex, args[0])
            r = _NP.call_builtin(ex, name, args, kwargs, lineno, node)
            _diag_table(ex)[r.id] = (A.kind, A.shape[0], A.elems)
            ex.assumed.add("numpy.diag(c): D[j, k] = c[j] if j == k else 0")
            return r
        if fn == "tile" and len(args) == 2 and not kwargs and _is_arr(ex, args[0]) and _arr(ex, args[0]).rank == 2 and isinstance(args[1], tuple) \
                and len(args[1]) == 3 and args[1][1] == 1 and args[1][2] == 1 and ex.num(args[1][0]) is not None and ex.num(args[1][0])[1] == TInt:
            from .engine import PyRaise

            M = _arr(ex, args[0])
            n = ex.num(args[1][0])[0]
            if not ex.st.decide(n >= 0):
                raise PyRaise("ValueError", lineno)
            ex.assumed.add("numpy.tile(M, (n, 1, 1)): T[i, j, k] = M[j, k], shape (n, rows, cols)")
            return _NP.new(ex, M.kind, (n, M.shape[0], M.shape[1]), _NP.lam(3, lambda i, j, k: M.at(j, k)))
        if fn == "zeros" and len(args) == 1 and not kwargs and isinstance(args[0], tuple) and len(args[0]) == 3 and all(ex.num(d) is not None and ex.num(d)[1] == TInt for d in args[0]):
            from .engine import PyRaise

            dims = [ex.num(d)[0] for d in args[0]]
            for t in dims:
                if not ex.st.decide(t >= 0):
                    raise PyRaise("ValueError", lineno)
            return _NP.new(ex, "f", dims, _NP.lam(3, lambda i, j, k: z3.RealVal(0)))
        if fn == "unique" and len(args) == 1 and not kwargs and _is_arr(ex, args[0]) and _arr(ex, args[0]).rank == 1 and _arr(ex, args[0]).kind == "i":
            A = _arr(ex, args[0])
            if not (z3.is_const(A.elems) and A.elems.decl().kind() == z3.Z3_OP_UNINTERPRETED):
                # the vector gets a name (defined point-wise on its range): the uninterpreted functions of v then take a lambda-free term
                cv = ex.st.fresh_const("uniq_src", A.elems.sort())
                iq = z3.Int("i!us")
                ex.st.assume(z3.ForAll([iq], z3.Implies(z3.And(0 <= iq, iq < A.shape[0]), cv[iq] == A.elems[iq]), patterns=[cv[iq]]))
                A.elems, A.src = cv, None
            t = arr1i_term(A)
            for f in unique_axioms(t, A.shape[0], lambda i: A.elems[i]):
                ex.st.assume(f)
            ex.assumed.add("numpy.unique(v): the distinct values of v in increasing order (uninterpreted length / elements / slot / occurrence functions of v)")
            return _NP.new(ex, "i", (u_len(t),), _NP.lam(1, lambda j: u_el(t, j)))
        if fn == "repeat" and len(args) == 2 and kwargs.get("axis") == 0 and set(kwargs) == {"axis"} and _is_arr(ex, args[0]) and _arr(ex, args[0]).rank == 3 \
                and ex.num(args[1]) is not None and ex.num(args[1])[1] == TInt:
            from .engine import PyRaise

            A = _arr(ex, args[0])
            n = ex.num(args[1])[0]
            if not ex.st.decide(n >= 0):
                raise PyRaise("ValueError", lineno)
            if not ex.st.decide(A.shape[0] == 1):
                raise Unsupported("numpy.repeat along axis 0 of an array with several leading entries")
            ex.assumed.add("numpy.repeat(A, n, axis=0) of a (1, p, q) array: R[s, a, b] = A[0, a, b], shape (n, p, q)")
            return _NP.new(ex, A.kind, (n, A.shape[1], A.shape[2]), _NP.lam(3, lambda s_, a, b: A.at(z3.IntVal(0), a, b)))
        if fn == "atleast_2d" and len(args) == 1 and not kwargs and _is_arr(ex, args[0]):
            A = _arr(ex, args[0])
            if A.rank >= 2:
                return args[0]
            ex.assumed.add("numpy.atleast_2d(v) of a vector: the (1, len(v)) matrix whose row is v")
            return _NP.new(ex, A.kind, (z3.IntVal(1), A.shape[0]), _NP.lam(2, lambda i, j: A.elems[j]))
        return NotImplemented

    # ------------------------------------------------------------------ operators
    def binop(self, ex, op, a, b, lineno, inplace=False):
        if not (_on(ex) and op == "MatMult" and _is_arr(ex, a) and _is_arr(ex, b)):
            return NotImplemented
        from .engine import PyRaise

        d = _diag_table(ex).get(b.id)
        A = _arr(ex, a)
        if d is None or A.kind != "f" or d[0] != "f" or A.rank not in (1, 2):
            return NotImplemented
        _, m, c = d
        if not _NP.same(ex, A.shape[-1], m, lineno):
            raise PyRaise("ValueError", lineno)
        ex.assumed.add("matrix product with a diagonal right operand: (x @ diag(c))[i, j] = x[i, j] * c[j]")
        if A.rank == 1:
            return _NP.new(ex, "f", (m,), _NP.lam(1, lambda j: A.elems[j] * c[j]))
        return _NP.new(ex, "f", (A.shape[0], m), _NP.lam(2, lambda i, j: A.at(i, j) * c[j]))

    # ------------------------------------------------------------------ methods
    def call_method(self, ex, recv, name, args, kwargs, lineno):
        if not (_on(ex) and isinstance(name, str) and name.startswith("np.") and _is_arr(ex, recv)):
            return NotImplemented
        fn = name[3:]
        A = _arr(ex, recv)
        if fn == "reshape" and A.rank == 2 and len(args) == 1 and isinstance(args[0], tuple) and len(args[0]) == 2 and args[0][1] == -1 and isinstance(args[0][1], int) \
                and ex.num(args[0][0]) is not None:
            if not _NP.same(ex, ex.num(args[0][0])[0], A.shape[0], lineno):
                raise Unsupported("reshape((n, -1)) of a matrix whose first dimension is not n")
            return _NP.new(ex, A.kind, A.shape, A.elems)
        if fn in COLFN and A.rank == 2 and A.kind == "f" and len(args) == 1 and not kwargs and args[0] == 0 and isinstance(args[0], int):
            from .engine import PyRaise

            st = ex.st
            n, d = A.shape
            if not st.decide(n >= 1):
                if fn in ("min", "max"):
                    raise PyRaise("ValueError", lineno)  # zero-size array to reduction operation which has no identity
                raise Unsupported(f"ndarray.{fn}(0) of an array without rows (nan with a warning)")
            t = arr2_term(A)
            key = ("c18_colstats", t.get_id())
            if key not in st.ghost:
                st.ghost[key] = True
                for f in column_axioms(t, n, d, A.at):
                    st.assume(f)
            ex.assumed.add("ndarray.min/max/mean/std(0): per-column uninterpreted functions with min <= entries, mean <= max, std >= 0, min/max attained")
            f = COLFN[fn]
            return _NP.new(ex, "f", (d,), _NP.lam(1, lambda j: f(t, j)))
        return NotImplemented

    # ------------------------------------------------------------------ subscripts
    def getitem(self, ex, cont, key, lineno):
        if not _on(ex):
            return NotImplemented
        st = ex.st
        if ex.no_fork and isinstance(cont, Ref) and isinstance(st.heap.get(cont.id), DictObj) and not st.heap[cont.id].is_empty_literal:
            # d[key] inside a comprehension element (no forking possible there): when the membership is not decided by the quantifier-free
            # facts, the obligation `comprehension-key-present` is generated instead (a KeyError inside the comprehension is a failed obligation)
            o = st.heap[cont.id]
            kt = o.k.embed(st, key)
            m = z3.simplify(o.member[kt])
            if not z3.is_true(m) and st.solver.check(z3.Not(m)) != z3.unsat:
                ex.check(m, "safety", "comprehension-key-present", lineno, aux=True)
            return o.v.project(st, o.vals[kt], (cont, kt, "dict"))
        if isinstance(cont, Ref) and isinstance(st.heap.get(cont.id), ListObj) and isinstance(key, tuple) and len(key) == 4 and key[0] == "slice" \
                and key[1] is None and key[2] is None and key[3] == -1 and isinstance(key[3], int):
            o = st.heap[cont.id]
            if o.is_empty_literal:
                return NotImplemented
            rev = st.fresh_const("reversed", o.elems.sort())
            i = z3.Int("i!rev")
            st.assume(z3.ForAll([i], z3.Implies(z3.And(0 <= i, i < o.n), rev[i] == o.elems[o.n - 1 - i]), patterns=[rev[i]]))
            new = ListObj(o.t, o.n, rev)
            new.ty = o.ty
            return st.alloc(new)
        if _is_arr(ex, cont) and _arr(ex, cont).rank == 2 and _arr(ex, cont).kind == "f" and not isinstance(key, bool) and ex.num(key) is not None and ex.num(key)[1] == TInt:
            A = _arr(ex, cont)
            r = _NP.getitem(ex, cont, key, lineno)  # row X[s] (IndexError path as npmodel), remembered as row s of X
            n0, kt = A.shape[0], ex.num(key)[0]
            st.ghost.setdefault("c18_row", {})[r.id] = (arr2_term(A), z3.simplify(z3.If(kt < 0, kt + n0, kt)), A)
            return r
        if _is_arr(ex, cont) and key is None and _arr(ex, cont).rank == 2:
            A = _arr(ex, cont)
            return _NP.new(ex, A.kind, (z3.IntVal(1), A.shape[0], A.shape[1]), _NP.lam(3, lambda z, a, b: A.at(a, b)))
        if _is_arr(ex, cont) and _is_arr(ex, key) and _arr(ex, cont).rank == 2 and _arr(ex, key).rank == 1 and _arr(ex, key).kind == "i":
            A, K = _arr(ex, cont), _arr(ex, key)
            r = _NP.getitem(ex, cont, key, lineno)
            n0 = A.shape[0]
            st.ghost.setdefault("c18_gather", {})[r.id] = (arr2_term(A) if A.kind == "f" else None, lambda t: z3.If(K.elems[t] < 0, K.elems[t] + n0, K.elems[t]))
            return r
        if _is_arr(ex, cont) and isinstance(key, tuple) and key and _is_ellipsis(key[0]):
            A = _arr(ex, cont)
            rest = key[1:]
            full = lambda k: isinstance(k, tuple) and len(k) == 4 and k[0] == "slice" and k[1] is None and k[2] is None and k[3] is None  # noqa: E731
            if A.rank == 3 and len(rest) == 3 and rest[0] == 0 and isinstance(rest[0], int) and full(rest[1]) and full(rest[2]):
                from .engine import PyRaise

                if not st.decide(A.shape[0] >= 1):
                    raise PyRaise("IndexError", lineno)
                return _NP.new(ex, A.kind, (A.shape[1], A.shape[2]), _NP.lam(2, lambda j, k: A.at(z3.IntVal(0), j, k)))
        return NotImplemented

    def setitem(self, ex, cont, key, v, lineno):
        if _on(ex) and _is_arr(ex, cont) and _arr(ex, cont).rank == 3 and _is_arr(ex, v) and ex.num(key) is not None and ex.num(key)[1] == TInt:
            # J[s] = M: numpy broadcasts M to J.shape[1:]; only the equal-shape case is modelled
            A, V = _arr(ex, cont), _arr(ex, v)
            if V.rank != 2:
                raise Unsupported("J[s] = M with a value that is not a matrix")
            if not all(_NP.same(ex, a, b, lineno) for a, b in zip(V.shape, A.shape[1:])):
                from .engine import PyRaise

                if ex.st.decide(z3.Or(*[z3.And(a != b, a != 1) for a, b in zip(V.shape, A.shape[1:])])):
                    raise PyRaise("ValueError", lineno)  # could not broadcast input array
                raise Unsupported("J[s] = M with broadcasting of M")
            return _NP.setitem(ex, cont, key, v, lineno)
        if not (_on(ex) and _is_arr(ex, cont) and _arr(ex, cont).rank == 3 and _is_arr(ex, key) and _is_arr(ex, v)):
            return NotImplemented
        from .engine import PyRaise

        st = ex.st
        A, V = _arr(ex, cont), _arr(ex, v)
        ia = _NP._index_array(ex, key, A.shape[0], lineno)
        if ia is None or V.rank != 3:
            return NotImplemented
        cnt, f = ia
        for a, b in zip(V.shape, (cnt, A.shape[1], A.shape[2])):
            if not _NP.same(ex, a, b, lineno):
                raise Unsupported("row scatter J[idx] = V with V.shape != (len(idx), *J.shape[1:]) (broadcasting / ValueError not modelled)")
        j1, j2 = z3.Int("j1!sc"), z3.Int("j2!sc")
        ex.check(z3.ForAll([j1, j2], z3.Implies(z3.And(0 <= j1, j1 < j2, j2 < cnt), f(j1) != f(j2))), "safety", "scatter-indices-distinct", lineno, aux=True)
        inv = st.fresh_const("scinv", z3.ArraySort(INT, INT))
        jq = z3.Int("j!sc")
        st.assume(z3.ForAll([jq], z3.Implies(z3.And(0 <= jq, jq < cnt), inv[f(jq)] == jq)))
        old = A.elems
        k = A.kind
        from .npmodel import _conv

        A.elems = _NP.lam(3, lambda i, a, b: z3.If(z3.And(0 <= inv[i], inv[i] < cnt, f(inv[i]) == i), _conv(V.at(inv[i], a, b), V.kind, k), z3.Select(old, i, a, b)))
        ex.writeback(A)
        return True

    def havoc_obj(self, ex, ref, o, hint):
        if _on(ex) and isinstance(o, ArrObj):
            from .npmodel import arr_sort

            o.elems = ex.st.fresh_const(hint.replace(".", "_") + "_el", arr_sort(o.kind, o.rank))
            o.src = None
            ex.writeback(o)
            return True
        return NotImplemented
