"""./check <Cxx> --tier quick|thorough   |   ./check <Cxx> --replay <file>

Exit codes: 0 held / 1 VIOLATION / 2 undecided / 3 checker error (DESIGN.md §2.8).
"""
from __future__ import annotations

import argparse
import hashlib
import importlib
import json
import os
import re
import sys
import time
import traceback
from pathlib import Path

ROOT = Path(__file__).resolve().parent.parent
sys.path.insert(0, str(ROOT))

import z3  # noqa: E402

from pyvc import contract as C  # noqa: E402
from pyvc import source as S  # noqa: E402
from pyvc.runner import generate  # noqa: E402
from pyvc.solve import discharge  # noqa: E402
from pyvc.state import Obligation  # noqa: E402

GLOBAL_TRUSTED = [
    "pyvc VC generator (symbolic executor over the real AST), its Python/dict/list/set models",
    "SMT solvers: z3 5.1 (Python API), fallback cvc5 1.0.3 / z3 4.8.12 CLI for `unknown`",
    "float64 treated as mathematical reals; int64 overflow ignored",
    "single thread of control inside each function; locks are no-ops",
    "user callables are pure w.r.t. the verified state (no re-entrancy)",
    "distinct input objects do not alias unless the contract says so",
    "logging, warnings and exception-message construction are dropped by extraction",
]


def load_known_findings():
    p = ROOT / "known_findings.json"
    if not p.exists():
        return []
    return json.loads(p.read_text()).get("findings", [])


def kf_matches(kf, ob: Obligation) -> bool:
    return kf.get("property") == ob.prop and kf.get("function") == ob.func and re.fullmatch(kf.get("obligation", ".*"), f"{ob.kind}:{ob.label}") is not None


def main(argv=None):
    if not os.environ.get("PYVC_TMP"):
        # scratch directory of this run (SMT-LIB dumps for the CLI back ends), removed at exit also when workers were terminated
        import atexit
        import shutil
        import tempfile

        _tmp = tempfile.mkdtemp(prefix="pyvc_run.")
        os.environ["PYVC_TMP"] = _tmp
        atexit.register(shutil.rmtree, _tmp, True)
    ap = argparse.ArgumentParser()
    ap.add_argument("prop")
    ap.add_argument("--tier", default=os.environ.get("VERIF_TIER", "quick"), choices=["quick", "thorough"])
    ap.add_argument("--replay", default=None)
    ap.add_argument("--only", nargs="*", default=None)
    ap.add_argument("-v", "--verbose", action="store_true")
    args = ap.parse_args(argv)
    prop = args.prop
    seed = int(os.environ.get("VERIF_SEED", "0"))
    import contracts

    if prop not in contracts.PROPS:
        print(f"property {prop} is not claimed (see MANIFEST.json not_applicable)")
        return 3
    info = contracts.PROPS[prop]
    if args.replay:
        return do_replay(prop, info, args.replay)
    t0 = time.time()
    try:
        rc, evidence = run_check(prop, info, args.tier, seed, args.only, args.verbose)
    except Exception:  # noqa: BLE001
        traceback.print_exc()
        print(f"CHECKER-ERROR property={prop}")
        return 3
    if args.tier == "thorough" and rc == 0 and not args.only and not os.environ.get("PYVC_REPO"):
        # thorough tier: mutation sensitivity self-test of this property's contracts (scratch copies outside /repo and /verif)
        try:
            evidence["coverage"]["mutation_selftest"] = mutation_selftest(prop)
        except Exception:  # noqa: BLE001
            evidence["coverage"]["mutation_selftest"] = {"error": traceback.format_exc()[-800:]}
    evidence["wall_s"] = round(time.time() - t0, 2)
    if not args.only and not os.environ.get("PYVC_NO_EVIDENCE"):
        (ROOT / "evidence").mkdir(exist_ok=True)
        (ROOT / "evidence" / f"{prop}.json").write_text(json.dumps(evidence, indent=1, default=str))
    print(f"{prop}: exit {rc} in {evidence['wall_s']}s; obligations={evidence['coverage']['obligations']} discharged={evidence['coverage']['discharged']}")
    return rc


def run_check(prop, info, tier, seed, only, verbose):
    for m in info["modules"]:
        importlib.import_module(m)
    timeout_ms = 6000 if tier == "quick" else 30000
    reports = generate(prop, only)
    obs = [o for r in reports for o in r.obligations]
    known = load_known_findings()
    t_solve = time.time()
    discharge(obs, timeout_ms)
    # undecided queries get a second, longer attempt (few at a time, so that a busy machine cannot flip a verdict)
    # (obligations of a listed known finding need not be decided: their "outside the region" version is what is proved)
    retry = [o for o in obs if o.result not in ("unsat", "sat") and o.kind != "canary" and not any(kf_matches(k, o) for k in known)]
    if retry:
        for o in retry:
            o.result = ""
        discharge(retry, timeout_ms * 4, procs=8)
    t_solve = time.time() - t_solve
    violations, undecided, errors, known_hits, unknowns = [], [], [], [], []
    # --- classify
    for r in reports:
        if r.status == "error":
            errors.append((r.target, r.reason))
        elif r.status == "undecided":
            undecided.append((r.target, r.reason))
        n_real = 0
        for o in r.obligations:
            if o.kind == "canary":
                if o.result == "unsat":
                    errors.append((o.name, "contradictory hypotheses: the vacuity canary was proved"))
                continue
            n_real += 1
            if o.result == "unsat":
                continue
            if o.result == "sat":
                kf = next((k for k in known if kf_matches(k, o)), None)
                if kf is not None:
                    known_hits.append((kf, o))
                else:
                    violations.append(o)
            else:
                unknowns.append(o)
        if r.status == "ok" and n_real == 0:
            errors.append((r.target, "zero obligations generated (vacuous contract)"))
    # --- replay
    rt = info.get("runtime")
    rtmod = None
    if rt is not None:
        try:
            rtmod = importlib.import_module(rt)
        except ImportError:
            rtmod = None
    # an obligation the solvers cannot decide is undecided - unless the run-time contract exhibits
    # a concrete failing input on the real code, in which case it is a violation with a witness
    for o in list(unknowns):
        kf = next((k for k in known if kf_matches(k, o)), None)
        if kf is not None:
            # a listed finding whose obligation the solvers leave open: it stays a known finding provided the clause
            # is PROVED outside the recorded failing region (checked below)
            known_hits.append((kf, o))
            if not kf.get("region"):
                undecided.append((o.name, "known finding without region and no counter-model"))
            continue
        w = None
        if rtmod is not None and kf is None:
            try:
                w = rtmod.replay(o, seed)
            except Exception:  # noqa: BLE001
                w = None
        if w is not None:
            o.model = "(solver answer: unknown; violation established by the run-time contract on the real code)\n" + o.model
            violations.append(o)
        elif kf is None:
            # every obligation discharges on the pinned tree (that is what exit 0 there means): an obligation
            # that can no longer be discharged, even with the long budget and all back ends, is reported
            # as a violation without a failing input (the replay file carries the solver's reason).
            o.model = f"(no counter-model: all back ends answered '{o.result}' within the extended budget; this clause is discharged on the pinned tree)\n" + o.model
            violations.append(o)
        else:
            undecided.append((o.name, f"solver: {o.result} {o.model[:200]}"))
    # --- known findings: the clause must still hold outside the recorded failing region
    region_obs = []
    for kf, o in known_hits:
        reg = kf.get("region")
        if reg and reg in o.tracked_regions:
            ro = Obligation(o.name + f"|outside:{reg}", o.kind, o.func, o.lineno, o.hyps + [z3.Not(o.tracked_regions[reg])], o.goal, o.label, o.aux, o.path, prop=o.prop)
            ro.parent = o
            region_obs.append(ro)
        elif reg:
            errors.append((o.name, f"known finding names region '{reg}' which the contract does not define"))
    if region_obs:
        discharge(region_obs, timeout_ms)
        for ro in region_obs:
            if ro.result == "sat":
                ro.model = "(outside the known failing region)\n" + ro.model
                violations.append(ro)
            elif ro.result != "unsat":
                undecided.append((ro.name, f"solver: {ro.result}"))
    lines = []
    replays = []
    seen_kf = set()
    for kf, o in known_hits:
        key = (kf["property"], kf["function"], kf.get("obligation"))
        if key in seen_kf:
            continue
        seen_kf.add(key)
        lines.append(f"KNOWN-FINDING: property={prop} {kf['what']}")
    grouped = {}
    for o in violations:
        grouped.setdefault((o.func, o.kind, o.label), []).append(o)
    (ROOT / "replays").mkdir(exist_ok=True)
    for (func, kind, label), group in grouped.items():
        o = group[0]
        witness = None
        if rtmod is not None:
            try:
                witness = rtmod.replay(o, seed)
            except Exception:  # noqa: BLE001
                witness = None
                if verbose:
                    traceback.print_exc()
        fi = None
        try:
            fi = S.load_function(func)
        except Exception:  # noqa: BLE001
            pass
        rid = hashlib.sha1(f"{func}{kind}{label}".encode()).hexdigest()[:10]
        path = ROOT / "replays" / f"{prop}-{rid}.json"
        doc = {
            "property": prop,
            "obligation": o.name,
            "function": func,
            "clause": f"{kind}:{label}",
            "failed_on_paths": [g.name for g in group],
            "source": {"file": fi.file if fi else None, "lines": fi.lines if fi else None, "sha256": fi.sha256 if fi else None},
            "verifier_output": {"result": o.result, "backend": o.backend, "counter_model": o.model[:8000]},
            "concrete_witness": witness,
            "rerun": f"./check {prop} --replay {path.relative_to(ROOT)}",
        }
        path.write_text(json.dumps(doc, indent=1, default=str))
        suffix = "" if witness else " no-failing-input-found"
        lines.append(f"VIOLATION property={prop} replay={path.relative_to(ROOT)} obligation={o.name}{suffix}")
        replays.append(doc)
    for l in lines:
        print(l)
    for name, why in undecided:
        print(f"UNDECIDED {name}: {why[:300]}")
    for name, why in errors:
        print(f"CHECKER-ERROR {name}: {why[:3000]}")
    if verbose:
        for r in reports:
            n = len([o for o in r.obligations if o.kind != "canary"])
            ok = len([o for o in r.obligations if o.kind != "canary" and o.result == "unsat"])
            print(f"  [{r.status}] {r.target}: {ok}/{n} paths={r.paths} gen={r.gen_seconds:.1f}s")
            for o in r.obligations:
                if o.kind != "canary" and o.result != "unsat":
                    print(f"       {o.result:8s} {o.name} ({o.seconds:.1f}s)")
    # --- evidence
    kf_ids = {id(o) for _, o in known_hits}
    # obligations of a listed known finding are replaced by their "outside the failing region" version
    real = [o for o in obs if o.kind != "canary" and id(o) not in kf_ids] + list(region_obs)
    disch = [o for o in real if o.result == "unsat"]
    kf_confirm = []
    seen_c = set()
    for kf, o in known_hits:
        key = (kf["function"], kf.get("obligation"))
        if key in seen_c:
            continue
        seen_c.add(key)
        w = None
        if rtmod is not None:
            try:
                w = rtmod.replay(o, seed)
            except Exception:  # noqa: BLE001
                w = None
        kf_confirm.append({"finding": kf["what"], "obligation": o.name, "solver": o.result, "replayed_on_real_code": w})
    by_backend = {}
    for o in disch:
        by_backend[o.backend] = by_backend.get(o.backend, 0) + 1
    functions = []
    for r in reports:
        fr = [o for o in r.obligations if o.kind != "canary"]
        functions.append({
            "function": r.target,
            "status": r.status,
            "reason": r.reason[:500] if r.status != "ok" else "",
            "file": r.finfo.file if r.finfo else None,
            "lines": r.finfo.lines if r.finfo else None,
            "sha256": r.finfo.sha256 if r.finfo else None,
            "paths": r.paths,
            "obligations": len(fr),
            "discharged": len([o for o in fr if o.result == "unsat"]),
            "by_kind": {k: len([o for o in fr if o.kind == k]) for k in sorted({o.kind for o in fr})},
            "canary": next((o.result for o in r.obligations if o.kind == "canary"), None),
            "inlined_callees": sorted(r.inlined),
            "callee_contracts_used": sorted(r.callee_contracts),
            "assumed": sorted(r.assumed),
            "solver_seconds": round(sum(o.seconds for o in fr), 3),
            "slowest": round(max([o.seconds for o in fr] or [0]), 3),
        })
    samples = []
    from pyvc.solve import to_smt2

    for o in [x for x in real if x.backend != "simplifier"][:: max(1, len(real) // 3)][:3] or real[:1]:
        try:
            smt = to_smt2(o) if o.hyps or o.backend != "simplifier" else "(trivial after simplification)"
        except Exception:  # noqa: BLE001
            smt = "(not printable)"
        samples.append({"obligation": o.name, "kind": o.kind, "result": o.result, "backend": o.backend, "smt2_tail": smt[-1500:]})
    trusted_fns = [f"{r.target}: {r.reason}" for r in reports if r.status == "trusted"]
    assumptions = list(GLOBAL_TRUSTED) + list(info.get("assumptions", [])) + [f"assumed contract (not verified): {t}" for t in trusted_fns]
    assumed_all = sorted({a for r in reports for a in r.assumed})
    evidence = {
        "property_id": prop,
        "tier": tier,
        "seed": seed,
        "level": "proof",
        "coverage": {
            "obligations": len(real),
            "discharged": len(disch),
            "checker_cmd": f"./check {prop} --tier {tier}",
            "trusted_base": GLOBAL_TRUSTED + list(info.get("trusted_base", [])) + trusted_fns + assumed_all,
            "functions_under_contract": len([r for r in reports if r.status != "trusted"]),
            "functions": functions,
            "discharged_by_backend": by_backend,
            "solver_seconds_total": round(sum(o.seconds for o in real), 2),
            "solve_wall_s": round(t_solve, 2),
            "canaries": {"total": len([o for o in obs if o.kind == "canary"]), "not_proved(as required)": len([o for o in obs if o.kind == "canary" and o.result != "unsat"])},
            "known_findings_confirmed": kf_confirm,
            "bounded_standins": info.get("bounded_standins", []),
            "samples": samples,
            "not_covered": info.get("not_covered", []),
        },
        "assumptions": assumptions,
        "violations": len(grouped),
        "undecided": [n for n, _ in undecided],
    }
    if errors:
        return 3, evidence
    if grouped:
        return 1, evidence
    if undecided:
        return 2, evidence
    return 0, evidence


def mutation_selftest(prop):
    """Apply each registered semantic mutant of the property to a scratch copy of the sources and require the quick check to report it."""
    import concurrent.futures as cf

    from tools.mutant_list import MUTANTS
    from tools.mutants import run as run_mutant

    import random

    ms = [m for m in MUTANTS if m[0] == prop]
    # wall-clock budget (a mutant costs one full quick check on a scratch copy): the mutants are taken in an order fixed by
    # VERIF_SEED until the budget is used up; what was not run is reported, not guessed
    budget = float(os.environ.get("PYVC_THOROUGH_BUDGET", "1500"))
    random.Random(int(os.environ.get("VERIF_SEED", "0"))).shuffle(ms)
    out = {"total": len(ms), "run": 0, "caught": 0, "missed": [], "other": [], "budget_s": budget}
    t0 = time.time()
    with cf.ThreadPoolExecutor(max_workers=4) as ex:
        pending = []
        it = iter(ms)
        exhausted = False
        while True:
            while not exhausted and len(pending) < 4 and time.time() - t0 < budget:
                m = next(it, None)
                if m is None:
                    exhausted = True
                    break
                pending.append(ex.submit(run_mutant, m))
            if not pending:
                break
            done, _ = cf.wait(pending, return_when=cf.FIRST_COMPLETED)
            for f in done:
                pending.remove(f)
                m, status, info = f.result()
                out["run"] += 1
                if status == "caught":
                    out["caught"] += 1
                elif status == "MISSED":
                    out["missed"].append(f"{m[1]}: {m[2][:80]}")
                    print(f"MUTANT-MISSED property={prop} {m[1]}: {m[2][:80]!r}")
                else:
                    out["other"].append(f"{status}: {m[1]}: {m[2][:60]} {info[:120]}")
    out["not_run_for_budget"] = out["total"] - out["run"]
    return out


def do_replay(prop, info, path):
    doc = json.loads(Path(path if os.path.isabs(path) else ROOT / path).read_text())
    print(json.dumps({k: doc[k] for k in ("property", "obligation", "function", "clause")}, indent=1))
    w = doc.get("concrete_witness")
    if not w:
        print("no concrete witness was recorded (no-failing-input-found); verifier output:")
        print(doc["verifier_output"]["counter_model"][:3000])
        return 1
    rt = importlib.import_module(info["runtime"])
    res = rt.rerun(w)
    print("replayed on the real code:", json.dumps(res, default=str)[:3000])
    return 1 if res.get("fails") else 0


if __name__ == "__main__":
    sys.exit(main())
