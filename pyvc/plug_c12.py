"""Backup clauses of C12 attached to C11 / C03 / C01 (contracts/c12_backup_clauses.py).

Every hook is gated on contracts that opt in with ``c12 = True``; the verification conditions of all other contracts are unchanged.

Modelled (assumptions, each listed in the evidence of the function that uses it):

* OPEN HANDLES.  ``h5py.File(..)`` adds one to the ghost ``h5_nopen`` (number of open handles on the modelled file), leaving the ``with`` block
  - normally or by an exception - subtracts one (h5py.File.__exit__ closes the handle: A1/A14 of pyvc/plug_hdf.py).  Opening in mode "w"/"a" creates the
  file: ghost ``h5_file_exists`` becomes True.  ``h5py.File`` is also modelled in gemseo.algos.optimization_problem (same abstract node as plug_hdf).
* THE BACKUP PATH.  ``Path(p)`` is the opaque value ``c12_path(p)``; ``path.exists()`` reads the ghost ``h5_file_exists`` (one file: the backup path names
  the modelled file - the "one node" history assumption of C11); ``path.unlink()`` removes the file: ``h5_file_exists`` becomes False and the abstract
  node content becomes empty (the content of an absent file is what File(path, "a") then creates: nothing).
* THE DESCRIPTION BLOCK of OptimizationProblem.to_hdf (``if not append or self._OPT_DESCR_GROUP not in h5file: ...``) is an ASSUMED thin summary: it only
  writes the groups opt_description / objective / constraints / observables / solution of the node through store_h5data / store_attr_h5data (HDF groups of
  different names are independent: x, k, v untouched) and touches neither the database nor the problem.  The summary is only applied when the block, read on
  the AST of the real source, mentions neither ``database`` nor a group literal "x" / "k" / "v" and calls nothing but require_group / store_h5data /
  store_attr_h5data / getattr / zip (otherwise the function is undecided).
"""
from __future__ import annotations

import ast

import z3

from .values import BoundMethod, SV, TBool, TVal, Unsupported, ValS, StrS, TStr, declare_ghost

declare_ghost("h5_nopen", z3.IntSort())
declare_ghost("h5_file_exists", z3.BoolSort())

c12_path = z3.Function("c12_path", StrS, StrS)  # pathlib.Path(p) as an opaque (string-like) value

OPT_MOD = "gemseo.algos.optimization_problem"
DB_CLS = "gemseo.algos.database.Database"
HDF_MOD = "gemseo.algos._hdf_database"
DESCR_TEST = "not append or self._OPT_DESCR_GROUP not in h5file"
DESCR_CALLS = {"require_group", "store_h5data", "store_attr_h5data", "getattr", "zip"}


def _on(ex):
    return getattr(ex.contract, "c12", False)


def _hdf(ex):
    for p in ex.models.plugins:
        if type(p).__name__ == "HdfModels":
            return p
    raise Unsupported("plug_c12 needs the abstract h5py model (plug_hdf.HdfModels)")


def _block_is_description_only(node: ast.If) -> bool:
    for x in ast.walk(ast.Module(body=node.body, type_ignores=[])):
        if isinstance(x, ast.Constant) and x.value in ("x", "k", "v"):
            return False
        if isinstance(x, ast.Attribute) and x.attr in ("database", "_EvaluationProblem__database"):
            return False
        if isinstance(x, ast.Name) and x.id == "database":
            return False
        if isinstance(x, ast.Call):
            f = x.func
            name = f.attr if isinstance(f, ast.Attribute) else f.id if isinstance(f, ast.Name) else None
            if name not in DESCR_CALLS:
                return False
        if isinstance(x, (ast.With, ast.Delete, ast.Raise, ast.Return)):
            return False
    return not node.orelse


class C12Models:
    # ------------------------------------------------------------------ open handles / Path
    def call_builtin(self, ex, name, args, kwargs, lineno, node=None):
        if not _on(ex):
            return NotImplemented
        st = ex.st
        mod = ex.frame.module.name
        if name == "h5py.File" and mod in (HDF_MOD, OPT_MOD):
            mode = args[1] if len(args) > 1 else kwargs.get("mode", "r")
            if not isinstance(mode, str):
                raise Unsupported("h5py.File with a symbolic mode")
            ref = _hdf(ex)._open(ex, mode)
            st.ghost_set("h5_nopen", st.ghost_get("h5_nopen", z3.IntSort()) + 1)
            if mode in ("w", "a"):
                st.ghost_set("h5_file_exists", z3.BoolVal(True))
            ex.assumed.add("open handles: h5py.File(..) opens one handle on the modelled file (ghost h5_nopen), leaving the `with` block closes it - also on an exception; "
                           "modes 'w'/'a' create the file")
            return ref
        if name == "datetime.timedelta":
            return SV(st.fresh_const("timedelta", ValS), TVal)  # (only formatted into a log line)
        if name.rsplit(".", 1)[-1] == "Path" and len(args) == 1 and not kwargs:
            ex.assumed.add("Path(p) is an opaque value; the backup path names the modelled HDF file (exists() / unlink() act on ghost h5_file_exists)")
            return SV(c12_path(TStr.embed(st, args[0])), TStr)
        return NotImplemented

    def exit_context(self, ex, node, exc):
        if _on(ex) and ex.st.ghost.get("h5_open"):
            st = ex.st
            st.ghost_set("h5_nopen", z3.simplify(st.ghost_get("h5_nopen", z3.IntSort()) - 1))
        return NotImplemented  # (plug_hdf writes the node content back)

    def value_attr(self, ex, obj, attr, lineno):
        if _on(ex) and isinstance(obj, SV) and obj.ty == TStr and attr in ("exists", "unlink"):
            return BoundMethod(obj, None, "c12path:" + attr)
        return NotImplemented

    def call_method(self, ex, recv, name, args, kwargs, lineno):
        if not (isinstance(name, str) and name.startswith("c12path:")):
            return NotImplemented
        st = ex.st
        if name == "c12path:exists":
            return SV(st.ghost_get("h5_file_exists", z3.BoolSort()), TBool)
        if name == "c12path:unlink":
            from .engine import PyRaise
            from .plug_hdf import KG, VA, VD, XG, _empty

            if not st.decide(st.ghost_get("h5_file_exists", z3.BoolSort())):
                raise PyRaise("FileNotFoundError", lineno)
            st.ghost_set("h5_file_exists", z3.BoolVal(False))
            for g, T in (("h5_x", XG), ("h5_k", KG), ("h5_vd", VD), ("h5_va", VA)):
                st.ghost_set(g, T.embed(st, _empty(st, T)))
            st.ghost_set("h5_has_ds", z3.BoolVal(False))
            return None
        return NotImplemented

    # ------------------------------------------------------------------ Database(name, input_space)
    def construct(self, ex, cv, args, kwargs, lineno):
        if not _on(ex) or cv.qualname != DB_CLS:
            return NotImplemented
        from .values import DictObj, ListObj, PyObj, Ref, TObj

        st = ex.st
        ref = TObj(DB_CLS, schema_key=DB_CLS + "#c12").fresh(st, "new_database")

        def empty(o):
            if isinstance(o, DictObj):
                k = z3.Const("k!c12e", o.k.sort())
                st.assume(o.n == 0)
                st.assume(z3.ForAll([k], z3.Not(o.member[k])))
            elif isinstance(o, ListObj):
                st.assume(o.n == 0)
            elif isinstance(o, PyObj):
                for v in o.fields.values():
                    if isinstance(v, Ref):
                        empty(st.heap[v.id])

        empty(st.heap[ref.id])
        ex.assumed.add("Database(name, input_space) (constructor model, source lines `self.__data = {}` .. `self.__hdf_database = HDFDatabase()`): no entry, no listener, "
                       "a fresh HDFDatabase with an empty pending buffer; the input space is not modelled")
        return ref

    # ------------------------------------------------------------------ description block of OptimizationProblem.to_hdf
    def skip_stmt(self, ex, node):
        if not _on(ex) or not isinstance(node, ast.If):
            return NotImplemented
        fi = getattr(ex.frame, "finfo", None)
        if fi is None or fi.qualname != OPT_MOD + ".OptimizationProblem.to_hdf" or ast.unparse(node.test) != DESCR_TEST:
            return NotImplemented
        if not _block_is_description_only(node):
            raise Unsupported("OptimizationProblem.to_hdf: the description block refers to the database or to the groups x/k/v (the assumed summary does not apply)")
        ex.assumed.add("OptimizationProblem.to_hdf, description block (assumed thin summary, checked on the AST to mention neither the database nor the groups x/k/v): "
                       "only writes the groups opt_description/objective/constraints/observables/solution of the node; x, k, v, the database and the problem untouched")
        return True
