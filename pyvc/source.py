"""Extraction of the real source: functions/classes by qualified name, from /repo on every run.

Nothing is cached across runs.  The AST that the symbolic executor walks is produced here from
the current text of /repo/src/gemseo/...; sha256 of each extracted function segment is recorded
for the evidence file.
"""
from __future__ import annotations

import ast
import hashlib
import os
from dataclasses import dataclass, field
from pathlib import Path

REPO = Path(os.environ.get("PYVC_REPO", "/repo"))
SRC = REPO / "src"


class SourceError(Exception):
    """The requested function/class cannot be found (-> undecided, never 'held')."""


@dataclass
class ModuleInfo:
    name: str
    path: Path
    text: str
    tree: ast.Module
    imports: dict = field(default_factory=dict)  # local name -> qualified name
    classes: dict = field(default_factory=dict)  # class name -> ast.ClassDef
    functions: dict = field(default_factory=dict)  # function name -> ast.FunctionDef
    assigns: dict = field(default_factory=dict)  # module-level NAME -> ast expr


_modules: dict[str, ModuleInfo | None] = {}


def module_path(modname: str) -> Path | None:
    p = SRC / Path(*modname.split("."))
    if (p.with_suffix(".py")).exists():
        return p.with_suffix(".py")
    if (p / "__init__.py").exists():
        return p / "__init__.py"
    return None


def load_module(modname: str) -> ModuleInfo | None:
    if modname in _modules:
        return _modules[modname]
    path = module_path(modname)
    if path is None:
        _modules[modname] = None
        return None
    text = path.read_text()
    tree = ast.parse(text)
    mi = ModuleInfo(modname, path, text, tree)
    _collect(mi, tree.body)
    _modules[modname] = mi
    return mi


def _collect(mi: ModuleInfo, body) -> None:
    for node in body:
        if isinstance(node, ast.ImportFrom) and node.module and node.level == 0:
            for a in node.names:
                mi.imports[a.asname or a.name] = f"{node.module}.{a.name}"
        elif isinstance(node, ast.ImportFrom) and node.level > 0:
            # relative import (`from .discipline import Discipline` in a package __init__): resolved against the module's package
            base = mi.name.split(".")
            base = base[: len(base) - node.level + (1 if mi.path.name == "__init__.py" else 0)]
            mod = ".".join(base + ([node.module] if node.module else []))
            for a in node.names:
                mi.imports.setdefault(a.asname or a.name, f"{mod}.{a.name}")
        elif isinstance(node, ast.Import):
            for a in node.names:
                mi.imports[a.asname or a.name.split(".")[0]] = a.name if a.asname else a.name.split(".")[0]
        elif isinstance(node, ast.ClassDef):
            mi.classes[node.name] = node
        elif isinstance(node, (ast.FunctionDef,)):
            mi.functions[node.name] = node
        elif isinstance(node, ast.Assign) and len(node.targets) == 1 and isinstance(node.targets[0], ast.Name):
            mi.assigns[node.targets[0].id] = node.value
        elif isinstance(node, ast.AnnAssign) and isinstance(node.target, ast.Name) and node.value is not None:
            mi.assigns[node.target.id] = node.value
        elif isinstance(node, ast.If):
            # `if TYPE_CHECKING:` imports are kept for name resolution only.
            _collect(mi, node.body)
            _collect(mi, node.orelse)
        elif isinstance(node, ast.Try):
            _collect(mi, node.body)


def reset() -> None:
    _modules.clear()
    _class_cache.clear()


@dataclass
class ClassInfo:
    qualname: str  # module.Class
    module: ModuleInfo
    node: ast.ClassDef
    bases: list  # qualified names (may be non-repo, e.g. 'collections.abc.MutableSet')
    methods: dict  # name -> list[ast.FunctionDef] (property getter/setter may coexist)
    class_attrs: dict  # name -> ast expr

    @property
    def name(self) -> str:
        return self.node.name


_class_cache: dict[str, ClassInfo | None] = {}


def split_qualname(qualname: str):
    """Split 'pkg.mod.Class.meth' into (module, [Class, meth]) using the file system."""
    parts = qualname.split(".")
    for i in range(len(parts), 0, -1):
        mod = ".".join(parts[:i])
        if module_path(mod) is not None and (i == len(parts) or not (SRC / Path(*parts[: i + 1])).is_dir()):
            # prefer the longest module prefix
            return mod, parts[i:]
    return None, parts


def resolve_name_in_module(mi: ModuleInfo, name: str) -> str:
    """Qualified name of a bare identifier as seen from module ``mi``."""
    if name in mi.classes or name in mi.functions or name in mi.assigns:
        return f"{mi.name}.{name}"
    if name in mi.imports:
        return mi.imports[name]
    return name  # builtin or unknown


def _class_info(mi, node, qualname):
    bases = []
    for b in node.bases:
        bn = b
        if isinstance(bn, ast.Subscript):  # MutableSet[str]
            bn = bn.value
        if isinstance(bn, ast.Name):
            bases.append(resolve_name_in_module(mi, bn.id))
        elif isinstance(bn, ast.Attribute):
            bases.append(ast.unparse(bn))
    methods: dict = {}
    attrs: dict = {}
    nested: dict = {}
    for item in node.body:
        if isinstance(item, ast.FunctionDef):
            methods.setdefault(mangle(node.name, item.name), []).append(item)
        elif isinstance(item, ast.Assign) and len(item.targets) == 1 and isinstance(item.targets[0], ast.Name):
            attrs[mangle(node.name, item.targets[0].id)] = item.value
        elif isinstance(item, ast.AnnAssign) and isinstance(item.target, ast.Name) and item.value is not None:
            attrs[mangle(node.name, item.target.id)] = item.value
        elif isinstance(item, ast.ClassDef):
            nested[item.name] = item
    ci = ClassInfo(qualname, mi, node, bases, methods, attrs)
    ci.nested = nested
    return ci


def load_class(qualname: str) -> ClassInfo | None:
    if qualname in _class_cache:
        return _class_cache[qualname]
    mod, rest = split_qualname(qualname)
    ci = None
    if mod is not None and len(rest) == 1:
        mi = load_module(mod)
        if mi is not None and rest[0] in mi.classes:
            ci = _class_info(mi, mi.classes[rest[0]], f"{mod}.{rest[0]}")
        elif mi is not None and rest[0] in mi.imports:
            # re-exported
            ci = load_class(mi.imports[rest[0]])
    elif mod is not None and len(rest) == 2:
        outer = load_class(f"{mod}.{rest[0]}")
        if outer is not None and rest[1] in getattr(outer, "nested", {}):
            ci = _class_info(outer.module, outer.nested[rest[1]], f"{outer.qualname}.{rest[1]}")
    _class_cache[qualname] = ci
    return ci


def find_nested_class(cls_qualname: str, name: str):
    for q in mro(cls_qualname):
        ci = load_class(q)
        if ci is not None and name in getattr(ci, "nested", {}):
            return f"{ci.qualname}.{name}"
    return None


def mro(qualname: str) -> list[str]:
    """Linearised bases (depth-first, left-to-right, duplicates removed keeping the last
    occurrence, which matches C3 for the single-inheritance-with-mixins hierarchies of gemseo)."""
    out: list[str] = []

    def walk(q):
        out.append(q)
        ci = load_class(q)
        if ci is not None:
            for b in ci.bases:
                walk(b)

    walk(qualname)
    res: list[str] = []
    for i, q in enumerate(out):
        if q not in out[i + 1 :]:
            res.append(q)
    return res


def is_subclass(q: str, base: str) -> bool:
    if q == base:
        return True
    short = base.rsplit(".", 1)[-1]
    for c in mro(q):
        if c == base or c.rsplit(".", 1)[-1] == short:
            return True
    return False


def mangle(cls_name: str, attr: str) -> str:
    if attr.startswith("__") and not attr.endswith("__"):
        return f"_{cls_name.lstrip('_')}{attr}"
    return attr


@dataclass
class FunctionInfo:
    qualname: str
    module: ModuleInfo
    cls: ClassInfo | None
    node: ast.FunctionDef
    kind: str  # 'function' | 'method' | 'staticmethod' | 'classmethod' | 'property' | 'setter'

    @property
    def file(self) -> str:
        return str(self.module.path)

    @property
    def lines(self) -> tuple[int, int]:
        return (self.node.lineno, self.node.end_lineno)

    @property
    def segment(self) -> str:
        return ast.get_source_segment(self.module.text, self.node) or ""

    @property
    def sha256(self) -> str:
        return hashlib.sha256(self.segment.encode()).hexdigest()


def _kind_of(node: ast.FunctionDef, in_class: bool) -> str:
    for d in node.decorator_list:
        s = ast.unparse(d)
        if s == "staticmethod":
            return "staticmethod"
        if s == "classmethod":
            return "classmethod"
        if s == "property" or s.endswith(".getter") or s == "cached_property":
            return "property"
        if s.endswith(".setter"):
            return "setter"
    return "method" if in_class else "function"


def is_overload(node: ast.FunctionDef) -> bool:
    return any(ast.unparse(d) in ("overload", "typing.overload") for d in node.decorator_list)


def find_method(cls_qualname: str, name: str, want: str = "any", start_after: str | None = None):
    """Look a method up along the MRO. ``want``: 'any' | 'setter' | 'getter'."""
    chain = mro(cls_qualname)
    if start_after is not None:
        chain = chain[chain.index(start_after) + 1 :] if start_after in chain else []
    for q in chain:
        ci = load_class(q)
        if ci is None:
            continue
        for node in ci.methods.get(name, []):
            if is_overload(node):
                continue
            k = _kind_of(node, True)
            if want == "setter" and k != "setter":
                continue
            if want == "getter" and k == "setter":
                continue
            if want == "any" and k == "setter":
                continue
            return FunctionInfo(f"{ci.qualname}.{node.name}", ci.module, ci, node, k)
    return None


def find_class_attr(cls_qualname: str, name: str):
    for q in mro(cls_qualname):
        ci = load_class(q)
        if ci is None:
            continue
        if name in ci.class_attrs:
            return ci, ci.class_attrs[name]
    return None, None


def load_function(qualname: str, setter: bool = False) -> FunctionInfo:
    mod, rest = split_qualname(qualname)
    if mod is None:
        raise SourceError(f"module of {qualname} not found under {SRC}")
    mi = load_module(mod)
    if len(rest) == 1:
        if rest[0] in mi.functions:
            node = mi.functions[rest[0]]
            return FunctionInfo(qualname, mi, None, node, "function")
        if rest[0] in mi.imports:
            return load_function(mi.imports[rest[0]])
        raise SourceError(f"function {qualname} not found in {mi.path}")
    if len(rest) >= 3:
        # a function nested in a method (decorator wrappers): Class.method.inner[.inner...] -> kind 'function' (free variables of the
        # enclosing scopes are bound by the contract's `closure`)
        nested = _nested_function(mod, mi, rest, qualname)
        if nested is not None:
            return nested
    if len(rest) in (2, 3):
        cq = ".".join([mod, *rest[:-1]])
        ci = load_class(cq)
        if ci is None:
            raise SourceError(f"class {cq} not found")
        rest = [rest[-2], rest[-1]]
        for node in ci.methods.get(mangle(ci.node.name, rest[1]), []):
            if is_overload(node):
                continue
            k = _kind_of(node, True)
            if setter != (k == "setter"):
                continue
            return FunctionInfo(qualname, mi, ci, node, k)
        raise SourceError(f"method {qualname} not found in {mi.path}")
    raise SourceError(f"cannot resolve {qualname}")


def _nested_function(mod, mi, rest, qualname):
    ci = load_class(f"{mod}.{rest[0]}")
    if ci is None:
        return None
    for node in ci.methods.get(mangle(ci.node.name, rest[1]), []):
        cur = node
        for name in rest[2:]:
            inner = [x for x in cur.body if isinstance(x, ast.FunctionDef) and x.name == name]
            if len(inner) != 1:
                cur = None
                break
            cur = inner[0]
        if cur is not None:
            return FunctionInfo(qualname, mi, None, cur, "function")
    return None
