"""C05 (HDF5Cache) plugin - everything is opt-in.

* Model code (``c05more_model_code`` on a contract): ``{"@entry" | "<ast.unparse of a statement>": fn(ex)}`` run right before the
  first statement / that statement of the function UNDER VERIFICATION.  It may only update *model fields* (fields the real code
  never reads or writes, here ``BaseFullCache._store``) and allocate in a symbolic heap (ghost allocation: existing addresses keep
  their content).  Used to maintain the abstract store of a file-based cache next to the file it is coupled with.
* ``del file[node]`` on the abstract cache file of ``HDF5FileSingleton`` (object kind "cfile" of plug_hdf): the node and all its
  entries are removed (h5py: KeyError when the node does not exist); ``node in file``: the node exists.  Needs the generic ``delitem``
  hook of models.py.
* ``genericpath.exists(path)`` inside ``_hdf5_file_singleton``: an uninterpreted predicate of the path, implied by nothing; the model
  field ``exists`` of the "cfile#x" schema variant says whether the file exists (a file that does not exist has no node).
* ``root.items()`` / ``file.get(node)`` / ``entry["hash"]`` / ``int(array(hash dataset)[0])`` for ``read_hashes`` (see contracts/c05_more.py).
"""
from __future__ import annotations

import z3

from . import contract as C
from .plug_hdf import CMOD, H5View, _dict, _kind, _raise, _str_term, hash_bytes, int_of_str, str_of_int
from .values import DictObj, PyObj, Ref, SV, SetObj, TBool, TInt, TOpt, TStr, TVal, ValS

hash_of_bytes = z3.Function("h5_hash_of_dataset", ValS, z3.IntSort())  # int(array(dataset)[0]) of a hash dataset


def _in_cmod(ex):
    return ex.frame.module.name == CMOD


class C05MoreModels:
    # ---- model code of the contract under verification
    def before_stmt(self, ex, node):
        fi = getattr(ex.frame, "finfo", None)
        if fi is None or fi is not ex.finfo or len(ex.st.frames) != 1:
            return NotImplemented
        code = getattr(ex.contract, "c05more_model_code", None)
        if not code:
            return NotImplemented
        import ast

        body = fi.node.body
        if body and node is body[0] and "@entry" in code:
            code["@entry"](ex)
        elif not isinstance(node, (ast.For, ast.While, ast.If, ast.With, ast.Try)):
            fn = code.get(ast.unparse(node))
            if fn is not None:
                fn(ex)
        return NotImplemented

    # ---- del file[node]
    def delitem(self, ex, cont, key, lineno):
        st = ex.st
        o = st.heap.get(cont.id) if isinstance(cont, Ref) else None
        if _kind(o) != "cfile" or not _in_cmod(ex):
            return NotImplemented
        if not st.decide(ex.truth(o.fields["node"])):
            raise _raise("KeyError", lineno)
        ex.assumed.add("h5py: `del file[node]` removes the node with all its entries (KeyError when it does not exist)")
        o.fields["node"] = False
        o.fields["nmem"] = SV(o.fields["nmem"].term - 1, TInt)
        for f in ("ents", "grps"):
            s = st.heap[o.fields[f].id]
            s.member, s.n = z3.K(TStr.sort(), z3.BoolVal(False)), z3.IntVal(0)
        h = st.heap[o.fields["hashes"].id]
        e = DictObj.empty(st, TStr, TVal)
        h.member, h.vals, h.n = e.member, e.vals, e.n
        return None

    # ---- read_hashes: exists(path), file.get(node), root.items(), entry["hash"], int(array(hash dataset)[0]), index arrays
    def _file_of_self(self, ex):
        st = ex.st
        me = ex.frame.env.get("self")
        o = st.heap.get(me.id) if isinstance(me, Ref) else None
        f = o.fields.get("_HDF5FileSingleton__file") if isinstance(o, PyObj) else None
        return st.heap.get(f.id) if isinstance(f, Ref) and _kind(st.heap.get(f.id)) == "cfile" else None

    def call_builtin(self, ex, name, args, kwargs, lineno, node=None):
        if not _in_cmod(ex):
            return NotImplemented
        st = ex.st
        short = name.rsplit(".", 1)[-1]
        if name == "genericpath.exists" and len(args) == 1:
            f = self._file_of_self(ex)
            if f is None:
                return NotImplemented
            ex.assumed.add("exists(hdf_file_path): a file that does not exist has no node (uninterpreted otherwise)")
            e = st.fresh_const("file_exists", z3.BoolSort())
            st.assume(z3.Implies(z3.Not(e), z3.Not(ex.truth(f.fields["node"]))))
            return SV(e, TBool)
        if short == "array" and name.startswith("numpy") and len(args) == 1 and not kwargs:
            a = args[0]
            o = st.heap.get(a.id) if isinstance(a, Ref) else None
            if isinstance(o, H5View) and o.kind == "chash":
                return st.alloc(H5View("chasharr", o.parent, o.name))
            if isinstance(o, PM_ListObj) and o.t == TInt and not o.is_empty_literal:
                c = o.clone()  # array([index]): an index array (a list of ints, as in plug_caches)
                c.origin = None
                return st.alloc(c)
        if name == "numpy.append" and len(args) == 2 and not kwargs:
            a, b = (st.heap.get(x.id) if isinstance(x, Ref) else None for x in args)
            if isinstance(a, PM_ListObj) and isinstance(b, PM_ListObj) and a.t == TInt and b.t == TInt and z3.is_int_value(z3.simplify(b.n)) and z3.simplify(b.n).as_long() == 1:
                from .values import TList

                c = PM_ListObj(TInt, a.n + 1, z3.Store(a.elems, a.n, b.elems[0]))
                c.ty = TList(TInt)
                return st.alloc(c)
        if name == "int" and len(args) == 1:
            a = args[0]
            o = st.heap.get(a.id) if isinstance(a, Ref) else None
            if isinstance(o, H5View) and o.kind == "chashval":
                fo = st.heap[o.parent.id]
                ex.assumed.add("int(array(entry['hash'])[0]) decodes the hash dataset: int(array([h], dtype='bytes')[0]) == h")
                return SV(hash_of_bytes(_dict(ex, fo.fields["hashes"]).vals[o.name]), TInt)
            if isinstance(a, SV) and a.ty == TStr:
                from .plug_hdf import str_is_int

                if not st.decide(str_is_int(a.term)):
                    raise _raise("ValueError", lineno)
                return SV(int_of_str(a.term), TInt)
        return NotImplemented

    def call_method(self, ex, recv, name, args, kwargs, lineno):
        if not _in_cmod(ex) or not isinstance(recv, Ref):
            return NotImplemented
        st = ex.st
        o = st.heap[recv.id]
        nm = name[3:] if name.startswith("h5:") else name
        if _kind(o) == "cfile" and nm == "get" and len(args) == 1:
            if st.decide(ex.truth(o.fields["node"])):
                return st.alloc(H5View("croot", recv, None))
            return None
        if isinstance(o, H5View) and o.kind == "croot" and nm == "items" and not args:
            from .engine import IterV

            fo = st.heap[o.parent.id]
            seq = ex.to_iter(fo.fields["ents"], lineno)  # an arbitrary enumeration of the entries (h5py: by name)
            keys = seq.keys
            it = IterV(seq.n, lambda i: (SV(keys[i], TStr), st.alloc(H5View("centry", o.parent, keys[i]))))
            it.keys, it.pos = seq.keys, seq.pos
            return it
        return NotImplemented

    def contains(self, ex, cont, item, lineno):
        # `hdf_node_path in file`: the node exists
        o = ex.st.heap.get(cont.id) if isinstance(cont, Ref) else None
        if _kind(o) == "cfile" and _in_cmod(ex):
            n = o.fields["node"]
            return n if isinstance(n, bool) else SV(ex.truth(n), TBool)
        return NotImplemented

    def getitem(self, ex, cont, key, lineno):
        if not _in_cmod(ex) or not isinstance(cont, Ref):
            return NotImplemented
        st = ex.st
        o = st.heap[cont.id]
        if isinstance(o, H5View) and o.kind == "centry" and key == "hash":
            fo = st.heap[o.parent.id]
            if not st.decide(_dict(ex, fo.fields["hashes"]).member[o.name]):
                raise _raise("KeyError", lineno)
            return st.alloc(H5View("chash", o.parent, o.name))
        if isinstance(o, H5View) and o.kind == "chasharr" and ex.num(key) is not None:
            k = z3.simplify(ex.num(key)[0])
            if z3.is_int_value(k) and k.as_long() == 0:
                return st.alloc(H5View("chashval", o.parent, o.name))
        return NotImplemented


from .values import ListObj as PM_ListObj  # noqa: E402


# ---- a CacheEntry as a value (element of the list a `get_all_entries` generator yields)
from .values import RecV as PM_RecV, TRec as PM_TRec  # noqa: E402


class TEntryRec(PM_TRec):
    """Record (inputs, outputs, jacobian) of embedded dictionaries; a ``CacheEntry`` instance (a concrete-shape record of
    dictionaries) is embedded field by field."""

    def embed(self, st, v):
        if isinstance(v, PM_RecV) and set(self.fields) <= set(v.vals):
            return self.dt.mk(*[self.fields[f].embed(st, v.vals[f]) for f in self.fields])
        return super().embed(st, v)


def _keep_open_model(self, ex, fi, args, kwargs, lineno):
    if fi.qualname == CMOD + ".HDF5FileSingleton.keep_open":
        from .values import BuiltinV

        ex.assumed.add("HDF5FileSingleton.keep_open: a context manager keeping the file handle open; no effect on the content of the file (protocol not verified)")
        return BuiltinV("nullcontext")
    return NotImplemented


C05MoreModels.call_repo_model = _keep_open_model


# ---- the file-handle protocol of keep_open (opt-in: `c05more_handle_protocol = True` on the contract under verification)
# ghosts hc_keep (HDF5FileSingleton.__keep_open) and hc_open (``__file is not None``).  ``keep_open`` is
#     self.__keep_open = True; yield; self.__keep_open = False; if self.__file is not None: self.__close()
# (__close: assert self.__file is not None); the function itself is verified against the contract KeepOpen.
# What a file operation does to the handle is the ASSUMED clause `assumed:file-handle` of the storage contracts (contracts/c05_more.py).
def _keep_open_model2(self, ex, fi, args, kwargs, lineno):
    if fi.qualname == CMOD + ".HDF5FileSingleton.keep_open":
        from .values import BuiltinV

        if getattr(ex.contract, "c05more_handle_protocol", False):
            return BuiltinV("c05more.keep_open")
        ex.assumed.add("HDF5FileSingleton.keep_open: a context manager keeping the file handle open; no effect on the content of the file (protocol not verified)")
        return BuiltinV("nullcontext")
    return NotImplemented


def _enter_context(self, ex, v, node):
    from .values import BuiltinV

    if isinstance(v, BuiltinV) and v.name == "c05more.keep_open":
        ex.st.ghost_set("hc_keep", z3.BoolVal(True))
        ex.st.ghost.setdefault("c05more_keep", []).append(node)
        return None
    return NotImplemented


def _exit_context(self, ex, node, exc):
    st = ex.st
    stack = st.ghost.get("c05more_keep")
    if not stack or stack[-1] is not node:
        return NotImplemented
    stack.pop()
    if exc is not None:
        return None  # (a generator-based context manager does not run the code after its yield when the body raised)
    # summary of the exit half of keep_open = the VERIFIED contract KeepOpen of contracts/c05_more.py (checked on the real source, with
    # __close's `assert self.__file is not None` as the precondition of __close): the flag is reset, an open handle is closed, and
    # leaving with no handle (no file operation inside) is fine
    st.ghost_set("hc_keep", z3.BoolVal(False))
    st.ghost_set("hc_open", z3.BoolVal(False))
    return None


C05MoreModels.call_repo_model = _keep_open_model2
C05MoreModels.enter_context = _enter_context
C05MoreModels.exit_context = _exit_context


# ---- dictionaries handed out by a cache MAY BE the stored ones (MemoryFullCache(is_memory_shared=False)._read_data and
# SimpleCache.__getitem__ return the stored dictionary itself): a result typed ``TStoredDict`` is registered when a callee contract
# creates it; any mutation of a registered dictionary sets the ghost ``fc_entry_written`` ("a dictionary returned by the cache was
# written to, i.e. the cached entry may have been modified").  ``d.copy()`` / ``dict(d)`` give an unregistered dictionary.
from .values import TDict as PM_TDict  # noqa: E402

ENTRY_WRITTEN = "fc_entry_written"
_MUTATORS = ("update", "clear", "pop", "popitem", "setdefault", "__setitem__", "__delitem__")


class TStoredDict(PM_TDict):
    def fresh(self, st, hint):
        r = super().fresh(st, hint)
        st.ghost.setdefault("c05_store_alias_ids", set()).add(r.id)
        return r


def _is_store_alias(ex, v):
    return isinstance(v, Ref) and v.id in ex.st.ghost.get("c05_store_alias_ids", ())


def _mark_written(ex):
    ex.st.ghost_set(ENTRY_WRITTEN, z3.BoolVal(True))


def _setitem(self, ex, cont, key, v, lineno):
    if _is_store_alias(ex, cont):
        _mark_written(ex)
    return NotImplemented


_prev_delitem = C05MoreModels.delitem
_prev_call_method = C05MoreModels.call_method


def _delitem(self, ex, cont, key, lineno):
    if _is_store_alias(ex, cont):
        _mark_written(ex)
    return _prev_delitem(self, ex, cont, key, lineno)


def _call_method(self, ex, recv, name, args, kwargs, lineno):
    if name in _MUTATORS and _is_store_alias(ex, recv):
        _mark_written(ex)
    return _prev_call_method(self, ex, recv, name, args, kwargs, lineno)


C05MoreModels.setitem = _setitem
C05MoreModels.delitem = _delitem
C05MoreModels.call_method = _call_method
