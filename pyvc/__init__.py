"""pyvc: contract-based deductive verifier for the Python subset used by gemseo (see DESIGN.md §2)."""
