"""C01 plugin (preprocessing of problem functions, normalisation of linear functions).

Hooks are gated on contracts that opt in with ``c01 = True`` or on the plugin's own heap objects / types, so that the
verification conditions of the other properties do not change.

Modelled (real Python / numpy / scipy semantics):

* scipy CSR matrices, abstractly: a heap object ``CsrObj`` with a symbolic shape and three *mutable heap arrays*
  ``data`` / ``indices`` / ``indptr`` (npmodel ``ArrObj``).  ``m.data`` / ``m.indices`` / ``m.indptr`` hand out the very arrays (aliases),
  ``m.tocsr()`` of a CSR matrix is the matrix itself (scipy: ``copy=False``), ``deepcopy(m)`` / ``m.copy()`` allocate a new matrix with fresh
  copies of the three arrays, ``m.shape`` / ``m.ndim`` / ``m.nnz``, ``isinstance(m, sparse classes)`` holds and ``isinstance(m, ndarray)`` does not,
  ``m @ x`` for a vector ``x`` is the vector ``csr_matvec(indptr, indices, data, x)`` - an *uninterpreted* function of the contents of the
  three arrays and of ``x`` (ValueError when the inner dimensions differ).  Frame facts for CSR objects (same three arrays, same shape).
* ``[x] * n`` for a one-element list of numbers (n copies), ``a.reshape(n)`` / ``a.reshape((n,))`` of a vector of length n, ``.real`` of a real
  scalar, ``isinstance(<numpy real scalar>, numbers.Number)``, ``setattr(obj, "<literal>", v)``, ``set(<StrEnum class>)`` (the set of the member values).
* owner-aware schema field types: ``SelfMethod(cls, name)`` (the field holds the bound method ``name`` of the very object) and ``SelfRef(cls)``.
* construction of objects of classes given in ``contract.c01_construct`` (class qualname -> schema key): allocation + the REAL ``__init__``;
  classes in ``contract.c01_records`` (class qualname -> record schema key) are *record models*: the constructor call only captures its
  arguments (positional ones under the parameter names of the real ``__init__``) in an object of the record schema - the constructor body
  is not executed (assumed, listed in the evidence).
"""
from __future__ import annotations

import z3

from . import contract as C
from . import source as S
from .npmodel import ArrObj, NumpyModel, _arr, _is_arr, arr_sort
from .values import (BoundMethod, BuiltinV, ClassV, HeapObj, ListObj, PyObj, Ref, SV, T, TInt, TObj, TReal, TStr, Unsupported)

_NP = NumpyModel()
REAL_ARR = z3.ArraySort(z3.IntSort(), z3.RealSort())
INT_ARR = z3.ArraySort(z3.IntSort(), z3.IntSort())
# (indptr, indices, data, x) -> A x   for the CSR matrix A with these three arrays (row sums: not interpreted)
csr_matvec = z3.Function("csr_matvec", INT_ARR, INT_ARR, REAL_ARR, REAL_ARR, REAL_ARR)

SPARSE_NAMES = ("spmatrix", "sparray", "csr_matrix", "csr_array")


def _on(ex):
    return getattr(ex.contract, "c01", False)


class CsrObj(HeapObj):
    """A scipy.sparse CSR matrix: shape (rows, columns) and references to its three heap arrays."""

    def __init__(self, shape, data: Ref, indices: Ref, indptr: Ref):
        self.shape, self.data, self.indices, self.indptr = tuple(shape), data, indices, indptr

    def clone(self):
        c = CsrObj(self.shape, self.data, self.indices, self.indptr)
        c.origin, c.ty = self.origin, self.ty
        return c


class _TCsr(T):
    name = "Csr"

    def sort(self):
        raise Unsupported("a CSR matrix cannot be stored in a symbolic container")

    def fresh(self, st, hint):
        def arr(kind, h):
            n = st.fresh_int(f"{hint}_{h}_n")
            st.assume(n >= 0)
            return st.alloc(ArrObj(kind, (n,), st.fresh_const(f"{hint}_{h}_el", arr_sort(kind, 1))))

        shape = (st.fresh_int(f"{hint}_rows"), st.fresh_int(f"{hint}_cols"))
        for s in shape:
            st.assume(s >= 0)
        o = CsrObj(shape, arr("f", "data"), arr("i", "indices"), arr("i", "indptr"))
        o.ty = self
        return st.alloc(o)


TCsr = _TCsr()


class SelfMethod(TObj):
    """Schema field holding the bound method ``name`` of the object itself (e.g. ``_func = self._func_to_wrap``).
    (A TObj subclass: a havoc of the owner keeps the field, as for every object reference.)"""

    def __init__(self, cls: str, method: str):
        self.cls, self.method, self.schema_key = cls, method, None
        self.name = f"SelfMethod[{cls}.{method}]"

    def fresh_in(self, st, hint, owner):
        return BoundMethod(owner, S.find_method(self.cls, self.method))

    def fresh(self, st, hint):
        raise Unsupported(f"{self.name} outside an object")


class SelfRef(TObj):
    """Schema field referring to the object itself (``self.original = self``)."""

    def __init__(self, cls: str):
        self.cls, self.schema_key = cls, None
        self.name = f"SelfRef[{cls}]"

    def fresh_in(self, st, hint, owner):
        return owner

    def fresh(self, st, hint):
        raise Unsupported(f"{self.name} outside an object")


def _is_csr(ex, v):
    return isinstance(v, Ref) and isinstance(ex.st.heap.get(v.id), CsrObj)


def _copy_arr(ex, ref):
    A = _arr(ex, ref)
    return _NP.new(ex, A.kind, A.shape, A.elems)


def str_enum_values(qualname: str):
    """Values of the members of a StrEnum class of the repository whose members are string literals (None otherwise)."""
    import ast

    ci = S.load_class(qualname)
    if ci is None or not any(b.rsplit(".", 1)[-1] == "StrEnum" for b in ci.bases):
        return None
    out = []
    for it in ci.node.body:
        if isinstance(it, ast.Assign) and len(it.targets) == 1 and isinstance(it.targets[0], ast.Name):
            if not (isinstance(it.value, ast.Constant) and isinstance(it.value.value, str)):
                return None
            out.append(it.value.value)
    return out


class C01Models:
    # ------------------------------------------------------------------ CSR matrices
    def isinstance_(self, ex, v, cls):
        classes = cls if isinstance(cls, tuple) else (cls,)
        names = [c.name if isinstance(c, BuiltinV) else getattr(c, "qualname", "?") for c in classes]
        shorts = [n.rsplit(".", 1)[-1] for n in names]
        if _is_csr(ex, v):
            return any(s in SPARSE_NAMES for s in shorts)
        if _on(ex) and isinstance(v, SV) and v.ty == TReal and "Number" in shorts:
            return True  # numpy.float64 (an element of a real array) is registered as a numbers.Number
        if _on(ex) and _is_arr(ex, v):
            return "ndarray" in shorts  # (a precise array is no sparse matrix and no Number)
        return NotImplemented

    def ref_attr(self, ex, obj, o, attr, lineno):
        if not isinstance(o, CsrObj):
            return NotImplemented
        if attr in ("data", "indices", "indptr"):
            return getattr(o, attr)
        if attr == "shape":
            return tuple(SV(s, TInt) for s in o.shape)
        if attr == "ndim":
            return 2
        if attr == "nnz":
            return SV(_arr(ex, o.data).shape[0], TInt)
        return BoundMethod(obj, None, f"csr.{attr}")

    def set_attr(self, ex, obj, attr, v, lineno):
        if not _is_csr(ex, obj):
            return NotImplemented
        o = ex.st.heap[obj.id]
        if attr in ("data", "indices", "indptr") and _is_arr(ex, v):
            setattr(o, attr, v)
            return True
        raise Unsupported(f"attribute store {attr} on a CSR matrix")

    def call_method(self, ex, recv, name, args, kwargs, lineno):
        if isinstance(name, str) and name.startswith("csr.") and _is_csr(ex, recv):
            o = ex.st.heap[recv.id]
            if name == "csr.tocsr":
                copy = kwargs.get("copy", args[0] if args else False)
                if copy is False:
                    return recv  # scipy: a CSR matrix converted to CSR without copy is the object itself
                if copy is True:
                    return self._copy_csr(ex, o)
            if name == "csr.copy" and not args and not kwargs:
                return self._copy_csr(ex, o)
            raise Unsupported(f"method {name[4:]} of a CSR matrix")
        if _on(ex) and name == "np.reshape" and _is_arr(ex, recv) and not kwargs:
            A = _arr(ex, recv)
            shp = args[0] if len(args) == 1 else tuple(args)
            if isinstance(shp, tuple) and len(shp) == 1:
                shp = shp[0]
            n = ex.num(shp) if not isinstance(shp, tuple) else None
            if A.rank == 1 and n is not None and n[1] == TInt:
                from .engine import PyRaise

                if not _NP.same(ex, n[0], A.shape[0], lineno):
                    raise PyRaise("ValueError", lineno)
                ex.assumed.add("ndarray.reshape(n) of a vector of length n: a vector with the same elements (numpy returns a view; it is not written to in the verified code)")
                return _NP.new(ex, A.kind, A.shape, A.elems)
        return NotImplemented

    def _copy_csr(self, ex, o):
        c = CsrObj(o.shape, _copy_arr(ex, o.data), _copy_arr(ex, o.indices), _copy_arr(ex, o.indptr))
        c.ty = o.ty
        return ex.st.alloc(c)

    def deep_copy(self, ex, v, lineno):
        if _is_csr(ex, v):
            return self._copy_csr(ex, ex.st.heap[v.id])
        return NotImplemented

    def shallow_copy(self, ex, v, lineno):
        if _is_csr(ex, v):
            return self._copy_csr(ex, ex.st.heap[v.id])  # scipy: copy.copy(m) = m.copy() (copies the arrays)
        return NotImplemented

    def binop(self, ex, op, a, b, lineno, inplace=False):
        st = ex.st
        if op == "MatMult" and _is_csr(ex, a) and _is_arr(ex, b):
            from .engine import PyRaise

            M, X = st.heap[a.id], _arr(ex, b)
            if X.rank != 1 or X.kind == "b":
                raise Unsupported("CSR matrix times a non-vector")
            if not _NP.same(ex, M.shape[1], X.shape[0], lineno):
                raise PyRaise("ValueError", lineno)
            xe = X.elems if X.kind == "f" else _NP.lam(1, lambda i: z3.ToReal(X.elems[i]))
            ex.assumed.add("scipy CSR matrix-vector product: csr_matvec, an uninterpreted function of the contents of indptr / indices / data and of the vector")
            return _NP.new(ex, "f", (M.shape[0],), csr_matvec(_arr(ex, M.indptr).elems, _arr(ex, M.indices).elems, _arr(ex, M.data).elems, xe))
        if _on(ex) and op == "Mult" and isinstance(a, Ref) and isinstance(st.heap.get(a.id), ListObj):
            L = st.heap[a.id]
            n = ex.num(b)
            sn = z3.simplify(L.n)
            if n is not None and n[1] == TInt and z3.is_int_value(sn) and sn.as_long() == 1 and not L.is_empty_literal:
                cnt = z3.If(n[0] > 0, n[0], z3.IntVal(0))
                return st.alloc(ListObj(L.t, z3.simplify(cnt), z3.K(z3.IntSort(), z3.simplify(L.elems[0]))))
        return NotImplemented

    def frame_facts(self, ex, o, n):
        if isinstance(o, CsrObj) and isinstance(n, CsrObj):
            out = []
            for a in ("data", "indices", "indptr"):
                if getattr(o, a).id != getattr(n, a).id:
                    out.append((f"csr.{a}(rebound)", z3.BoolVal(False)))
            if not all(x.eq(y) for x, y in zip(o.shape, n.shape)):
                out.append(("csr.shape", z3.And(*[x == y for x, y in zip(o.shape, n.shape)])))
            return out
        return NotImplemented

    def truth(self, ex, v):
        return NotImplemented

    # ------------------------------------------------------------------ small Python / numpy features
    def value_attr(self, ex, obj, attr, lineno):
        if _on(ex) and attr == "real" and isinstance(obj, SV) and obj.ty in (TReal, TInt):
            return obj
        return NotImplemented

    def call_builtin(self, ex, name, args, kwargs, lineno, node=None):
        if not _on(ex):
            return NotImplemented
        if name == "setattr" and len(args) == 3 and isinstance(args[1], str):
            ex.set_attr(args[0], args[1], args[2], lineno)
            return None
        if name in ("set", "frozenset") and len(args) == 1 and isinstance(args[0], ClassV):
            vals = str_enum_values(args[0].qualname)
            if vals:
                return ex.models.make_set(ex, list(vals))
        return NotImplemented

    # ------------------------------------------------------------------ constructors
    def construct(self, ex, cv, args, kwargs, lineno):
        if not _on(ex):
            return NotImplemented
        st = ex.st
        recs = getattr(ex.contract, "c01_records", {})
        if cv.qualname in recs:
            key = recs[cv.qualname]
            sch = C.class_schema(key)
            init = S.find_method(cv.qualname, "__init__")
            o = PyObj(cv.qualname, {})
            o.schema_key = key
            ref = st.alloc(o)
            ia = init.node.args
            named = {x.arg for x in ia.posonlyargs + ia.args + ia.kwonlyargs}
            kwname = ia.kwarg.arg if ia.kwarg is not None else None
            extra = {k: v for k, v in kwargs.items() if k not in named}
            if extra and kwname is None:
                from .engine import PyRaise

                raise PyRaise("TypeError", lineno)
            bound, missing, defaults = ex.bind_params(init, [ref, *args], {k: v for k, v in kwargs.items() if k in named}, lineno)
            vals = {k: v for k, v in bound.items() if k != ia.args[0].arg and k != kwname}
            for k, v in extra.items():
                vals[f"{kwname}.{k}"] = v  # (the key "**" stands for a forwarded mapping)
            for p in missing:
                if p not in defaults:
                    from .engine import PyRaise

                    raise PyRaise("TypeError", lineno)
                vals[p] = ex.eval_in_module(init.module, defaults[p])
            for k, v in vals.items():
                if k not in sch:
                    raise Unsupported(f"record model of {cv.qualname}: argument {k} is not declared in schema {key}")
                o.fields[k] = v  # captured as it is (object reference, bound method, tuple of callables, scalar term...)
            for k in sch:
                o.fields.setdefault(k, None)
            ex.assumed.add(f"record model of {cv.qualname}(...): the constructor call captures its arguments; the constructor body is not executed")
            return ref
        cons = getattr(ex.contract, "c01_construct", {})
        if cv.qualname in cons:
            init = S.find_method(cv.qualname, "__init__")
            o = PyObj(cv.qualname, {})
            o.schema_key = cons[cv.qualname]
            ref = st.alloc(o)
            o.fresh_created = True
            ex.call_repo(init, [ref, *args], kwargs, lineno)
            return ref
        return NotImplemented
