"""C17 plugin: the few Python/numpy features the formulation index bookkeeping needs beyond npmodel.py.

Everything here models real Python/numpy semantics; the hooks only fire for contracts that opt in with
``np_c17 = True`` (so that no other property's verification conditions change).

* ``sum(<generator over a symbolic sequence of ints>)``: the prefix-sum ghost function ``psum_i`` of npmodel.vsum applied to the
  sequence of the generated terms (``Lambda i. term(i)``) - same recursive axioms.
* ``numpy.empty(n, dtype=...)``: an array of that kind with unspecified content;  ``numpy.arange(a, b)``;  ``numpy.copy(a)``.
* ``key in d`` for ``key = d.keys[x]`` of the same ordered dict: the order axiom of the dict is instantiated at ``x`` (a quantifier-free
  fact for the feasibility solver, so that the test does not fork inside a comprehension).
* ``d[key]`` inside a comprehension element (no forking possible there): when the membership is not decided by the quantifier-free
  facts, the obligation ``comprehension-key-present`` is generated instead (a KeyError inside the comprehension is then a failed obligation).
"""
from __future__ import annotations

import z3

from .npmodel import ArrObj, NumpyModel, _arr, _is_arr, arr_sort
from .values import DictObj, Ref, SV, TInt, TReal, Unsupported

_np = NumpyModel()
psum_i = z3.Function("psum_i", z3.ArraySort(z3.IntSort(), z3.IntSort()), z3.IntSort(), z3.IntSort())


def psum_axioms():
    a = z3.Const("a!ps", z3.ArraySort(z3.IntSort(), z3.IntSort()))
    k = z3.Int("k!ps")
    return [z3.ForAll([a], psum_i(a, 0) == 0),
            z3.ForAll([a, k], z3.Implies(k >= 0, psum_i(a, k + 1) == psum_i(a, k) + a[k]), patterns=[psum_i(a, k + 1)])]


def _on(ex):
    return getattr(ex.contract, "np_c17", False)


class NpC17Models:
    def call_builtin(self, ex, name, args, kwargs, lineno, node=None):
        if not _on(ex):
            return NotImplemented
        from .engine import IterV, PyRaise

        st = ex.st
        if name == "sum" and len(args) == 1 and not kwargs and isinstance(args[0], IterV) and args[0].concrete is None:
            seq = args[0]
            bi = st.fresh_int("si")
            e = seq.elem(bi)
            n = ex.num(e)
            if n is None or n[1] != TInt:
                return NotImplemented
            i = z3.Int("i!sum")
            # the summed sequence as an array constant defined point-wise on [0, n) (no lambda term: E-matching friendly)
            arr = st.fresh_const("summand", z3.ArraySort(z3.IntSort(), z3.IntSort()))
            st.assume(z3.ForAll([i], z3.Implies(z3.And(0 <= i, i < seq.n), arr[i] == z3.substitute(n[0], (bi, i))), patterns=[arr[i]]))
            for f in psum_axioms():
                st.assume(f)
            ex.assumed.add("builtin sum over a symbolic sequence of ints: prefix-sum ghost function psum_i with its recursive definition")
            return SV(psum_i(arr, seq.n), TInt)
        if name == "numpy.empty" and len(args) == 1 and kwargs.get("dtype") is not None:
            k = _np._kind_of_dtype(ex, kwargs["dtype"])
            shp = args[0]
            dims = shp if isinstance(shp, tuple) else (shp,)
            terms = [ex.num(d)[0] for d in dims]
            if len(terms) > 2:
                raise Unsupported("rank > 2")
            for t in terms:
                if not st.decide(t >= 0):
                    raise PyRaise("ValueError", lineno)
            return _np.new(ex, k, terms, st.fresh_const("empty", arr_sort(k, len(terms))))
        if name == "numpy.arange" and len(args) == 2 and not kwargs and all(ex.num(a) is not None and ex.num(a)[1] == TInt for a in args):
            a, b = ex.num(args[0])[0], ex.num(args[1])[0]
            return _np.new(ex, "i", (z3.If(b > a, b - a, 0),), _np.lam(1, lambda i: a + i))
        if name == "numpy.copy" and len(args) == 1 and not kwargs and _is_arr(ex, args[0]):
            A = _arr(ex, args[0])
            return _np.new(ex, A.kind, A.shape, A.elems)
        return NotImplemented

    def contains(self, ex, cont, item, lineno):
        if not _on(ex):
            return NotImplemented
        st = ex.st
        if isinstance(cont, Ref) and isinstance(st.heap[cont.id], DictObj) and isinstance(item, SV):
            o = st.heap[cont.id]
            t = item.term
            if o.keys is not None and z3.is_app(t) and t.decl().kind() == z3.Z3_OP_SELECT and t.arg(0).eq(o.keys):
                x = t.arg(1)
                # instance of the dict's order axiom (values.DictObj.order_facts) at position x
                st.assume(z3.Implies(z3.And(0 <= x, x < o.n), z3.And(o.member[t], o.pos[t] == x)))
        return NotImplemented

    def getitem(self, ex, cont, key, lineno):
        if not (_on(ex) and ex.no_fork):
            return NotImplemented
        st = ex.st
        if isinstance(cont, Ref) and isinstance(st.heap[cont.id], DictObj) and not st.heap[cont.id].is_empty_literal:
            o = st.heap[cont.id]
            kt = o.k.embed(st, key)
            m = z3.simplify(o.member[kt])
            if not z3.is_true(m) and st.solver.check(z3.Not(m)) != z3.unsat:
                ex.check(m, "safety", "comprehension-key-present", lineno, aux=True)
            return o.v.project(st, o.vals[kt], (cont, kt, "dict"))
        return NotImplemented

    def havoc_obj(self, ex, ref, o, hint):
        """A numpy array listed in the ``modifies`` of a loop (or of a callee): same shape, arbitrary content."""
        if isinstance(o, ArrObj):
            o.elems = ex.st.fresh_const(hint.replace(".", "_") + "_el", arr_sort(o.kind, o.rank))
            o.src = None
            ex.writeback(o)
            return True
        return NotImplemented
