"""Verify all contracts of a property: extraction, VC generation, discharge, summary."""
from __future__ import annotations

import importlib
import os
import signal
import threading
import time
import traceback

from . import contract as C
from . import source as S
from .engine import Executor
from .gmodels import GemseoModels
from .models import Models
from .solve import discharge
from .state import Undecided
from .values import Unsupported


def make_models():
    m = Models()
    m.plugins.append(GemseoModels())
    from .plug_graph import GraphModels

    m.plugins.append(GraphModels())
    from .plug_mdachain import MdaChainModels  # C08/C09 MDAChain: abstract process constructors, iterators, abstract linearisation (gated on `mdachain = True` contracts)

    m.plugins.insert(0, MdaChainModels())
    from .plug_parallel import ParallelModels  # C13: queues, threads/processes (hooks only fire on its own types/names)

    m.plugins.insert(0, ParallelModels())
    from .plug_serial import SerialModels  # C20: __dict__ fields, Synchronized values (hooks gated on its own sort / on a `__dict__` schema field)

    m.plugins.insert(0, SerialModels())
    try:
        from .npmodel import NumpyModel

        m.plugins.insert(0, NumpyModel())
        from .plug_np_c10 import NpC10Models  # C10: more numpy functions on precise arrays, in-place `a op= b` on array names (gated on ArrObj operands)

        m.plugins.insert(0, NpC10Models())
    except ImportError:
        pass
    from .plug_caches import CacheModels  # C05: full caches (hooks gated on the cache modules / declared proxy fields)

    m.plugins.insert(0, CacheModels())
    from .plug_grammars import GrammarModels  # C15: collections.abc mixins of the grammar classes, type objects as opaque values

    m.plugins.insert(0, GrammarModels())
    from .plug_np_c17 import NpC17Models  # C17: sum over symbolic sequences, empty(dtype)/arange(a,b)/copy (hooks gated on `np_c17 = True` contracts)

    m.plugins.insert(0, NpC17Models())
    from .plug_np_c07 import C07Models  # C07: matrix values (dense/sparse), assumed scipy block contracts, abstract matrix ring (gated on `c07` contracts / own types)

    m.plugins.insert(0, C07Models())
    from .plug_np_c07 import C07RingModels  # C07 algebra: uninterpreted matrix ring (gated on `c07 = "ring"` contracts / its own heap objects)

    m.plugins.insert(0, C07RingModels())
    from .plug_np_c07 import C07CacheModels  # C07 cache of minimal couplings (gated on `c07 = "cache"` contracts)

    m.plugins.insert(0, C07CacheModels())
    from .plug_hdf import HdfModels  # C11: abstract h5py node (hooks gated on its own h5py.Group objects / on module gemseo.algos._hdf_database)

    m.plugins.insert(0, HdfModels())
    from .plug_hdf import HdfCacheModels  # C05/C11: cache-file entry groups, dataset attributes, abstract scipy sparse arrays (gated on its own objects / module _hdf5_file_singleton)

    m.plugins.insert(0, HdfCacheModels())
    from .plug_hdf import HdfDesignSpaceModels  # C11: the design-space group of an HDF node (gated on `c11_hdf = True` contracts in gemseo.algos.design_space / own objects)

    m.plugins.insert(0, HdfDesignSpaceModels())
    from .plug_hdf import HdfCacheFileModels  # C05/C11: the whole cache file behind HDF5FileSingleton.__file (gated on its own objects / module _hdf5_file_singleton)

    m.plugins.insert(0, HdfCacheFileModels())
    from .plug_c05more import C05MoreModels  # C05: HDF5Cache (model code gated on `c05more_model_code` contracts; del/exists/read_hashes on the abstract cache file, module _hdf5_file_singleton)

    m.plugins.insert(0, C05MoreModels())
    from .plug_c01 import C01Models  # C01: abstract CSR matrices, record-model constructors, small Python features (gated on `c01 = True` contracts / own heap objects)

    m.plugins.insert(0, C01Models())
    from .plug_c16 import C16Models  # C16/C13: parallel gradient ([f] * n, [x, *xs], execute summary), selection unions (gated on `c16 = True` contracts / own values)

    m.plugins.insert(0, C16Models())
    from .plug_json import JsonModels  # C15/C20: JSON grammar caches, abstract schema builder, pickled state of JSONGrammar / HDF5Cache (gated on own types / classes)

    m.plugins.insert(0, JsonModels())
    from .plug_pydantic import PydanticModels  # C15: abstract pydantic model of PydanticGrammar (gated on its module / its own model objects)

    m.plugins.insert(0, PydanticModels())
    from .plug_c09 import C09Models  # C09: chains (optional tuples, CouplingStructure constructor model, discipline.jac ghost dictionary, sums of blocks; gated on `c09_chains = True`)

    m.plugins.insert(0, C09Models())
    from .plug_c14 import C14Models  # C14: kwargs with a known key set, hstack of lists, linspace/newaxis/where(mask), str(int) (gated on `c14 = True` contracts / own heap objects)

    m.plugins.insert(0, C14Models())
    from .plug_c03 import C03Models  # C03: driver execute (bound methods as values, list.remove, exception-typed parameters, assumed **settings summaries; gated on `c03 = True`)

    m.plugins.insert(0, C03Models())
    from .plug_c18 import C18Models  # C18: diag / x @ diag / tile / column statistics / list reversal (hooks gated on `c18 = True` contracts)

    m.plugins.insert(0, C18Models())
    from .plug_c17b import C17bModels  # C17: MDO functions as values, unions of discipline input names (gated on `c17b = True` contracts / own value types)

    m.plugins.insert(0, C17bModels())
    from .plug_c17b import C17bInitModels  # C17: models of BaseFormulation.__init__ / CouplingStructure(...) (gated on `c17b_init = True` contracts)

    m.plugins.insert(0, C17bInitModels())
    from .plug_c17b import C17bCaptureModels  # C17: captured constructor calls (gated on `c17b_capture` of the verified contract / its own raw field type)

    m.plugins.insert(0, C17bCaptureModels())
    from .plug_c17b import C17bNumpyModels  # C17: 2-D slice store a[r0:r1, c0:c1] = M (gated on `c17b_np = True` contracts)

    m.plugins.insert(0, C17bNumpyModels())
    from .plug_c17b import C17bOpaqueValueModels  # C17: Class(list) as an opaque value (gated on `c17b_opaque_values` of the verified contract / own field type)

    m.plugins.insert(0, C17bOpaqueValueModels())
    from .plug_c04r import C04ResultModels  # C04: result dataclasses, islice/next, single-expression nested functions, any(axis=1) (gated on `c04r = True` contracts)

    m.plugins.insert(0, C04ResultModels())
    from .plug_c04r import C04NumpyModels  # C04: numpy.any(axis=1), arrays havoc'ed by a loop (gated on `c04r = True` contracts)

    m.plugins.insert(0, C04NumpyModels())
    from .plug_c04r import C04SubscriptModels  # C04: array subscripts with in-context normalisation of indices (gated on `c04r = True` contracts)

    m.plugins.insert(0, C04SubscriptModels())
    from .plug_c02 import C02Models  # C02 link level: sequences of vectors built by comprehensions, concatenate of them, cited offset lemmas (gated on `c02_lnk = True` contracts)

    m.plugins.insert(0, C02Models())
    from .plug_dsfiles import DsFileModels  # C11: design-space files (abstract text table of genfromtxt / PrettyTable; gated on `c11_files = True` contracts / own heap objects)

    m.plugins.insert(0, DsFileModels())
    from .plug_c13d import C13dModels  # C13 consequences: opaque disciplines behind the parallel wrappers, parallel DOE store callback (gated on `c13d = True` contracts / own values)

    m.plugins.insert(0, C13dModels())
    from .plug_c20b import C20bModels  # C20 per-class state protocol: locks, None/{}/[] attribute values, truth/equality of attribute values (gated on `c20b = True` contracts)

    m.plugins.insert(0, C20bModels())
    from .plug_c09n import C09NumModels  # C09 numerical chain rule: Jacobian blocks as array references denoting ring matrices, sorted intersections (gated on `c09_numeric = True` contracts)

    m.plugins.insert(0, C09NumModels())
    from .plug_c05lin import C05LinModels  # C05 linearize protocol: nested <-> flat Jacobian dictionaries at the cache interface, ExecutionStatus.handle (gated on `c05lin = True` contracts)

    m.plugins.insert(0, C05LinModels())
    from .plug_c19 import C19Models  # C19: abstract third-party distributions (own record types), column_stack, parameter-space glue (gated on `c19 = True` contracts)

    m.plugins.insert(0, C19Models())
    from .plug_c06 import C06Models  # C06 partial correctness of MDA solvers: ResidualScaling members, numpy scalars, converters, opaque discipline execution (gated on `c06 = True` contracts / own types)

    m.plugins.insert(0, C06Models())
    from .plug_c12 import C12Models  # backup clauses of C12 under C11/C03/C01: open-handle ghost, Path exists/unlink, description block of OptimizationProblem.to_hdf (gated on `c12 = True` contracts)

    m.plugins.insert(0, C12Models())
    return m


class FunctionReport:
    def __init__(self, target, contract):
        self.target, self.contract = target, contract
        self.finfo = None
        self.obligations = []
        self.status = "ok"  # ok | undecided | error | trusted
        self.reason = ""
        self.inlined, self.callee_contracts, self.assumed = set(), set(), set()
        self.paths = 0
        self.gen_seconds = 0.0


def generate(prop: str, only=None):
    reports = []
    for key, ct in sorted(C.all_contracts().items()):
        if prop not in ct.prop:
            continue
        variant = key.split("@")[1] if "@" in key else None
        target = key.split("@")[0].split("#")[0]
        if only and not any(o in target for o in only):
            continue
        rep = FunctionReport(target, ct)
        reports.append(rep)
        if getattr(ct, "trusted", False):
            rep.status = "trusted"
            rep.reason = ct.description
            continue
        if getattr(ct, "lemma", False):
            from .state import Obligation

            for label, f in ct.lemmas():
                rep.obligations.append(Obligation(f"{prop}/{target}/lemma:{label}", "lemma", target, 0, [], f, label, prop=prop))
            rep.paths = 1
            continue
        t0 = time.time()
        # wall-clock limit of the symbolic execution of ONE function (a change of the source can make the number of paths
        # explode): past it the function is undecided, never silently skipped and never a violation
        limit = int(os.environ.get("PYVC_GEN_LIMIT", "900"))
        use_alarm = limit > 0 and threading.current_thread() is threading.main_thread()
        if use_alarm:
            def _too_long(signum, frame, _t=target, _l=limit):
                raise Undecided(f"symbolic execution of {_t} exceeded the wall-clock limit of {_l} s (path explosion)")

            old_handler = signal.signal(signal.SIGALRM, _too_long)
            signal.alarm(limit)
        try:
            rep.finfo = S.load_function(target, setter=ct.setter)
            ex = Executor(ct, rep.finfo, prop, make_models())
            if variant:
                ex.short += f"@{variant}"
                rep.target = f"{target}@{variant}"
            rep.obligations = ex.run()
            rep.inlined, rep.callee_contracts, rep.assumed, rep.paths = ex.inlined, ex.callee_contracts, ex.assumed, ex.n_paths
        except (Unsupported, Undecided, S.SourceError) as e:
            rep.status, rep.reason = "undecided", f"{type(e).__name__}: {e}"
        except Exception:  # noqa: BLE001
            rep.status, rep.reason = "error", traceback.format_exc()
        finally:
            if use_alarm:
                signal.alarm(0)
                signal.signal(signal.SIGALRM, old_handler)
        rep.gen_seconds = time.time() - t0
    return reports


def verify(prop: str, modules: list[str], timeout_ms=10000, only=None, verbose=True):
    for m in modules:
        importlib.import_module(m)
    reports = generate(prop, only)
    obs = [o for r in reports for o in r.obligations]
    discharge(obs, timeout_ms)
    if verbose:
        for r in reports:
            n = len([o for o in r.obligations if o.kind != "canary"])
            ok = len([o for o in r.obligations if o.kind != "canary" and o.result == "unsat"])
            print(f"[{r.status}] {r.target}: {ok}/{n} discharged, paths={r.paths}, gen={r.gen_seconds:.1f}s {r.reason[:2000] if r.status != 'ok' else ''}")
            for o in r.obligations:
                if (o.kind == "canary") != (o.result != "unsat"):
                    print(f"     {o.result:8s} {o.name}  ({o.seconds:.2f}s {o.backend})")
    return reports
