"""C20 plugin: instance dictionaries and multiprocessing ``Synchronized`` values for gemseo.core.serializable.

* ``self.__dict__`` is a ``TDict(TStr, TAttr)`` field named ``__dict__`` of the class schema; for such classes an attribute
  store ``self.x = v`` on an attribute that is not a declared field is a store into that dictionary (CPython semantics for
  classes without slots/descriptors - assumption).
* attribute values are opaque (own sort ``AttrVal``) with three recognisable kinds: ``Synchronized`` (``is_sync``; a *reference*
  ``sync_addr`` into the ghost heap ``sync`` holding the shared value), ``pathlib.Path`` (``is_path``) and
  ``pathlib.PurePath`` (``is_purepath``).  ``multiprocessing.Value(..)`` allocates a fresh shared cell.
* ``_ATTR_NOT_TO_SERIALIZE`` read on ``Serializable`` itself is an arbitrary set of names (universally quantified): the
  base-class proofs hold for every subclass declaration.
"""
from __future__ import annotations

import z3

from . import contract as C
from .values import (BoundMethod, PyObj, Ref, SetObj, SV, T, TBool, TDict, TInt, TSet, TStr, Unsupported, declare_ghost)

AttrS = z3.DeclareSort("AttrVal")


class _TAttr(T):
    name = "AttrVal"

    def sort(self):
        return AttrS

    def embed(self, st, v):
        if isinstance(v, SV) and v.ty == self:
            return v.term
        if isinstance(v, bool):
            return attr_of_int(z3.IntVal(int(v)))
        if isinstance(v, int):
            return attr_of_int(z3.IntVal(v))
        if isinstance(v, float):
            return attr_of_real(z3.RealVal(repr(v)))
        if isinstance(v, SV) and v.ty == TInt:
            return attr_of_int(v.term)
        if isinstance(v, Ref) and isinstance(st.heap[v.id], SetObj) and st.heap[v.id].is_empty_literal:
            return attr_empty_set
        raise Unsupported(f"cannot embed {v!r} as an attribute value")


TAttr = _TAttr()
DICT = TDict(TStr, TAttr)
attr_of_int = z3.Function("attr_of_int", z3.IntSort(), AttrS)
attr_of_real = z3.Function("attr_of_real", z3.RealSort(), AttrS)
attr_empty_set = z3.Const("attr_empty_set", AttrS)
is_sync = z3.Function("is_sync", AttrS, z3.BoolSort())  # isinstance(v, Synchronized)
is_path = z3.Function("is_path", AttrS, z3.BoolSort())  # isinstance(v, pathlib.Path)
is_purepath = z3.Function("is_purepath", AttrS, z3.BoolSort())  # isinstance(v, pathlib.PurePath)
sync_addr = z3.Function("sync_addr", AttrS, z3.IntSort())  # identity of the shared cell of a Synchronized
os_specific = z3.Function("to_os_specific", AttrS, AttrS)
to_path = z3.Function("to_path", AttrS, AttrS)  # pathlib.Path(pure_path)

SyncHeap = z3.ArraySort(z3.IntSort(), AttrS)
declare_ghost("sync", SyncHeap)
declare_ghost("sync_ctr", z3.IntSort())

# _ATTR_NOT_TO_SERIALIZE of an arbitrary subclass
X_MEMBER = z3.Const("c20_not_to_serialize", z3.ArraySort(TStr.sort(), z3.BoolSort()))
X_N = z3.Int("c20_not_to_serialize_n")

SER = "gemseo.core.serializable.Serializable"


def kind_axioms():
    """Class hierarchy facts: Path is a PurePath; a Synchronized wrapper is not a path; simple values are none of them."""
    v = z3.Const("v!ka", AttrS)
    i = z3.Int("i!ka")
    return [
        z3.ForAll([v], z3.Implies(is_path(v), is_purepath(v)), patterns=[is_path(v)]),
        z3.ForAll([v], z3.Implies(is_sync(v), z3.Not(is_purepath(v))), patterns=[is_sync(v)]),
        z3.ForAll([v], is_purepath(os_specific(v)), patterns=[os_specific(v)]),
        z3.ForAll([v], z3.And(is_path(to_path(v)), z3.Not(is_sync(to_path(v)))), patterns=[to_path(v)]),
        z3.ForAll([i], z3.And(z3.Not(is_sync(attr_of_int(i))), z3.Not(is_purepath(attr_of_int(i)))), patterns=[attr_of_int(i)]),
        z3.And(z3.Not(is_sync(attr_empty_set)), z3.Not(is_purepath(attr_empty_set))),
    ]


def _has_dict(ex, obj):
    if isinstance(obj, Ref):
        o = ex.st.heap.get(obj.id)
        if isinstance(o, PyObj) and "__dict__" in o.fields:
            return o
    return None


class SerialModels:
    def class_constant(self, ex, ci, name):
        if name == "_ATTR_NOT_TO_SERIALIZE" and ci.qualname == SER:
            st = ex.st
            o = SetObj(TStr, X_MEMBER, X_N)
            o.ty = TSet(TStr)
            for f in o.wf_facts(st):
                st.assume(f)
            return st.alloc(o)
        return NotImplemented

    def pyobj_attr(self, ex, ref, o, attr, lineno):
        """``self.x`` for an attribute that lives in the modelled instance dictionary."""
        from .engine import PyRaise

        if "__dict__" in o.fields and isinstance(o.fields["__dict__"], Ref):
            st = ex.st
            d = st.heap[o.fields["__dict__"].id]
            kt = TStr.embed(st, attr)
            if not st.decide(d.member[kt]):
                raise PyRaise("AttributeError", lineno)
            return SV(d.vals[kt], TAttr)
        return NotImplemented

    def isinstance_(self, ex, v, cls):
        if isinstance(v, SV) and v.ty == TAttr:
            name = getattr(cls, "name", getattr(cls, "qualname", ""))
            short = name.rsplit(".", 1)[-1]
            if short == "Synchronized":
                return SV(is_sync(v.term), TBool)
            if short == "Path":
                return SV(is_path(v.term), TBool)
            if short == "PurePath":
                return SV(is_purepath(v.term), TBool)
            raise Unsupported(f"isinstance of an attribute value against {cls!r}")
        return NotImplemented

    def value_attr(self, ex, obj, attr, lineno):
        from .engine import PyRaise

        if isinstance(obj, SV) and obj.ty == TAttr:
            if attr == "value":
                st = ex.st
                if not st.decide(is_sync(obj.term)):
                    raise PyRaise("AttributeError", lineno)
                return SV(st.ghost_get("sync", SyncHeap)[sync_addr(obj.term)], TAttr)
            raise Unsupported(f"attribute {attr} of an opaque attribute value")
        return NotImplemented

    def set_attr(self, ex, obj, attr, v, lineno):
        from .engine import PyRaise

        st = ex.st
        if isinstance(obj, SV) and obj.ty == TAttr and attr == "value":
            if not st.decide(is_sync(obj.term)):
                raise PyRaise("AttributeError", lineno)
            st.ghost_set("sync", z3.Store(st.ghost_get("sync", SyncHeap), sync_addr(obj.term), TAttr.embed(st, v)))
            return None
        o = _has_dict(ex, obj)
        if o is not None and attr not in C.class_schema(getattr(o, "schema_key", None) or o.cls):
            d = st.heap[o.fields["__dict__"].id]
            d.set(st, TStr.embed(st, attr), TAttr.embed(st, v))
            return None
        return NotImplemented

    def call_builtin(self, ex, name, args, kwargs, lineno, node=None):
        st = ex.st
        if name == "multiprocessing.Value" and len(args) == 2:
            # a new shared cell holding the initial value
            v = st.fresh_const("synchronized", AttrS)
            ctr = st.ghost_get("sync_ctr", z3.IntSort())
            a = st.fresh_int("sync_addr")
            st.assume(z3.And(is_sync(v), sync_addr(v) == a, a > ctr))
            st.ghost_set("sync_ctr", a)
            st.ghost_set("sync", z3.Store(st.ghost_get("sync", SyncHeap), a, TAttr.embed(st, args[1])))
            return SV(v, TAttr)
        if name == "pathlib.Path" and len(args) == 1 and isinstance(args[0], SV) and args[0].ty == TAttr:
            return SV(to_path(args[0].term), TAttr)
        return NotImplemented


def _to_os_specific(ex, args, kwargs, lineno):
    return SV(os_specific(args[0].term), TAttr)


C.pure_external("gemseo.utils.portable_path.to_os_specific", _to_os_specific)
