"""C13 (consequences for disciplines) plugin: opaque disciplines seen from the parallel execution wrappers.

Every hook is gated on contracts that opt in with ``c13d = True`` (or on the plugin's own values).

A discipline is an opaque value of sort ``Disc`` (plug_graph).  What the verified functions read / write on it is ghost state:

* ``d.io.data`` (the discipline's local data, one opaque value: a ``DisciplineData``)   -> ghost map ``c13d_data : Disc -> Val``
* ``d.jac`` (the Jacobian dictionary, one opaque value)                               -> ghost map ``c13d_jac  : Disc -> Val``
* ``d.execution_statistics.n_executions / n_linearizations`` (the PARENT-side counters) -> ghost maps ``c13d_nexec / c13d_nlin : Disc -> Int``
  (the getters return the counter when the statistics are enabled - the only place the verified code reads them is guarded by
  ``ExecutionStatistics.is_enabled``, a free Boolean here; the setter's ``RuntimeError`` when disabled is modelled).
* ``d.execute`` as a task callable: the value ``exec_of(d)``;  ``_Functor(d, execute=e)``: the value ``functor_of(d, e)``.
* ``d.linearize(x, execute=e)``: returns ``lin_jac(d, x, e)`` and leaves ``lin_data(d, x, e)`` in ``d.io.data`` (ASSUMED: deterministic).
* a worker result of the linearization (``_WorkerData`` named tuple) is an opaque value with the projections ``wd_io`` / ``wd_jac``
  (``_WorkerData(a, b)`` = ``wd_mk(a, b)`` with the projection axioms); its truth value / the truth value of a ``DisciplineData`` is
  the uninterpreted ``val_truth`` (non-emptiness).
* ``self.MULTI_PROCESSING_START_METHOD`` is the free string ``START_METHOD`` (a class attribute users may set; 'fork' by default on POSIX),
  ``ExecutionStatistics.is_enabled`` the free Boolean ``STATS_ENABLED``.
* data of a discipline as a mapping: ``data[name]`` -> ``data_get(value, name)`` (``KeyError`` unless ``data_has(value, name)``);
  a dictionary ``{name: value}`` handed over as one task input is ``data_pack(members, values)``.
"""
from __future__ import annotations

import z3

from .plug_graph import DiscS, TDisc, TDiscIO, _TDisc, _TDiscIO
from .values import BoundMethod, ClassV, DictObj, ListObj, PyObj, Ref, SV, StrS, TBool, TInt, TStr, TVal, Unsupported, ValS, declare_ghost, val_none

I = z3.IntSort()  # noqa: E741
B = z3.BoolSort()
MAP_V = z3.ArraySort(DiscS, ValS)
MAP_I = z3.ArraySort(DiscS, I)
GHOSTS = {"c13d_data": MAP_V, "c13d_jac": MAP_V, "c13d_nexec": MAP_I, "c13d_nlin": MAP_I}
for _n, _s in GHOSTS.items():
    declare_ghost(_n, _s)

exec_of = z3.Function("c13d_exec_of", DiscS, ValS)  # the bound method d.execute as a task callable
functor_of = z3.Function("c13d_functor_of", DiscS, B, ValS)  # _Functor(d, execute=e)
lin_jac = z3.Function("c13d_lin_jac", DiscS, ValS, B, ValS)  # d.linearize(x, execute=e)
lin_data = z3.Function("c13d_lin_data", DiscS, ValS, B, ValS)  # d.io.data after d.linearize(x, execute=e)
lin_raises = z3.Function("c13d_lin_raises", DiscS, ValS, B, B)
wd_mk = z3.Function("c13d_wd_mk", ValS, ValS, ValS)  # _WorkerData(io_data, jacobian)
wd_io = z3.Function("c13d_wd_io", ValS, ValS)
wd_jac = z3.Function("c13d_wd_jac", ValS, ValS)
val_truth = z3.Function("c13d_truth", ValS, B)  # bool(value) (non-emptiness of a mapping)
data_has = z3.Function("c13d_data_has", ValS, StrS, B)
data_get = z3.Function("c13d_data_get", ValS, StrS, ValS)
DataM, DataV = z3.ArraySort(StrS, B), z3.ArraySort(StrS, ValS)
data_pack = z3.Function("c13d_data_pack", DataM, DataV, ValS)  # a {name: value} mapping as ONE value (a task input)

START_METHOD = z3.Const("c13d_start_method", StrS)
STATS_ENABLED = z3.Bool("c13d_statistics_enabled")

WD = "gemseo.core.parallel_execution.disc_parallel_linearization._WorkerData"
ES = "gemseo.core.execution_statistics.ExecutionStatistics"


def _on(ex):
    return getattr(ex.contract, "c13d", False)


def wd_axioms():
    a, b = z3.Consts("a!wd b!wd", ValS)
    return [z3.ForAll([a, b], z3.And(wd_io(wd_mk(a, b)) == a, wd_jac(wd_mk(a, b)) == b, wd_mk(a, b) != val_none), patterns=[wd_mk(a, b)])]


def _consts(f):
    out, stack, seen = [], [f], set()
    while stack:
        t = stack.pop()
        if t.get_id() in seen:
            continue
        seen.add(t.get_id())
        if z3.is_quantifier(t):
            stack.append(t.body())
            continue
        if z3.is_const(t) and t.decl().kind() == z3.Z3_OP_UNINTERPRETED:
            out.append(t)
        stack.extend(t.children())
    return out


class StatsV:
    """``d.execution_statistics`` of an opaque discipline."""

    def __init__(self, d):
        self.d = d


def g(st, name):
    return st.ghost_get(name, GHOSTS[name])


def _is_disc(v):
    return isinstance(v, SV) and type(v.ty) is _TDisc


def _is_io(v):
    return isinstance(v, SV) and type(v.ty) is _TDiscIO


def _is_val(v):
    return isinstance(v, SV) and v.ty.sort() == ValS


class C13dModels:
    # ------------------------------------------------------------------ names
    def pyobj_attr(self, ex, ref, o, attr, lineno):
        if _on(ex) and attr == "MULTI_PROCESSING_START_METHOD":
            ex.assumed.add("MULTI_PROCESSING_START_METHOD: an arbitrary string (class attribute, 'fork' by default on POSIX)")
            return SV(START_METHOD, TStr)
        return NotImplemented

    def class_constant(self, ex, ci, name):
        if _on(ex) and name == "MULTI_PROCESSING_START_METHOD":
            ex.assumed.add("MULTI_PROCESSING_START_METHOD: an arbitrary string (class attribute, 'fork' by default on POSIX)")
            return SV(START_METHOD, TStr)
        if _on(ex) and name == "is_enabled" and ci.qualname == ES:
            ex.assumed.add("ExecutionStatistics.is_enabled: an arbitrary Boolean (global switch)")
            return SV(STATS_ENABLED, TBool)
        return NotImplemented

    # ------------------------------------------------------------------ attributes of disciplines / worker data
    def value_attr(self, ex, obj, attr, lineno):
        if not _on(ex):
            return NotImplemented
        st = ex.st
        if _is_disc(obj):
            if attr == "execute":
                return SV(exec_of(obj.term), TVal)
            if attr == "jac":
                return SV(g(st, "c13d_jac")[obj.term], TVal)
            if attr == "execution_statistics":
                return StatsV(obj.term)
            if attr == "linearize":
                return BoundMethod(obj, None, "c13d.linearize")
            return NotImplemented
        if _is_io(obj) and attr == "data":
            return SV(g(st, "c13d_data")[obj.term], TVal)
        if isinstance(obj, StatsV):
            if attr in ("n_executions", "n_linearizations"):
                # the getter returns None when the statistics are disabled
                if not st.decide(STATS_ENABLED):
                    return None
                return SV(g(st, "c13d_nexec" if attr == "n_executions" else "c13d_nlin")[obj.d], TInt)
            raise Unsupported(f"execution_statistics.{attr}")
        if _is_val(obj) and attr in ("io_data", "jacobian"):
            from .engine import PyRaise

            if ex.no_fork:
                # inside a comprehension element (no fork possible there): the element is only evaluated for the items the filter keeps;
                # `None.jacobian` for a kept item is an obligation generated once the filter is known (filtered_sequence below)
                st.ghost.setdefault("c13d_pending", []).append((obj.term != val_none, lineno))
            elif st.decide(obj.term == val_none):
                raise PyRaise("AttributeError", lineno)
            return SV((wd_io if attr == "io_data" else wd_jac)(obj.term), TVal)
        return NotImplemented

    def set_attr(self, ex, obj, attr, v, lineno):
        if not _on(ex):
            return NotImplemented
        st = ex.st
        if _is_io(obj) and attr == "data":
            st.ghost_set("c13d_data", z3.Store(g(st, "c13d_data"), obj.term, TVal.embed(st, v)))
            return None
        if _is_disc(obj) and attr == "jac":
            st.ghost_set("c13d_jac", z3.Store(g(st, "c13d_jac"), obj.term, TVal.embed(st, v)))
            return None
        if isinstance(obj, StatsV) and attr in ("n_executions", "n_linearizations"):
            from .engine import PyRaise

            if not st.decide(STATS_ENABLED):
                raise PyRaise("RuntimeError", lineno)  # __check_is_enabled
            name = "c13d_nexec" if attr == "n_executions" else "c13d_nlin"
            st.ghost_set(name, z3.Store(g(st, name), obj.d, TInt.embed(st, v)))
            return None
        return NotImplemented

    def truth(self, ex, v):
        if _on(ex) and _is_val(v) and getattr(ex.contract, "c13d_truth", False):
            return val_truth(v.term)
        return NotImplemented

    # ------------------------------------------------------------------ [x.attr for x in results if <filter>]
    def boolop_nofork(self, ex, node):
        """``a or b`` / ``a and b`` inside a comprehension (no fork possible there) when every operand is a Boolean or None: the Boolean term
        with the same TRUTH value (Python's value would be None instead of False when the last operand is None: only used as a filter)."""
        import ast

        if not _on(ex):
            return NotImplemented
        vals = [ex.ev(e) for e in node.values]
        if not all(v is None or isinstance(v, bool) or (isinstance(v, SV) and v.ty == TBool) for v in vals):
            raise Unsupported("boolean operator on non-Boolean operands inside a comprehension")
        ts = [z3.BoolVal(bool(v)) if (v is None or isinstance(v, bool)) else v.term for v in vals]
        return SV(z3.simplify((z3.And if isinstance(node.op, ast.And) else z3.Or)(*ts)), TBool)

    def filtered_sequence(self, ex, seq, cond_at, n, src, dst):
        if not _on(ex):
            return NotImplemented
        st = ex.st
        i, j = z3.Int("i!c13f"), z3.Int("j!c13f")
        for f, lineno in st.ghost.pop("c13d_pending", []):
            # the generic index of the comprehension is the fresh integer `ci!<n>` of models.comprehension
            cs = [t for t in _consts(f) if t.decl().name().startswith("ci!") and t.sort() == I]
            if len(cs) != 1:
                raise Unsupported("attribute of a task result inside a comprehension: generic index not found")
            ex.check(z3.ForAll([i], z3.Implies(z3.And(0 <= i, i < seq.n, cond_at(i)), z3.substitute(f, (cs[0], i)))),
                     "safety", "comprehension:kept-items-are-worker-data(no AttributeError)", lineno, aux=True)
        # cited lemma about the model of a filtered sequence (strictly increasing source map src : [0, n) -> [0, N) with the inverse dst defined on
        # every kept index): when every item is kept, dst is an injection of [0, N) into [0, n), hence n = N, and a strictly increasing map of
        # [0, N) into itself is the identity
        st.assume(z3.Implies(z3.ForAll([i], z3.Implies(z3.And(0 <= i, i < seq.n), cond_at(i))),
                             z3.And(n == seq.n, z3.ForAll([j], z3.Implies(z3.And(0 <= j, j < n), src[j] == j), patterns=[src[j]]))))
        ex.assumed.add("cited lemma: a filtered sub-sequence that keeps every item is the whole sequence (same length, identity source map)")
        return None

    # ------------------------------------------------------------------ calls
    def construct(self, ex, cv, args, kwargs, lineno):
        if not (_on(ex) and isinstance(cv, ClassV) and cv.qualname == WD):
            return NotImplemented
        st = ex.st
        if len(args) != 2 or kwargs:
            raise Unsupported("_WorkerData(...) with other arguments than (io_data, jacobian)")
        for f in wd_axioms():
            st.assume(f)
        return SV(wd_mk(TVal.embed(st, args[0]), TVal.embed(st, args[1])), TVal)

    def call_method(self, ex, recv, name, args, kwargs, lineno):
        if not (_on(ex) and name == "c13d.linearize" and _is_disc(recv)):
            return NotImplemented
        from .engine import PyRaise

        st = ex.st
        if len(args) != 1 or set(kwargs) - {"execute"}:
            raise Unsupported("linearize(...) with other arguments than (input_data, execute=...)")
        x = TVal.embed(st, args[0])
        e = TBool.embed(st, kwargs.get("execute", True))
        d = recv.term
        ex.assumed.add("Discipline.linearize(x, execute=e): deterministic - raises iff lin_raises(d, x, e), otherwise returns lin_jac(d, x, e) and leaves "
                       "lin_data(d, x, e) in d.io.data and lin_jac(d, x, e) in d.jac (assumed)")
        if st.decide(lin_raises(d, x, e)):
            raise PyRaise("BaseException", lineno)
        st.ghost_set("c13d_data", z3.Store(g(st, "c13d_data"), d, lin_data(d, x, e)))
        st.ghost_set("c13d_jac", z3.Store(g(st, "c13d_jac"), d, lin_jac(d, x, e)))
        return SV(lin_jac(d, x, e), TVal)

    # ------------------------------------------------------------------ data of a discipline read as a mapping
    def getitem(self, ex, cont, key, lineno):
        if not (_on(ex) and _is_val(cont) and getattr(ex.contract, "c13d_data_items", False)):
            return NotImplemented
        from .engine import PyRaise

        st = ex.st
        k = TStr.embed(st, key)
        if ex.no_fork:
            ex.check(data_has(cont.term, k), "safety", "comprehension-key-present", lineno, aux=True)
        elif not st.decide(data_has(cont.term, k)):
            raise PyRaise("KeyError", lineno)
        return SV(data_get(cont.term, k), TVal)
