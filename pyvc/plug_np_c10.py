"""numpy features needed by C10 (function algebra, aggregations) on top of the precise array model (npmodel.py).

Registered in front of NumpyModel (runner.make_models).  Every hook is gated on precise arrays (ArrObj operands) or on
numpy function names npmodel does not know, so the other properties are unaffected - with one deliberate exception:

* ``a op= b`` on a *name* bound to an array (``orig_val *= scale``) mutates the array in place, as numpy does; the generic
  engine evaluated it as ``a = a op b`` (a fresh array), which hides the very side effect C10 is about.

Modelled (real numpy semantics, float64 = reals):
``add/subtract/multiply/divide`` (functions = the operators), ``atleast_2d``, ``tile(v, (k, 1))``, ``sum(a, axis=0|1)``,
builtin ``sum(a)``/``max(a)``, ``numpy.max``, ``argmax`` (first index of a maximal element), ``heaviside``, ``ndarray.flatten`` (rank 1, or
one row), ``math.log`` (ValueError for x <= 0, uninterpreted ``np_log`` otherwise), ``A @ x`` for a matrix and a vector (row-wise sums),
``v[:, newaxis]`` of a vector,
equality of numpy function objects, opt-in frame facts for arrays (contract attribute ``frame_arrays = True``).
"""
from __future__ import annotations

import z3

from .npmodel import SORTS, ArrObj, NumpyModel, _arr, _conv, _is_arr, _scalar, arr_sort, np_exp, np_log
from .values import BuiltinV, Ref, SV, TBool, TInt, TReal, Unsupported, forall_pat, is_concrete

_NP = NumpyModel()
UFUNC_OPS = {"numpy.add": "Add", "numpy.subtract": "Sub", "numpy.multiply": "Mult", "numpy.divide": "Div", "numpy.true_divide": "Div"}


def psum_fn(kind="f"):
    """The prefix-sum function of npmodel.vsum: psum(a, k) = a[0] + ... + a[k-1]."""
    srt = SORTS[kind if kind != "b" else "i"]
    return z3.Function(f"psum_{kind}", z3.ArraySort(z3.IntSort(), srt), z3.IntSort(), srt)


def psum_axioms(kind="f"):
    srt = SORTS[kind]
    psum = psum_fn(kind)
    a = z3.Const("a!ps", z3.ArraySort(z3.IntSort(), srt))
    k = z3.Int("k!ps")
    zero = z3.RealVal(0) if kind == "f" else z3.IntVal(0)
    return [z3.ForAll([a], psum(a, 0) == zero), z3.ForAll([a, k], z3.Implies(k >= 0, psum(a, k + 1) == psum(a, k) + a[k]), patterns=[psum(a, k + 1)])]


def _assume_psum(ex):
    """The recursive definition of the prefix sums, unless the contract works from proved consequences only
    (``psum_definition = False``: fewer quantified hypotheses, so that a failing obligation still gets a counter-model)."""
    if getattr(ex.contract, "psum_definition", True):
        for f in psum_axioms("f"):
            ex.st.assume(f)


def _vsum(ex, A):
    if getattr(ex.contract, "psum_definition", True) or A.kind != "f":
        r = _NP.vsum(ex, A)
    else:
        # the summed sequence gets a name (defined point-wise): sums of named sequences keep the queries within reach of model finding
        seq = ex.st.fresh_const("sumseq", z3.ArraySort(z3.IntSort(), z3.RealSort()))
        i = z3.Int("i!sq")
        ex.st.assume(z3.ForAll([i], seq[i] == A.elems[i], patterns=[seq[i]]))
        if A.elems.get_id() in ex.st.ghost.get("positive_arrays", ()):
            ex.st.ghost["positive_arrays"].add(seq.get_id())
        r = psum_fn("f")(seq, A.shape[0])
    if A.kind == "f" and getattr(ex.contract, "psum_positive_lemma", False) and A.elems.get_id() in ex.st.ghost.get("positive_arrays", ()):  # noqa: E501
        # instance of the lemma `a sum of n >= 1 positive terms is positive` (proved by induction in the contract module: PrefixSumLemmas)
        # for an array whose elements are known to be positive (numpy.exp)
        ex.st.assume(z3.Implies(A.shape[0] >= 1, r > 0))
        ex.assumed.add("lemma instance (proved by induction in PrefixSumLemmas): a sum of n >= 1 positive terms is positive")
    return r


def _precise(ex):
    return getattr(ex.contract, "numpy", "opaque") == "precise"


class _StrEnumNS:
    def __init__(self, members):
        self.members = members


class NpC10Models:
    # ------------------------------------------------------------------ operators
    def binop(self, ex, op, a, b, lineno, inplace=False):
        if op == "MatMult" and _is_arr(ex, a) and _is_arr(ex, b):
            return self._matvec(ex, a, b, lineno)
        if getattr(ex.contract, "dunder_binop", False) and isinstance(a, Ref) and op in ("Add", "Sub", "Mult", "Div"):
            # `obj <op> x` on an instance of a repository class: its __add__ / __sub__ / __mul__ / __truediv__
            from . import source as S
            from .values import PyObj

            o = ex.st.heap.get(a.id)
            if isinstance(o, PyObj):
                m = S.find_method(o.cls, {"Add": "__add__", "Sub": "__sub__", "Mult": "__mul__", "Div": "__truediv__"}[op])
                if m is not None:
                    return ex.call_repo(m, [a, b], {}, lineno)
        if not (inplace and _is_arr(ex, a)):
            return NotImplemented
        # numpy: `a op= b` writes the result into a's buffer (the name keeps denoting the same array)
        from .engine import PyRaise

        r = _NP.binop(ex, op, a, b, lineno)
        if r is NotImplemented or not _is_arr(ex, r):
            return NotImplemented
        A, R = _arr(ex, a), _arr(ex, r)
        if R.rank != A.rank or not all(_NP.same(ex, x, y, lineno) for x, y in zip(R.shape, A.shape)):
            raise PyRaise("ValueError", lineno)  # non-broadcastable output operand
        order = "bif"
        if order.index(R.kind) > order.index(A.kind):
            raise PyRaise("TypeError", lineno)  # numpy.core._exceptions._UFuncOutputCastingError (same-kind casting)
        A.elems = R.elems if R.kind == A.kind else _NP.lam(A.rank, lambda *i: _conv(R.at(*i), R.kind, A.kind))
        del ex.st.heap[r.id]
        ex.writeback(A)
        self._write_through(ex, a)
        return a

    def _write_through(self, ex, ref):
        """A (1, n) row view of a vector (atleast_2d, opt-in ``np_views``) was written: the vector holds the same values."""
        base = ex.st.ghost.get("row_views", {}).get(getattr(ref, "id", None))
        if base is not None and base.id in ex.st.heap:
            V, B = _arr(ex, ref), _arr(ex, base)
            B.elems = _NP.lam(1, lambda j: V.at(z3.IntVal(0), j))
            ex.writeback(B)
            self._write_through(ex, base)

    def _mask_of_nonzero(self, ex, key):
        """``mask`` when ``key`` is ``mask.nonzero()`` (or its only item) of a vector mask unchanged since (opt-in ``nonzero_as_mask``)."""
        if isinstance(key, tuple) and len(key) == 1:
            key = key[0]
        if not (getattr(ex.contract, "nonzero_as_mask", False) and _is_arr(ex, key)):
            return None
        hit = ex.st.ghost.get("nonzero_of", {}).get(_arr(ex, key).elems.get_id())
        if hit is None:
            return None
        mask, elems_id = hit
        return mask if mask.id in ex.st.heap and _arr(ex, mask).elems.get_id() == elems_id else None

    def setitem(self, ex, cont, key, v, lineno):
        if not _is_arr(ex, cont):
            return NotImplemented
        mask = self._mask_of_nonzero(ex, key) if _arr(ex, cont).rank == 1 else None
        if mask is not None:
            key = mask  # a[mask.nonzero()] = v is a[mask] = v
        elif cont.id not in ex.st.ghost.get("row_views", {}):
            return NotImplemented
        r = _NP.setitem(ex, cont, key, v, lineno)
        self._write_through(ex, cont)
        return r

    def _matvec(self, ex, a, b, lineno):
        from .engine import PyRaise

        A, B = _arr(ex, a), _arr(ex, b)
        if A.rank == 2 and B.rank == 1 and A.kind == "f" and B.kind == "f":
            if not _NP.same(ex, A.shape[1], B.shape[0], lineno):
                raise PyRaise("ValueError", lineno)
            _assume_psum(ex)
            psum = psum_fn("f")
            k = z3.Int("k!mv")
            return _NP.new(ex, "f", (A.shape[0],), _NP.lam(1, lambda i: psum(z3.Lambda([k], A.at(i, k) * B.elems[k]), A.shape[1])))
        if A.rank == 1 and B.rank == 1 and A.kind == "f" and B.kind == "f":  # dot product of two vectors: a number
            if not _NP.same(ex, A.shape[0], B.shape[0], lineno):
                raise PyRaise("ValueError", lineno)
            _assume_psum(ex)
            k = z3.Int("k!mv")
            return SV(psum_fn("f")(z3.Lambda([k], A.elems[k] * B.elems[k]), A.shape[0]), TReal)
        if A.rank == 1 and B.rank == 2 and A.kind == "f" and B.kind == "f":  # row vector times matrix
            if not _NP.same(ex, A.shape[0], B.shape[0], lineno):
                raise PyRaise("ValueError", lineno)
            _assume_psum(ex)
            k = z3.Int("k!mv")
            return _NP.new(ex, "f", (B.shape[1],), _NP.lam(1, lambda j: psum_fn("f")(z3.Lambda([k], A.elems[k] * B.at(k, j)), A.shape[0])))
        return NotImplemented

    def isinstance_(self, ex, v, cls):
        from .values import ClassV, FunV

        if isinstance(v, FunV) and _precise(ex) and all(isinstance(c, ClassV) for c in (cls if isinstance(cls, tuple) else (cls,))):
            return False  # a user callable is not an instance of a gemseo class (NotImplementedCallable...)
        if _precise(ex) and getattr(ex.contract, "numbers_abc", False) and not isinstance(v, bool) and ex.num(v) is not None and not (isinstance(v, SV) and v.ty == TBool):
            # isinstance(x, (Number, ndarray)) for a Python number: numbers.Number is an abstract base class of int and float
            names = [c.name if isinstance(c, BuiltinV) else getattr(c, "qualname", "?") for c in (cls if isinstance(cls, tuple) else (cls,))]
            if any(n.rsplit(".", 1)[-1] == "Number" for n in names):
                return True
        return NotImplemented

    def compare_any(self, ex, op, a, b, lineno):
        """``a.shape != b.shape`` (tuples of symbolic dimensions) and ``a.dtype != "bool"``."""
        if op not in ("Eq", "NotEq") or not _precise(ex):
            return NotImplemented
        t = None
        if isinstance(a, tuple) and isinstance(b, tuple) and any(isinstance(x, SV) for x in a + b) and all(ex.num(x) is not None for x in a + b):
            t = z3.And(*[ex.num(x)[0] == ex.num(y)[0] for x, y in zip(a, b)]) if len(a) == len(b) else z3.BoolVal(False)
        else:
            for x, y in ((a, b), (b, a)):
                if isinstance(x, SV) and x.ty.name == "Rec[dtype]" and isinstance(y, str):
                    from .npmodel import DTYPE
                    from .values import str_lit

                    k = {"bool": "b", "float": "f", "float64": "f", "int": "i", "int64": "i"}.get(y)
                    t = DTYPE.accessor("kind")(x.term) == str_lit(k) if k else z3.BoolVal(False)
        if t is None:
            return NotImplemented
        t = z3.simplify(t if op == "Eq" else z3.Not(t))
        return True if z3.is_true(t) else False if z3.is_false(t) else SV(t, TBool)

    def equals(self, ex, a, b, lineno):
        if isinstance(a, BuiltinV) and isinstance(b, BuiltinV) and a.name.startswith("numpy.") and b.name.startswith("numpy."):
            return a.name == b.name
        return NotImplemented

    # ------------------------------------------------------------------ MDOFunction.FunctionType (a StrEnum: its members are their string values)
    def class_constant(self, ex, ci, name):
        if name == "FunctionType" and ci.qualname.endswith("mdo_function.MDOFunction") and getattr(ex.contract, "function_type_enum", False):
            return _StrEnumNS({"OBJ": "obj", "OBS": "obs", "NONE": "", "EQ": "eq", "INEQ": "ineq"})
        return NotImplemented

    def value_attr(self, ex, obj, attr, lineno):
        if isinstance(obj, _StrEnumNS):
            if attr in obj.members:
                return obj.members[attr]
            raise Unsupported(f"enum member {attr}")
        return NotImplemented

    def contains(self, ex, cont, item, lineno):
        """``x in v`` for a number and a vector: some element equals it."""
        if not (_precise(ex) and _is_arr(ex, cont) and _arr(ex, cont).rank == 1 and ex.num(item) is not None and _arr(ex, cont).kind != "b"):
            return NotImplemented
        A = _arr(ex, cont)
        t, ty = ex.num(item)
        tq = z3.Int("t!in")
        if A.kind == "f" and ty == TInt:
            t = z3.ToReal(t)
        elif A.kind == "i" and ty == TReal:
            return NotImplemented
        return SV(z3.Exists([tq], z3.And(0 <= tq, tq < A.shape[0], A.elems[tq] == t)), TBool)

    # ------------------------------------------------------------------ indexing
    def getitem(self, ex, cont, key, lineno):
        """``v[:, newaxis]`` of a vector: the (m, 1) column (numpy returns a view; modelled as a copy - no later in-place write in the verified code)."""
        if ex.no_fork and getattr(ex.contract, "comprehension_list_index", False) and isinstance(cont, Ref) and ex.num(key) is not None \
                and ex.num(key)[1] == TInt and not is_concrete(key):
            from .values import ListObj

            L = ex.st.heap.get(cont.id)
            if isinstance(L, ListObj) and not L.is_empty_literal:
                # names[i] inside a comprehension element (no forking possible there): 0 <= i < len is a generated obligation
                # (the bound variable of the comprehension is a Skolem constant of the element term: the obligation is stated for every position)
                i = ex.num(key)[0]
                ex.check(z3.And(0 <= i, i < L.n), "safety", "comprehension-list-index-in-range", lineno, aux=True, assume_after=False)
                return L.t.project(ex.st, L.elems[i])
        if not (_precise(ex) and _is_arr(ex, cont)):
            return NotImplemented
        A = _arr(ex, cont)
        mask = self._mask_of_nonzero(ex, key) if A.rank == 1 else None
        if mask is not None:
            return _NP.getitem(ex, cont, mask, lineno)  # a[mask.nonzero()] is a[mask]
        if A.rank == 2 and isinstance(key, tuple) and len(key) == 2 and _NP._is_full(key[0]) and _is_arr(ex, key[1]) and _arr(ex, key[1]).kind == "b" \
                and _arr(ex, key[1]).rank == 1:
            # a[:, mask]: the columns selected by the mask, in order (a copy)
            from .engine import PyRaise

            M = _arr(ex, key[1])
            if not _NP.same(ex, M.shape[0], A.shape[1], lineno):
                raise PyRaise("IndexError", lineno)
            cnt, idx = _NP._nonzero(ex, M)
            return _NP.new(ex, A.kind, (A.shape[0], cnt), _NP.lam(2, lambda i, j: A.at(i, idx[j])))
        if A.rank == 1 and isinstance(key, tuple) and len(key) == 2 and _NP._is_full(key[0]) and isinstance(key[1], BuiltinV) and key[1].name == "numpy.newaxis":
            return _NP.new(ex, A.kind, (A.shape[0], z3.IntVal(1)), _NP.lam(2, lambda i, j: A.elems[i]))
        return NotImplemented

    # ------------------------------------------------------------------ attributes / methods
    def call_method(self, ex, recv, name, args, kwargs, lineno):
        if not (isinstance(name, str) and name.startswith("np.") and _is_arr(ex, recv)):
            return NotImplemented
        A = _arr(ex, recv)
        if name == "np.nonzero" and not args and not kwargs and A.rank == 1 and getattr(ex.contract, "nonzero_as_mask", False):
            r = _NP.call_method(ex, recv, name, args, kwargs, lineno)
            ex.st.ghost.setdefault("nonzero_of", {})[_arr(ex, r[0]).elems.get_id()] = (recv, A.elems.get_id())
            return r
        if name == "np.reshape" and A.rank == 1 and not kwargs and _precise(ex):
            shp = args[0] if len(args) == 1 and isinstance(args[0], tuple) else tuple(args)
            if len(shp) == 2 and shp[0] == 1 and shp[1] == -1:
                # v.reshape((1, -1)): the (1, n) row (numpy returns a view: written through when the contract opts in `np_views`)
                r = _NP.new(ex, A.kind, (z3.IntVal(1), A.shape[0]), _NP.lam(2, lambda i, j: A.elems[j]))
                if getattr(ex.contract, "np_views", False):
                    ex.st.ghost.setdefault("row_views", {})[r.id] = recv
                else:
                    ex.assumed.add("v.reshape((1, -1)): a (1, n) copy (numpy returns a view; no later in-place write to it in the verified code)")
                return r
        if name == "np.flatten" and not args and not kwargs:
            if A.rank == 1:
                return _NP.new(ex, A.kind, A.shape, A.elems)
            if ex.st.decide(A.shape[0] == 1):
                return _NP.new(ex, A.kind, (A.shape[1],), _NP.lam(1, lambda j: A.at(z3.IntVal(0), j)))
            if ex.st.decide(A.shape[1] == 1):
                return _NP.new(ex, A.kind, (A.shape[0],), _NP.lam(1, lambda j: A.at(j, z3.IntVal(0))))
            raise Unsupported("flatten of a matrix with several rows and columns")
        if name == "np.sum" and not args and set(kwargs) <= {"axis"} and A.rank == 2 and "axis" in kwargs:
            return self._sum_axis(ex, A, kwargs["axis"], lineno)
        if name == "np.max" and not args and not kwargs:
            return self._max(ex, A, lineno)
        return NotImplemented

    # ------------------------------------------------------------------ functions
    def call_builtin(self, ex, name, args, kwargs, lineno, node=None):
        st = ex.st
        if name in UFUNC_OPS and len(args) == 2 and not kwargs and (_is_arr(ex, args[0]) or _is_arr(ex, args[1]) or _precise(ex)):
            if _is_arr(ex, args[0]) or _is_arr(ex, args[1]):
                return ex.binop(UFUNC_OPS[name], args[0], args[1], lineno)
            if ex.num(args[0]) is not None and ex.num(args[1]) is not None:
                if UFUNC_OPS[name] == "Div":
                    # numpy scalar division: no ZeroDivisionError (inf/nan + warning); the quotient by zero is unspecified
                    ex.assumed.add("numpy true division: x/0 is an unspecified value (inf/nan not modelled)")
                    ta, tb = (z3.ToReal(t) if s == TInt else t for t, s in (ex.num(args[0]), ex.num(args[1])))
                    return SV(ta / tb, TReal)
                return ex.binop(UFUNC_OPS[name], args[0], args[1], lineno)
            return NotImplemented
        if name == "math.log" and len(args) == 1 and _precise(ex) and ex.num(args[0]) is not None:
            from .engine import PyRaise

            t, s = ex.num(args[0])
            t = z3.ToReal(t) if s == TInt else t
            if not st.decide(t > 0):
                raise PyRaise("ValueError", lineno)
            return SV(np_log(t), TReal)
        arrs = [a for a in args if _is_arr(ex, a)]
        if not arrs:
            return NotImplemented
        a0 = args[0]
        if name == "numpy.exp" and len(args) == 1 and not kwargs and _is_arr(ex, a0) and getattr(ex.contract, "exp_positive", False):
            r = _NP.call_builtin(ex, name, args, kwargs, lineno, node)
            R = _arr(ex, r)
            vs = [z3.Int(f"i!ex{j}") for j in range(R.rank)]
            st.assume(z3.ForAll(vs, z3.Implies(z3.And(*[z3.And(0 <= v, v < s) for v, s in zip(vs, R.shape)]), R.at(*vs) > 0)))
            ex.assumed.add("numpy.exp: uninterpreted, positive")
            st.ghost.setdefault("positive_arrays", set()).add(R.elems.get_id())
            return r
        if name in ("sum", "numpy.sum") and _is_arr(ex, a0):
            A = _arr(ex, a0)
            axis = kwargs.get("axis", args[1] if len(args) > 1 else None)
            if set(kwargs) - {"axis"} or len(args) > 2:
                return NotImplemented
            if axis is None and A.rank == 1:
                if A.kind == "b":
                    return NotImplemented
                return SV(_vsum(ex, A), TReal if A.kind == "f" else TInt)
            if A.rank == 2 and axis is not None and name == "numpy.sum":
                return self._sum_axis(ex, A, axis, lineno)
            if A.rank == 1 and axis in (0, -1) and name == "numpy.sum":
                return SV(_vsum(ex, A), TReal if A.kind == "f" else TInt)
            raise Unsupported(f"{name} with axis={axis!r} on rank {A.rank}")
        if name in ("max", "numpy.max", "numpy.amax") and len(args) == 1 and not kwargs and _is_arr(ex, a0):
            return self._max(ex, _arr(ex, a0), lineno)
        if name == "numpy.argmax" and len(args) == 1 and not kwargs and _is_arr(ex, a0):
            return self._argmax(ex, _arr(ex, a0), lineno)
        if name == "numpy.atleast_2d" and len(args) == 1 and _is_arr(ex, a0):
            A = _arr(ex, a0)
            if A.rank == 2:
                return a0  # numpy returns the array itself
            r = _NP.new(ex, A.kind, (z3.IntVal(1), A.shape[0]), _NP.lam(2, lambda i, j: A.elems[j]))
            if getattr(ex.contract, "np_views", False):
                # numpy returns the view v[newaxis, :]: a later in-place write to it is written through to the vector (setitem / `op=` hooks below)
                st.ghost.setdefault("row_views", {})[r.id] = a0
            else:
                ex.assumed.add("numpy.atleast_2d of a vector: a (1, n) copy (numpy returns a view; no later in-place write to it in the verified code)")
            return r
        if name == "numpy.tile" and len(args) == 2 and _is_arr(ex, a0) and isinstance(args[1], tuple) and len(args[1]) == 2:
            A = _arr(ex, a0)
            r0, r1 = ex.num(args[1][0]), ex.num(args[1][1])
            if A.rank == 1 and r0 is not None and r0[1] == TInt and r1 is not None and z3.is_int_value(z3.simplify(r1[0])) and z3.simplify(r1[0]).as_long() == 1:
                from .engine import PyRaise

                if not st.decide(r0[0] >= 0):
                    raise PyRaise("ValueError", lineno)
                return _NP.new(ex, A.kind, (r0[0], A.shape[0]), _NP.lam(2, lambda i, j: A.elems[j]))
            raise Unsupported("numpy.tile with these repetitions")
        if name == "numpy.heaviside" and len(args) == 2 and _is_arr(ex, a0):
            A = _arr(ex, a0)
            h0 = _scalar(ex, args[1])
            if h0 is None or A.kind == "b":
                return NotImplemented
            zero, one = z3.RealVal(0), z3.RealVal(1)
            h0t = _conv(h0[0], h0[1], "f")
            x = lambda *i: _conv(A.at(*i), A.kind, "f")  # noqa: E731
            return _NP.new(ex, "f", A.shape, _NP.lam(A.rank, lambda *i: z3.If(x(*i) < 0, zero, z3.If(x(*i) == 0, h0t, one))))
        return NotImplemented

    def _sum_axis(self, ex, A, axis, lineno):
        if not isinstance(axis, int) or isinstance(axis, bool) or axis not in (0, 1, -1, -2) or A.kind != "f":
            raise Unsupported(f"sum over axis {axis!r}")
        axis = axis % 2
        _assume_psum(ex)
        psum = psum_fn("f")
        k = z3.Int("k!sa")
        if axis == 0:  # column sums
            return _NP.new(ex, "f", (A.shape[1],), _NP.lam(1, lambda j: psum(z3.Lambda([k], A.at(k, j)), A.shape[0])))
        return _NP.new(ex, "f", (A.shape[0],), _NP.lam(1, lambda i: psum(z3.Lambda([k], A.at(i, k)), A.shape[1])))

    def _max(self, ex, A, lineno):
        from .engine import PyRaise

        st = ex.st
        if A.rank != 1 or A.kind == "b":
            raise Unsupported("max of a matrix / boolean array")
        if not st.decide(A.shape[0] > 0):
            raise PyRaise("ValueError", lineno)
        ty = TReal if A.kind == "f" else TInt
        r = st.fresh_const("amax", SORTS[A.kind])
        w = st.fresh_int("amax_at")
        j = z3.Int("j!mx")
        st.assume(z3.And(0 <= w, w < A.shape[0], A.elems[w] == r))
        st.assume(forall_pat([j], z3.Implies(z3.And(0 <= j, j < A.shape[0]), A.elems[j] <= r), A.elems[j]))
        ex.assumed.add("max of a vector: an element that dominates all the others (NaN ordering not modelled)")
        st.ghost.setdefault("amax_calls", []).append((r, w))  # (maximum, position of a maximal element), for specifications
        return SV(r, ty)

    def _argmax(self, ex, A, lineno):
        from .engine import PyRaise

        st = ex.st
        if A.rank != 1 or A.kind == "b":
            raise Unsupported("argmax of a matrix / boolean array")
        if not st.decide(A.shape[0] > 0):
            raise PyRaise("ValueError", lineno)
        r = st.fresh_int("argmax")
        j = z3.Int("j!amx")
        st.assume(z3.And(0 <= r, r < A.shape[0]))
        st.assume(forall_pat([j], z3.Implies(z3.And(0 <= j, j < A.shape[0]), A.elems[j] <= A.elems[r]), A.elems[j]))
        st.assume(forall_pat([j], z3.Implies(z3.And(0 <= j, j < r), A.elems[j] < A.elems[r]), A.elems[j]))
        ex.assumed.add("numpy.argmax: first index of a maximal element (NaN ordering not modelled)")
        return SV(r, TInt)

    # ------------------------------------------------------------------ uninterpreted callables returning arrays
    def call_funv(self, ex, fv, args, kwargs, lineno):
        """Record the arrays handed out by an uninterpreted callable (operand functions): a contract may require that they are not
        modified in place afterwards (``ex.st.ghost['funv_arrays']``: list of (ref, shape, elems) at creation)."""
        if not getattr(ex.contract, "track_funv_arrays", False):
            return NotImplemented
        st, ty = ex.st, fv.ty
        if ty.logged or kwargs:
            return NotImplemented
        f = z3.Function(ty.fname, *[t.sort() for t in ty.args], ty.ret.sort())  # same term as models.call_funv
        ex.assumed.add(f"uninterpreted:{ty.fname}")
        terms = [t.embed(st, a) for t, a in zip(ty.args, args)]
        r = ty.ret.project(st, f(*terms))
        st.ghost.setdefault("funv_calls", []).append((fv.ty.fname, terms, f(*terms)))  # (callable, argument terms, result term), for specifications
        if _is_arr(ex, r):
            A = _arr(ex, r)
            ex.st.ghost.setdefault("funv_arrays", []).append((fv.ty.fname, r, A.shape, A.elems))
        return r

    # ------------------------------------------------------------------ frame of arrays (opt-in)
    def frame_facts(self, ex, o, n):
        if not (isinstance(o, ArrObj) and isinstance(n, ArrObj) and getattr(ex.contract, "frame_arrays", False)):
            return NotImplemented
        if o.elems.eq(n.elems) and all(a.eq(b) for a, b in zip(o.shape, n.shape)):
            return []
        vs = [z3.Int(f"i!fa{j}") for j in range(o.rank)]
        rng = z3.And(*[z3.And(0 <= v, v < s) for v, s in zip(vs, o.shape)])
        return [("array", z3.And(*[a == b for a, b in zip(o.shape, n.shape)], z3.ForAll(vs, z3.Implies(rng, o.at(*vs) == n.at(*vs)))))]
