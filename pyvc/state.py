"""Execution state, decision tree (path enumeration by re-execution) and obligations."""
from __future__ import annotations

from dataclasses import dataclass, field

import z3

from .values import (DictObj, HeapObj, ListObj, PyObj, Ref, SetObj, SV, Unsupported, str_lit_facts)


class PathEnd(Exception):
    """The current path ends here (infeasible branch, or end of a loop-body sub-path)."""


class Undecided(Exception):
    """Something prevents a verdict (anchor mismatch, unsupported construct...)."""


@dataclass
class Obligation:
    name: str
    kind: str  # post | frame | raises | pre | inv_init | inv_pres | safety | assert | lemma | canary
    func: str
    lineno: int
    hyps: list
    goal: object
    label: str = ""
    aux: bool = False  # auxiliary annotation (invariant / callee precondition)?
    path: tuple = ()
    result: str = ""  # unsat(=discharged) | sat | unknown
    backend: str = ""
    seconds: float = 0.0
    model: str = ""
    prop: str = ""
    smt2: str = ""
    tracked: dict = field(default_factory=dict)  # name -> z3 term to evaluate in a counter-model
    tracked_regions: dict = field(default_factory=dict)  # known-finding regions (z3 Bool over the entry state)


class Decisions:
    """DFS over the tree of choices, by re-execution from the function entry."""

    def __init__(self):
        self.plan: list[int] = []
        self.trail: list[list[int]] = []
        self.done = False

    def start_run(self):
        self.trail = []

    def choose(self, n: int) -> int:
        i = len(self.trail)
        c = self.plan[i] if i < len(self.plan) else 0
        self.trail.append([c, n])
        return c

    def finish_run(self):
        t = self.trail
        while t and t[-1][0] >= t[-1][1] - 1:
            t.pop()
        if not t:
            self.done = True
            return
        t[-1][0] += 1
        self.plan = [c for c, _ in t]

    def prefix(self) -> tuple:
        return tuple(c for c, _ in self.trail)


class Heap(dict):
    """Concrete-shape heap (id -> HeapObj) + symbolic heaps (name -> z3 Array Int S) + allocation counter."""

    def __init__(self, *a, **k):
        super().__init__(*a, **k)
        self.sym: dict = {}
        self.ctr = None


class State:
    def __init__(self, decisions: Decisions, feas_timeout_ms: int = 400):
        self.heap: Heap = Heap()
        self.next_id = 1
        self.pc: list = []
        self.solver = z3.Solver()
        self.solver.set("timeout", feas_timeout_ms)
        self.n_fresh = 0
        self.dec = decisions
        self.frames: list = []
        self.ghost: dict = {}
        self.heap.ctr = z3.Int("addr_ctr0")  # allocation counter of the symbolic address space (TAddr)
        self.pc.append(self.heap.ctr >= 0)
        self.solver.add(self.heap.ctr >= 0)
        self.infeasible = False

    # ---- symbols
    def fresh_const(self, hint: str, sort):
        self.n_fresh += 1
        return z3.Const(f"{hint}!{self.n_fresh}", sort)

    def fresh_int(self, hint="i"):
        return self.fresh_const(hint, z3.IntSort())

    # ---- heap
    def alloc(self, o: HeapObj) -> Ref:
        r = Ref(self.next_id)
        self.next_id += 1
        self.heap[r.id] = o
        return r

    def snapshot(self) -> Heap:
        h = Heap({i: o.clone() for i, o in self.heap.items()})
        h.sym = dict(self.heap.sym)
        h.ctr = self.heap.ctr
        return h

    def symheap(self, name: str, content_sort=None):
        if content_sort is None:
            from .values import SYMHEAP_SORTS

            content_sort = SYMHEAP_SORTS[name]
        if name not in self.heap.sym:
            self.heap.sym[name] = z3.Const(f"heap0_{name}", z3.ArraySort(z3.IntSort(), content_sort))
        return self.heap.sym[name]

    def ghost_get(self, name: str, sort):
        if name not in self.heap.sym:
            self.heap.sym[name] = z3.Const(f"heap0_{name}", sort)
        return self.heap.sym[name]

    def ghost_set(self, name: str, term):
        self.heap.sym[name] = term

    def alloc_addr(self, heapname: str, content, content_sort):
        """Allocate a fresh address in a symbolic heap holding ``content``."""
        h = self.symheap(heapname, content_sort)
        a = self.fresh_int("addr")
        self.assume(a > self.heap.ctr)
        self.heap.ctr = a
        self.heap.sym[heapname] = z3.Store(h, a, content)
        return a

    # ---- path condition
    def assume(self, f):
        if isinstance(f, bool):
            if not f:
                self.infeasible = True
                raise PathEnd
            return
        f = z3.simplify(f) if not z3.is_quantifier(f) else f
        if z3.is_true(f):
            return
        self.pc.append(f)
        self._add_solver(f)

    def _add_solver(self, f):
        """The feasibility solver only sees the quantifier-free part of the path condition:
        a weaker hypothesis set can only fail to prune (sound), and stays fast."""
        if _has_quantifier(f):
            return
        self.solver.add(f)

    def feasible(self, extra=None) -> bool:
        r = self.solver.check(*([extra] if extra is not None else []))
        return r != z3.unsat

    def decide(self, cond) -> bool:
        """Fork on a condition; returns the branch taken on this run."""
        if isinstance(cond, bool):
            return cond
        cond = z3.simplify(cond)
        if z3.is_true(cond):
            return True
        if z3.is_false(cond):
            return False
        # a condition already decided by the (quantifier-free part of the) path condition does not fork
        if self.solver.check(z3.Not(cond)) == z3.unsat:
            self.pc.append(cond)  # implied, but kept as an explicit hypothesis (helps the provers)
            return True
        if self.solver.check(cond) == z3.unsat:
            self.pc.append(z3.Not(cond))
            return False
        c = self.dec.choose(2)
        taken = c == 0
        f = cond if taken else z3.Not(cond)
        self.pc.append(f)
        self._add_solver(f)
        if self.solver.check() == z3.unsat:
            raise PathEnd
        return taken

    def choose(self, n: int) -> int:
        return self.dec.choose(n)


_hq_cache: dict = {}


def _has_quantifier(f) -> bool:
    seen = set()
    stack = [f]
    while stack:
        t = stack.pop()
        i = t.get_id()
        if i in seen:
            continue
        seen.add(i)
        if z3.is_quantifier(t):
            return True
        stack.extend(t.children())
    return False


def all_hyps(pc: list) -> list:
    return list(pc) + str_lit_facts()
