"""C17 plugin (construction of the formulations): MDO functions as values, unions of the input names of a tuple / list of disciplines.

Every hook is gated on contracts that opt in with ``c17b = True`` or on the plugin's own value types, so that the verification
conditions of the other properties do not change.

* ``TMdoFun``: an MDO function handed around by ``IDF._build_constraints`` seen as a *value* of the z3 datatype ``C17MdoFun``
  (``consistency(couplings, formulation)`` = the ConsistencyConstraint built from these output couplings for this formulation - what
  ``ConsistencyConstraint.__init__`` is verified to establish on the real object, contract ``ConsistencyInit`` -, ``from_disc(outputs,
  formulation)`` = the FunctionFromDiscipline of these outputs, ``other(id)`` = anything else).  ``ConsistencyConstraint(couplings, formulation)``
  builds the first one, ``.coupling_function`` of a consistency constraint is the second one (AttributeError on any other function),
  ``.discipline_adapter`` of a function from a discipline is its adapter (type ``TAdapter``, same sort: an adapter is identified by its function),
  whose ``is_linear`` / ``input_dimension`` are uninterpreted functions of it; ``.ConstraintType`` is the nested enumeration class of MDOFunction.
* ``{var for disc in <disciplines> for var in disc.io.input_grammar}`` (two generators): the union of the input names of the disciplines, for a
  concrete tuple of discipline objects (their ``io.input_grammar`` sets) or a symbolic list of opaque disciplines (uninterpreted ``c17_inputs_of``).
* ``set(names).intersection(design_space)`` / ``get_all_inputs``: see the hooks below.
"""
from __future__ import annotations

import ast

import z3

from . import source as S
from .values import ClassV, DictObj, ListObj, PyObj, Ref, SetObj, SV, T, TBool, TInt, TList, TSet, TStr, Unsupported, ValS

STR = TStr.sort()
INT = z3.IntSort()
NAME_LIST = TList(TStr)
LISTS = NAME_LIST.sort()
list_n = NAME_LIST.dt.accessor(0, 0)
list_el = NAME_LIST.dt.accessor(0, 1)

MDOF = "gemseo.core.mdo_functions.mdo_function.MDOFunction"
CCLS = "gemseo.core.mdo_functions.consistency_constraint.ConsistencyConstraint"

_dt = z3.Datatype("C17MdoFun")
_dt.declare("consistency", ("cc_couplings", LISTS), ("cc_form", INT))
_dt.declare("from_disc", ("fd_outputs", LISTS), ("fd_form", INT))
_dt.declare("other", ("other_id", INT))
MdoFun = _dt.create()

FFDCLS = "gemseo.core.mdo_functions.function_from_discipline.FunctionFromDiscipline"


def single_name_list(name):
    """The canonical term of the one-element list [name]."""
    return NAME_LIST.dt.mk(z3.IntVal(1), z3.K(INT, name))


adapter_linear = z3.Function("c17_adapter_is_linear", MdoFun, z3.BoolSort())
adapter_dim = z3.Function("c17_adapter_input_dimension", MdoFun, INT)
# input names of an opaque discipline (a grammar is seen through `name in grammar` / iteration only: its set of names)
inputs_of = z3.Function("c17_inputs_of", ValS, z3.ArraySort(STR, z3.BoolSort()))
outputs_of = z3.Function("c17_outputs_of", ValS, z3.ArraySort(STR, z3.BoolSort()))


class _TMdoFun(T):
    name = "MdoFun"

    def sort(self):
        return MdoFun

    def embed(self, st, v):
        if isinstance(v, SV) and v.ty.sort() == MdoFun:
            return v.term
        raise Unsupported(f"cannot embed {v!r} as an MDO function value")


class _TAdapter(_TMdoFun):
    """The discipline adapter of a function from a discipline (identified by this function)."""

    name = "DisciplineAdapterOf"


TMdoFun, TAdapter = _TMdoFun(), _TAdapter()


def _on(ex):
    return getattr(ex.contract, "c17b", False)


def top_inputs_member(elems, n, names_of=None):
    """x is an input of one of the first n disciplines of the sequence (as a function of x)."""
    j = z3.Int("j!ti")
    names_of = inputs_of if names_of is None else names_of
    return lambda x: z3.Exists([j], z3.And(0 <= j, j < n, names_of(elems[j])[x]))


class C17bModels:
    # ------------------------------------------------------------------ MDO functions as values
    def construct(self, ex, cv, args, kwargs, lineno):
        if _on(ex) and cv.qualname == FFDCLS and getattr(ex.contract, "c17b_ffd_value", False):
            return self._construct_ffd_value(ex, args, kwargs, lineno)
        if not _on(ex) or cv.qualname != CCLS:
            return NotImplemented
        if len(args) != 2 or kwargs:
            return NotImplemented
        oc, form = args
        if not isinstance(form, Ref):
            raise Unsupported("ConsistencyConstraint for a formulation that is no heap object")
        ex.assumed.add("MDO functions as values: ConsistencyConstraint(couplings, formulation) is the value consistency(couplings, formulation) "
                       "(what ConsistencyConstraint.__init__ establishes: contract ConsistencyInit)")
        from . import contract as C

        ct = C.lookup(CCLS + ".__init__")
        if ct is not None and hasattr(ct, "construction_requires"):
            # the constructor's precondition on its arguments is checked where the constraint is constructed
            c0 = C.Ctx(ex.st, ex.st.heap, ex.st.heap, {"output_couplings": oc, "formulation": form})
            for label, f in ex._spec(ct.construction_requires, c0):
                ex.check(f, "pre", f"ConsistencyConstraint.__init__:{label}", lineno, aux=True)
        return SV(MdoFun.consistency(NAME_LIST.embed(ex.st, oc), z3.IntVal(form.id)), TMdoFun)

    def _construct_ffd_value(self, ex, args, kwargs, lineno):
        """``FunctionFromDiscipline(names, formulation, discipline=..., top_level_disc=...)`` as the value from_disc(names, formulation) (which
        discipline computes the outputs is left to the constructor: not part of the value).  A one-element list of names is the canonical
        term single_name_list(name) (a list is seen through its elements)."""
        if len(args) != 2 or any(k not in ("discipline", "top_level_disc") for k in kwargs) or not isinstance(args[1], Ref):
            raise Unsupported("FunctionFromDiscipline(...) with other arguments than (names, formulation, discipline=, top_level_disc=)")
        st = ex.st
        o = st.heap[args[0].id] if isinstance(args[0], Ref) else None
        if not isinstance(o, ListObj) or o.t != TStr:
            raise Unsupported("FunctionFromDiscipline for output names that are no list of strings")
        n = z3.simplify(o.n)
        names = single_name_list(z3.simplify(o.elems[0])) if z3.is_int_value(n) and n.as_long() == 1 else NAME_LIST.embed(st, args[0])
        ex.assumed.add("MDO functions as values: FunctionFromDiscipline(names, formulation, ...) is the value from_disc(names, formulation)")
        return SV(MdoFun.from_disc(names, z3.IntVal(args[1].id)), TMdoFun)

    def value_attr(self, ex, obj, attr, lineno):
        if not (isinstance(obj, SV) and isinstance(obj.ty, _TMdoFun)):
            return NotImplemented
        from .engine import PyRaise

        st, t = ex.st, obj.term
        if obj.ty == TAdapter:
            if attr == "is_linear":
                return SV(adapter_linear(t), TBool)
            if attr == "input_dimension":
                return SV(adapter_dim(t), TInt)
            raise Unsupported(f"attribute {attr} of a discipline adapter")
        if attr == "coupling_function":
            if not st.decide(MdoFun.is_consistency(t)):
                raise PyRaise("AttributeError", lineno)
            return SV(MdoFun.from_disc(MdoFun.cc_couplings(t), MdoFun.cc_form(t)), TMdoFun)
        if attr == "discipline_adapter":
            if not st.decide(MdoFun.is_from_disc(t)):
                raise PyRaise("AttributeError", lineno)
            return SV(t, TAdapter)
        if attr in ("ConstraintType", "FunctionType"):
            nq = S.find_nested_class(MDOF, attr)
            if nq is not None:
                return ClassV(nq)
        raise Unsupported(f"attribute {attr} of an MDO function value")

    def class_constant(self, ex, ci, name):
        """MDOFunction.FunctionType = merge_enums(.., _FunctionType, ConstraintType): its members are those of the two merged enumerations, with the
        same values; seen here through the nested class _FunctionType (OBJ / OBS / NONE - the only members read under these contracts)."""
        if _on(ex) and ci.qualname == MDOF and name == "FunctionType":
            nq = S.find_nested_class(MDOF, "_FunctionType")
            if nq is not None:
                return ClassV(nq)
        return NotImplemented

    # ------------------------------------------------------------------ set(names).intersection(design_space)
    def call_method(self, ex, recv, name, args, kwargs, lineno):
        """``s.intersection(design_space)``: iterating a DesignSpace yields its variable names (``__iter__`` = ``iter(self._variables)``), so the
        result is {x in s | x is a variable} - membership stated directly with the variables' dictionary (no existential over positions)."""
        if not _on(ex) or name != "intersection" or len(args) != 1 or kwargs or not isinstance(recv, Ref) or not isinstance(args[0], Ref):
            return NotImplemented
        st = ex.st
        so, ds = st.heap[recv.id], st.heap[args[0].id]
        if not (isinstance(so, SetObj) and so.k == TStr and isinstance(ds, PyObj) and S.is_subclass(ds.cls, "gemseo.algos.design_space.DesignSpace")):
            return NotImplemented
        it = S.find_method(ds.cls, "__iter__")
        v = ds.fields.get("_variables")
        d = st.heap[v.id] if isinstance(v, Ref) else None
        if it is None or ast.unparse(it.node.body[-1]) != "return iter(self._variables)" or not isinstance(d, DictObj):
            return NotImplemented
        x = z3.Const("x!is", STR)
        member = st.fresh_const("kept_names", z3.ArraySort(STR, z3.BoolSort()))
        st.assume(z3.ForAll([x], member[x] == z3.And(so.member[x], d.member[x]), patterns=[member[x]]))
        n = st.fresh_int("kept_names_n")
        out = SetObj(TStr, member, n)
        out.ty = TSet(TStr)
        for f in out.wf_facts(st):
            st.assume(f)
        return st.alloc(out)

    # ------------------------------------------------------------------ union of the input names of the disciplines
    def comprehension(self, ex, node, kind):
        if not _on(ex) or kind != "set" or len(node.generators) != 2:
            return NotImplemented
        g0, g1 = node.generators
        if g0.ifs or g1.ifs or g0.is_async or g1.is_async or not (isinstance(g0.target, ast.Name) and isinstance(g1.target, ast.Name)):
            return NotImplemented
        if not (isinstance(node.elt, ast.Name) and node.elt.id == g1.target.id):
            return NotImplemented
        which = next((a for a in ("input_grammar", "output_grammar") if ast.unparse(g1.iter) == f"{g0.target.id}.io.{a}"), None)
        if which is None:
            return NotImplemented
        names_of = inputs_of if which == "input_grammar" else outputs_of
        st = ex.st
        outer = ex.ev(g0.iter)
        x = z3.Const("x!ui", STR)
        if isinstance(outer, tuple):
            mems = []
            for d in outer:
                if isinstance(d, SV) and d.ty.sort() == ValS:
                    mems.append(names_of(d.term))
                    continue
                g = ex.get_attr(ex.get_attr(d, "io", node.lineno), which, node.lineno)
                o = st.heap[g.id] if isinstance(g, Ref) else None
                if not isinstance(o, SetObj) or o.k != TStr:
                    raise Unsupported("input grammar that is not modelled by its set of names")
                mems.append(o.member)
            body = z3.Or(*[m[x] for m in mems]) if mems else z3.BoolVal(False)
        else:
            o = st.heap[outer.id] if isinstance(outer, Ref) else None
            if not isinstance(o, ListObj) or o.t.sort() != ValS:
                return NotImplemented
            body = top_inputs_member(o.elems, o.n, names_of)(x)
        member = st.fresh_const("all_inputs", z3.ArraySort(STR, z3.BoolSort()))
        st.assume(z3.ForAll([x], member[x] == body, patterns=[member[x]]))
        n = st.fresh_int("all_inputs_n")
        st.assume(n >= 0)
        s = SetObj(TStr, member, n)
        s.ty = TSet(TStr)
        for f in s.wf_facts(st):
            st.assume(f)
        return st.alloc(s)


# ---------------------------------------------------------------------- construction of a formulation (IDF.__init__ / MDF.__init__)
BF_INIT = "gemseo.formulations.base_formulation.BaseFormulation.__init__"
CS = "gemseo.core.coupling_structure.CouplingStructure"


def cs_of(rec, disciplines_term):
    """CouplingStructure(disciplines) as a record of name lists: an uninterpreted function of the sequence of disciplines."""
    return z3.Function("c17_coupling_structure_of", disciplines_term.sort(), rec.sort())(disciplines_term)


class C17bInitModels:
    """Gated on ``c17b_init = True`` contracts."""

    def call_repo_model(self, ex, fi, args, kwargs, lineno):
        if not getattr(ex.contract, "c17b_init", False) or fi.qualname != BF_INIT:
            return NotImplemented
        from . import contract as C

        st = ex.st
        bound, missing, defaults = ex.bind_params(fi, args, kwargs, lineno)
        me = bound["self"]
        o = st.heap[me.id]
        sch = C.class_schema(getattr(o, "schema_key", None) or o.cls)
        d = st.heap[bound["disciplines"].id]
        if not isinstance(d, ListObj):
            raise Unsupported("disciplines that are no list")
        lo = ListObj(d.t, d.n, d.elems)  # tuple(disciplines): a new sequence with the same elements
        lo.ty = TList(d.t)
        o.fields["_BaseFormulation__disciplines"] = st.alloc(lo)
        op_t = sch["optimization_problem"]
        po = PyObj(op_t.cls, {"design_space": bound["design_space"]})  # OptimizationProblem(design_space): holds the very design space
        po.schema_key = op_t.schema_key
        o.fields["optimization_problem"] = st.alloc(po)
        for f in ("_settings", "variable_sizes", "_objective_name"):
            if f in sch:
                o.fields[f] = sch[f].fresh(st, f"init.{f}")
        dso = st.heap[bound["design_space"].id] if isinstance(bound["design_space"], Ref) else None
        dv = st.heap.get(dso.fields["_variables"].id) if isinstance(dso, PyObj) and isinstance(dso.fields.get("_variables"), Ref) else None
        if "variable_sizes" in sch and isinstance(dv, DictObj):
            # variable_sizes = design_space.variable_sizes.copy(): a new dictionary with exactly the names of the variables the design space has NOW
            vs = st.heap[o.fields["variable_sizes"].id]
            x = z3.Const("x!vs", STR)
            st.assume(z3.ForAll([x], vs.member[x] == dv.member[x], patterns=[vs.member[x]]))
        ex.assumed.add("model of BaseFormulation.__init__: disciplines = tuple(disciplines), optimization_problem = a new OptimizationProblem holding the very "
                       "design space passed in, variable_sizes = a new dictionary with exactly the names of its variables, arbitrary validated settings; "
                       "nothing else is touched")
        return None

    def construct(self, ex, cv, args, kwargs, lineno):
        if not getattr(ex.contract, "c17b_init", False):
            return NotImplemented
        st = ex.st
        rec = getattr(ex.contract, "c17b_cs_record", None)
        if cv.qualname == CS and rec is not None and len(args) == 1 and not kwargs:
            d = st.heap[args[0].id] if isinstance(args[0], Ref) else None
            if not isinstance(d, ListObj):
                raise Unsupported("CouplingStructure of something that is no list of disciplines")
            ex.assumed.add("model of CouplingStructure(disciplines): a record of name lists (all / strong / weak couplings) that is an uninterpreted function of "
                           "the sequence of disciplines (the graph computations are verified under C08)")
            lt = TList(d.t)
            term = lt.embed(st, args[0])
            from .values import _pattern_ok

            if not _pattern_ok(term):
                # (a sliced / computed list: name it, so that the record's lists can occur in triggers)
                named = st.fresh_const("cs_disciplines", lt.sort())
                i = z3.Int("i!csd")
                el = lt.dt.accessor(0, 1)(named)
                st.assume(lt.dt.accessor(0, 0)(named) == d.n)
                st.assume(z3.ForAll([i], z3.Implies(z3.And(0 <= i, i < d.n), el[i] == d.elems[i]), patterns=[el[i]]))
                term = named
            return SV(cs_of(rec, term), rec)
        opaque = getattr(ex.contract, "c17b_opaque", {})
        if cv.qualname in opaque:
            from . import contract as C

            key = opaque[cv.qualname]
            o = PyObj(cv.qualname, {})
            o.schema_key = key
            ref = st.alloc(o)
            for f, t in C.class_schema(key).items():
                o.fields[f] = t.fresh(st, f"new.{f}")
            ex.assumed.add(f"opaque construction of {cv.qualname}: a new object, no effect on the formulation")
            return ref
        return NotImplemented

    # MDF: the class-level MDA factory and its create(...)
    def class_constant(self, ex, ci, name):
        if getattr(ex.contract, "c17b_init", False) and ci.qualname == "gemseo.formulations.mdf.MDF" and name == "_MDF__mda_factory":
            from .values import BuiltinV

            return BuiltinV("c17.mda_factory")
        return NotImplemented

    def call_builtin(self, ex, name, args, kwargs, lineno, node=None):
        if not (getattr(ex.contract, "c17b_init", False) and name == "c17.mda_factory.create"):
            return NotImplemented
        from . import contract as C

        key = getattr(ex.contract, "c17b_mda_schema")
        o = PyObj("gemseo.mda.base_mda.BaseMDA", {})
        o.schema_key = key
        ref = ex.st.alloc(o)
        for f, t in C.class_schema(key).items():
            o.fields[f] = t.fresh(ex.st, f"mda.{f}")
        o.c17_created_from = list(args)
        ex.assumed.add("model of MDAFactory.create(name, disciplines, settings_model=...): a new MDA with an arbitrary coupling structure and input grammar "
                       "(the couplings of an MDA are those of its disciplines: C08), no effect on the formulation")
        return ref


# ---------------------------------------------------------------------- ConsistencyConstraint.__init__: captured collaborators
class _TRaw(T):
    """A field holding any engine-level value (bound method, object reference, None...): None at entry, stored as it is."""

    name = "Raw"

    def fresh(self, st, hint):
        return None

    def sort(self):
        raise Unsupported("raw values cannot be stored in symbolic containers")


TRaw = _TRaw()


class C17bCaptureModels:
    """Gated on ``c17b_capture = {class qualname: schema key}`` of the verified contract: the constructor call of such a class allocates an
    opaque new object (fresh fields of the schema) that remembers its constructor arguments (field ``c17_ctor`` = (args, kwargs)); the
    constructor body is not executed (assumed, listed in the evidence)."""

    def construct(self, ex, cv, args, kwargs, lineno):
        cap = getattr(ex.contract, "c17b_capture", None)
        if not cap or cv.qualname not in cap:
            return NotImplemented
        from . import contract as C

        key = cap[cv.qualname]
        o = PyObj(cv.qualname, {})
        o.schema_key = key
        ref = ex.st.alloc(o)
        for f, t in C.class_schema(key).items():
            o.fields[f] = t.fresh(ex.st, f"new.{f}")
        o.fields["c17_ctor"] = (tuple(args), tuple(sorted(kwargs.items(), key=lambda kv: kv[0])))
        ex.assumed.add(f"captured construction of {cv.qualname}(...): a new object with arbitrary attributes that remembers its constructor arguments; "
                       "the constructor body is not executed")
        return ref

    def coerce(self, ex, v, t):
        if t is TRaw or isinstance(t, _TRaw):
            return v
        return NotImplemented


# ---------------------------------------------------------------------- numpy: a[r0:r1, c0:c1] = M
class C17bNumpyModels:
    """Gated on ``c17b_np = True`` contracts (precise numpy model).

    ``a[r0:r1, c0:c1] = M`` for a rank-2 array ``a`` and a rank-2 value ``M``: numpy clips the two slices to the array (npmodel._slice_bounds),
    requires each dimension of ``M`` to be the one of the selected block or 1 (broadcast; ValueError otherwise) and overwrites the block
    element-wise, ``a[r0 + i, c0 + j] = M[i, j]``; everything else is unchanged."""

    def setitem(self, ex, cont, key, v, lineno):
        if not getattr(ex.contract, "c17b_np", False):
            return NotImplemented
        from .engine import PyRaise
        from .npmodel import NumpyModel, _arr, _conv, _is_arr

        if not (_is_arr(ex, cont) and _is_arr(ex, v) and isinstance(key, tuple) and len(key) == 2):
            return NotImplemented
        A, M = _arr(ex, cont), _arr(ex, v)
        if A.rank != 2 or M.rank != 2 or not all(isinstance(k, tuple) and k and k[0] == "slice" for k in key):
            return NotImplemented
        np_ = NumpyModel()
        if any(np_._is_full(k) for k in key):
            return NotImplemented
        (r0, nr), (c0, nc) = np_._slice_bounds(ex, key[0], A.shape[0]), np_._slice_bounds(ex, key[1], A.shape[1])
        unit = []
        for have, want in ((M.shape[0], nr), (M.shape[1], nc)):
            if np_.same(ex, have, want, lineno):
                unit.append(False)
            elif ex.st.decide(have == 1):
                unit.append(True)  # numpy broadcasting: a unit dimension of the value is repeated along the block
            else:
                raise PyRaise("ValueError", lineno)
        old, k, mk = A.elems, A.kind, M.kind
        i, j = z3.Int("i!np0"), z3.Int("i!np1")
        inside = z3.And(i >= r0, i < r0 + nr, j >= c0, j < c0 + nc)
        src = M.at(z3.IntVal(0) if unit[0] else i - r0, z3.IntVal(0) if unit[1] else j - c0)
        A.elems = z3.Lambda([i, j], z3.If(inside, _conv(src, mk, k), z3.Select(old, i, j)))
        ex.writeback(A)
        return True


class _TValTuple(T):
    """A field holding a concrete tuple of n opaque values (e.g. the 1-tuple of top-level disciplines of DisciplinaryOpt)."""

    def __init__(self, n):
        self.n = n
        self.name = f"ValTuple[{n}]"

    def fresh(self, st, hint):
        from .values import TVal

        return tuple(TVal.fresh(st, f"{hint}.{i}") for i in range(self.n))

    def sort(self):
        raise Unsupported("a concrete tuple cannot be stored in a symbolic container")


def TValTuple(n):
    return _TValTuple(n)


class C17bOpaqueValueModels:
    """Gated on ``c17b_opaque_values = {class qualname: function name}``: ``Class(list)`` is an opaque value, an uninterpreted function of the list
    (e.g. MDOChain(disciplines): a discipline whose inputs / outputs are those given by the uninterpreted c17_inputs_of / c17_outputs_of)."""

    def construct(self, ex, cv, args, kwargs, lineno):
        ov = getattr(ex.contract, "c17b_opaque_values", None)
        if not ov or cv.qualname not in ov or len(args) != 1 or kwargs:
            return NotImplemented
        from .values import TVal

        d = ex.st.heap[args[0].id] if isinstance(args[0], Ref) else None
        if not isinstance(d, ListObj):
            raise Unsupported(f"{cv.qualname} of something that is no list")
        lt = TList(d.t)
        ex.assumed.add(f"opaque construction of {cv.qualname}(disciplines): an opaque discipline, uninterpreted function of the sequence of disciplines")
        return SV(z3.Function(ov[cv.qualname], lt.sort(), ValS)(lt.embed(ex.st, args[0])), TVal)

    def coerce(self, ex, v, t):
        if isinstance(t, _TValTuple):
            return v
        return NotImplemented
