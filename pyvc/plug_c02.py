"""C02 (link level) plugin: the Python/numpy features DesignSpace needs to go from its per-variable view to its vector view.

Every hook only fires for contracts that opt in with ``c02_lnk = True``, so that no other property's verification conditions change.

* ``(d[x] for x in names)`` / ``[d[x] for x in names]`` over a symbolic sequence of names, d a dictionary of arrays: KeyError iff some name is
  no key of d (CPython: raised at the first missing one), otherwise the list of the values in iteration order (an array constant defined
  point-wise, E-matching friendly).
* ``([x] * m for v in seq)``: a sequence of constant vectors (numpy.concatenate converts each list to an array): vector k has
  max(m_k, 0) components equal to x_k.
* ``tuple(<list built by one of the two comprehensions>)``: the same immutable sequence.
* ``numpy.concatenate(<such a sequence of vectors>)``: blocks at the prefix sums of their lengths (the offset function of plug_c14's
  ``hstack`` model: recursive definition + the two consequences proved by induction; contracts/c02_more.py proves them again under C02:
  ``ConcatenationLemmas``).  A contract may cite further induction lemmas about these offsets through ``cat_lemmas(c, cat)``: the
  hypotheses of the cited lemma are generated as obligations (kind ``safety``, label ``cited-lemma-hypothesis:...``), its conclusion is then
  assumed (the lemma itself is a ``lemma = True`` contract of the property); an entry labelled ``derived:...`` is an intermediate fact that is
  proved on the spot (an obligation) before it is handed to the later proofs.
* ``slice(a, b)``, ``[slice(None)] * array.ndim`` (a concrete mutable list of slices), ``l[-1] = slice(..)``, ``tuple(l)``: the index expressions
  of ``split_array_to_dict_of_arrays``.
* ``a.nonzero()``: npmodel's enumeration, its "every non-zero position has a rank" axiom restated with the trigger ``a[i]``.
"""
from __future__ import annotations

import ast

import z3

from . import contract as C
from .npmodel import ArrObj, TArr, _arr, _is_arr
from .plug_c14 import C14Models
from .values import DictObj, HeapObj, ListObj, PyObj, Ref, SV, TBool, TInt, TReal, TStr, Unsupported, type_of_value

_c14 = C14Models()


def _on(ex):
    return getattr(ex.contract, "c02_lnk", False)


class CatInfo:
    """What a cited lemma may speak about: the offsets of the blocks, the sequence of vectors, the result."""

    def __init__(self, lens, L, res, off):
        self.lens, self.L, self.res, self.off = lens, L, res, off
        self.n = L.n
        self.res_elems = None  # elements of the concatenation (z3 array)


class SliceListObj(HeapObj):
    """A small mutable Python list of slice objects (``[slice(None)] * array.ndim``), kept concrete."""

    def __init__(self, items):
        self.items = list(items)

    def clone(self):
        c = SliceListObj(self.items)
        return c


class TypeMapObj(HeapObj):
    """DesignSpace.VARIABLE_TYPES_TO_DTYPES ({"integer": int64, "float": float64}) for contracts with `c02_int_as_real = True`."""

    def clone(self):
        return TypeMapObj()


def _int_as_real(ex):
    return _on(ex) and getattr(ex.contract, "c02_int_as_real", False)


def _is_slice(v):
    return isinstance(v, tuple) and len(v) == 4 and v[0] == "slice"


class C02Models:
    # ------------------------------------------------------------------ integer arrays as their real images (opt-in: `c02_int_as_real = True`)
    def class_constant(self, ex, ci, name):
        if _int_as_real(ex) and name == "VARIABLE_TYPES_TO_DTYPES" and ci.qualname.endswith("DesignSpace"):
            return ex.st.alloc(TypeMapObj())
        return NotImplemented

    def getitem(self, ex, cont, key, lineno):
        if isinstance(cont, Ref) and isinstance(ex.st.heap.get(cont.id), TypeMapObj):
            from .engine import PyRaise
            from .npmodel import DTYPE
            from .values import str_lit

            st = ex.st
            kt = TStr.embed(st, key)
            if st.decide(kt == str_lit("integer")):
                return DTYPE.mk(st, kind="i")
            if st.decide(kt == str_lit("float")):
                return DTYPE.mk(st, kind="f")
            raise PyRaise("KeyError", lineno)
        return NotImplemented

    # ------------------------------------------------------------------ lists of slices (split_array_to_dict_of_arrays)
    def binop(self, ex, op, a, b, lineno, inplace=False):
        if _on(ex) and op == "Mult" and isinstance(a, tuple) and a and all(_is_slice(x) for x in a) and isinstance(b, int) and not isinstance(b, bool):
            return ex.st.alloc(SliceListObj(list(a) * b))
        return NotImplemented

    def setitem(self, ex, cont, key, v, lineno):
        if isinstance(cont, Ref) and isinstance(ex.st.heap.get(cont.id), SliceListObj):
            from .engine import PyRaise

            o = ex.st.heap[cont.id]
            if not isinstance(key, int) or not _is_slice(v):
                raise Unsupported("list of slices: store with a symbolic index / of a non-slice")
            if not -len(o.items) <= key < len(o.items):
                raise PyRaise("IndexError", lineno)
            o.items[key] = v
            return True
        return NotImplemented

    # ------------------------------------------------------------------ comprehensions
    def comprehension(self, ex, node, kind):
        if not _on(ex) or kind not in ("gen", "list") or len(node.generators) != 1:
            return NotImplemented
        gen = node.generators[0]
        if gen.ifs or gen.is_async or not isinstance(gen.target, ast.Name):
            return NotImplemented
        elt = node.elt
        tname = gen.target.id
        shape = None
        if isinstance(elt, ast.Subscript) and isinstance(elt.slice, ast.Name) and elt.slice.id == tname and \
                not any(isinstance(x, ast.Name) and x.id == tname for x in ast.walk(elt.value)):
            shape = "lookup"
        elif isinstance(elt, ast.BinOp) and isinstance(elt.op, ast.Mult) and isinstance(elt.left, ast.List) and len(elt.left.elts) == 1:
            shape = "repeat"
        if shape is None:
            return NotImplemented
        st = ex.st
        from .engine import PyRaise

        src = ex.ev(gen.iter)
        seq = ex.to_iter(src, node.lineno)
        if seq.concrete is not None:
            return NotImplemented
        i = z3.Int("i!c2")
        rng = z3.And(0 <= i, i < seq.n)
        if shape == "lookup":
            d = ex.ev(elt.value)
            o = st.heap.get(d.id) if isinstance(d, Ref) else None
            if not isinstance(o, DictObj) or o.is_empty_literal or not isinstance(o.v, TArr):
                return NotImplemented
            bi = st.fresh_int("ci")
            key = lambda t: z3.substitute(o.k.embed(st, seq.elem(bi)), (bi, t))  # noqa: E731
            present = z3.ForAll([i], z3.Implies(rng, o.member[key(i)]))
            if not st.decide(present):
                raise PyRaise("KeyError", node.lineno)
            t = o.v
            els = st.fresh_const("lkp", z3.ArraySort(z3.IntSort(), t.sort()))
            body = z3.Implies(rng, els[i] == o.vals[key(i)])
            st.assume(z3.ForAll([i], body, patterns=[els[i]]))
            lo = ListObj(t, seq.n, els)
        else:
            fr = ex.frame
            saved = dict(fr.env)
            bi = st.fresh_int("ci")
            ex.no_fork = True
            try:
                ex.assign(gen.target, seq.elem(bi))
                x = ex.ev(elt.left.elts[0])
                m = ex.ev(elt.right)
            finally:
                ex.no_fork = False
                fr.env.clear()
                fr.env.update(saved)
            mt = ex.num(m)
            if mt is None or mt[1] != TInt:
                return NotImplemented
            if isinstance(x, bool):
                x = SV(z3.BoolVal(x), TBool)
            if not (isinstance(x, SV) and x.ty in (TBool, TInt, TReal)):
                raise Unsupported("[x] * m in a comprehension: x is not a scalar")
            kind_ = {TBool: "b", TInt: "i", TReal: "f"}[x.ty]
            t = TArr(kind_, 1)
            ln = z3.If(mt[0] > 0, mt[0], z3.IntVal(0))
            els = st.fresh_const("rep", z3.ArraySort(z3.IntSort(), t.sort()))
            j = z3.Int("j!c2")
            at = lambda f: z3.substitute(f, (bi, i))  # noqa: E731
            st.assume(z3.ForAll([i], z3.Implies(rng, z3.And(t.dim(els[i]) == at(ln), t.dim(els[i]) >= 0)), patterns=[els[i]]))
            st.assume(z3.ForAll([i, j], z3.Implies(z3.And(rng, 0 <= j, j < at(ln)), t.els(els[i])[j] == at(x.term)), patterns=[t.els(els[i])[j]]))
            lo = ListObj(t, seq.n, els)
        lo.c02_seq = True
        st.assume(seq.n >= 0)
        return st.alloc(lo)

    # ------------------------------------------------------------------ pydantic's Variable with precise bound arrays
    def construct(self, ex, cv, args, kwargs, lineno):
        if not _on(ex) or cv.qualname != "gemseo.algos._variable.Variable" or args:
            return NotImplemented
        from .engine import PyRaise
        from .npmodel import NumpyModel

        ct = ex.contract
        rec = getattr(ct, "variable_record", None)
        if rec is None:
            return NotImplemented
        st = ex.st
        f1 = rec.fields["lower_bound"]
        size = kwargs.get("size", 1)
        ty = kwargs.get("type", "float")
        sz = TInt.embed(st, size)
        tt = TStr.embed(st, ty)
        np_ = NumpyModel()
        bounds = []
        for key, default in (("lower_bound", float("-inf")), ("upper_bound", float("inf"))):
            b = kwargs.get(key, default)
            if _is_arr(ex, b):
                A = _arr(ex, b)
                if A.rank != 1:
                    raise PyRaise("ValueError", lineno)
                if A.kind != "f":
                    b = np_.call_method(ex, b, "np.astype", ["float"], {}, lineno)  # (bound arrays are real vectors in this model: an int64 array is its real image)
            else:
                raise Unsupported("Variable(...) with a scalar bound at the link level")
            bounds.append(b)
        lbt, ubt = f1.embed(st, bounds[0]), f1.embed(st, bounds[1])
        valid = z3.Function("variable_valid_a", z3.IntSort(), TStr.sort(), f1.sort(), f1.sort(), z3.BoolSort())
        # validation (model_validator): PositiveInt size, bounds of `size` components, no NaN, integer bounds for an integer variable, lb <= ub
        # (the last three as one uninterpreted predicate of the arguments); an ndarray bound is stored as it is
        ok = z3.And(sz >= 1, f1.dim(lbt) == sz, f1.dim(ubt) == sz, valid(sz, tt, lbt, ubt))
        if not st.decide(ok):
            raise PyRaise("ValueError", lineno)
        from .values import str_lit

        st.assume(z3.Or(tt == str_lit("float"), tt == str_lit("integer")))  # `type: DataType` is validated by pydantic
        ex.assumed.add("pydantic model Variable (precise bounds): construction either raises a ValueError or yields size >= 1 and the given bound arrays, "
                       "each of `size` components (assumed)")
        return rec.mk(st, size=size, type=ty, lower_bound=bounds[0], upper_bound=bounds[1])

    # ------------------------------------------------------------------ attributes
    def value_attr(self, ex, obj, attr, lineno):
        if _on(ex) and attr == "real" and isinstance(obj, SV) and obj.ty in (TReal, TInt):
            return obj  # the real part of a real number (complex values are not covered)
        return NotImplemented

    # ------------------------------------------------------------------ array methods
    def call_method(self, ex, recv, name, args, kwargs, lineno):
        if _int_as_real(ex) and name == "np.astype" and _is_arr(ex, recv) and _arr(ex, recv).kind == "f" and len(args) == 1 and not kwargs:
            from .npmodel import DTYPE, NumpyModel, _conv

            d = args[0]
            if isinstance(d, SV) and d.ty == DTYPE and NumpyModel()._kind_of_dtype(ex, d) == "i":
                # x.astype(int64) of a real vector, the integer array being represented by its real image: truncation toward zero (a new array)
                A = _arr(ex, recv)
                np_ = NumpyModel()
                ex.assumed.add("an int64 array is represented by its real image: astype(int64) of a real vector = component-wise truncation toward zero")
                return np_.new(ex, "f", A.shape, np_.lam(A.rank, lambda *i: z3.ToReal(_conv(A.at(*i), "f", "i"))))
        if not _on(ex) or name != "np.nonzero" or args or kwargs or not _is_arr(ex, recv) or _arr(ex, recv).rank != 1:
            return NotImplemented
        # a.nonzero(): npmodel's strictly increasing enumeration of the non-zero positions; its third axiom ("every non-zero position is
        # enumerated": rank) is stated once more with the element a[i] as trigger, so that a proof about position i finds its rank
        from .npmodel import NumpyModel, _conv

        st = ex.st
        A = _arr(ex, recv)
        np_ = NumpyModel()
        m, idx = np_._nonzero(ex, A)
        rank = st.ghost["nonzero_rank"][idx.get_id()]
        i = z3.Int("i!nz2")
        body = z3.Implies(z3.And(0 <= i, i < A.shape[0], _conv(A.elems[i], A.kind, "b")), z3.And(0 <= rank[i], rank[i] < m, idx[rank[i]] == i))
        pats = []
        if z3.is_const(A.elems):
            pats = [A.elems[i]]
        else:
            # a computed mask (e.g. x < lb): its element i is a formula over elements v[i] of array constants; each of them is a trigger
            stack, seen = [z3.simplify(A.elems[i])], set()
            while stack:
                t = stack.pop()
                if t.get_id() in seen or z3.is_quantifier(t):
                    continue
                seen.add(t.get_id())
                if z3.is_app(t) and t.decl().kind() == z3.Z3_OP_SELECT and t.num_args() == 2 and t.arg(1).eq(i) and z3.is_const(t.arg(0)) \
                        and t.arg(0).decl().kind() == z3.Z3_OP_UNINTERPRETED:
                    pats.append(t)
                    continue
                stack.extend(t.children())
        for p in pats:
            try:
                st.assume(z3.ForAll([i], body, patterns=[p]))
            except z3.Z3Exception:
                pass
        # ground instance of the first enumeration axiom at the first enumerated position (a non-empty enumeration has a first element)
        st.assume(z3.Implies(m > 0, z3.And(0 <= idx[0], idx[0] < A.shape[0], _conv(A.elems[idx[0]], A.kind, "b"))))
        return (np_.new(ex, "i", (m,), idx),)

    # ------------------------------------------------------------------ builtins / numpy functions
    def call_builtin(self, ex, name, args, kwargs, lineno, node=None):
        if not _on(ex):
            return NotImplemented
        st = ex.st
        if name == "tuple" and len(args) == 1 and isinstance(args[0], Ref) and getattr(st.heap.get(args[0].id), "c02_seq", False):
            return args[0]
        if name == "tuple" and len(args) == 1 and isinstance(args[0], Ref) and isinstance(st.heap.get(args[0].id), SliceListObj):
            return tuple(st.heap[args[0].id].items)
        if name == "slice" and not kwargs and 1 <= len(args) <= 2:
            # slice(stop) / slice(start, stop): the engine's representation of a[start:stop]
            return ("slice", None, args[0], None) if len(args) == 1 else ("slice", args[0], args[1], None)
        if name == "numpy.concatenate" and len(args) == 1 and not kwargs and isinstance(args[0], Ref) and isinstance(st.heap[args[0].id], ListObj) \
                and isinstance(st.heap[args[0].id].t, TArr) and st.heap[args[0].id].t.rank == 1:
            L = st.heap[args[0].id]
            res = _c14._hstack_vectors(ex, L, L.t)
            ex.assumed.add("numpy.concatenate of a sequence of vectors = numpy.hstack of it (same block placement)")
            lens = st.heap[res.id].hstack_of[0]
            from .plug_c14 import hs_off

            cat = CatInfo(lens, L, res, lambda t: hs_off(lens, t))
            cat.res_elems = st.heap[res.id].elems
            st.ghost.setdefault("c02_cats", []).append(cat)
            hook = getattr(ex.contract, "cat_lemmas", None)
            if hook is not None and ex.frame.finfo is ex.finfo:
                c = C.Ctx(st, ex._entry_heap(), st.heap, ex._entry_args())
                c.locals = {n: C.View(st.heap, v, st)._wrap(v) for n, v in ex.frame.env.items()}
                for label, hyps, concl in hook(c, cat):
                    if label.startswith("derived:"):
                        # an intermediate fact about the concatenation, PROVED here (an obligation) and then available to the later proofs
                        ex.check(concl, "safety", label, lineno, aux=True, assume_after=False)
                        st.assume(concl)
                        continue
                    for hl, h in hyps:
                        ex.check(h, "safety", f"cited-lemma-hypothesis:{label}:{hl}", lineno, aux=True)
                    st.assume(concl)
                    ex.assumed.add(f"cited lemma (proved as a lemma contract of the property; hypotheses checked here): {label}")
            return res
        return NotImplemented
