"""C09 plugin (chains: request cache of MDOChain, Jacobians of parallel / additive chains).

Every hook is gated on contracts that opt in with ``c09_chains = True`` (or on the plugin's own types), so that the
verification conditions of the other properties do not change.

Modelled (real Python semantics unless stated otherwise):

* ``x[i]`` for ``x`` an optional tuple (``TOpt(TTuple(..))``): ``TypeError`` when ``x`` is None, the item otherwise.
* ``CouplingStructure(disciplines)`` (ASSUMED constructor model, listed in the evidence): a new object whose ``graph.graph`` is the
  dependency graph of the given disciplines, as specified by the contract VERIFIED on ``DependencyGraph.__create_graph``
  (nodes = the disciplines, an edge u -> v iff u != v and some output of u is an input of v, edge attribute io = the shared names).
  The constructor's other work (consistency check, execution sequence, node naming) is not modelled.
* Opaque disciplines (sort ``Disc``) with Jacobians: ``discipline.jac`` is the slot of the discipline in the ghost dictionary
  ``self._c09_disc_jacs`` (``Disc -> {output: {input: rank-2 array}}``, value-embedded: a block read out of it is *the block of that slot*,
  an in-place modification is written back to the slot, so that a frame clause on the ghost dictionary sees it).
* Concrete-shape types for bounded stand-ins: ``TDiscTuple(n)`` (a tuple of n opaque disciplines), ``TNameTuple(n)`` (n symbolic names).
* List comprehensions whose elements are arrays: over a concrete sequence the result is the concrete sequence of *the very arrays*
  (no copy: aliasing with the slots they were read from is kept); over a symbolic sequence with a filter, the comprehension is kept as a
  conditional sequence (``CondSeq``) that may only be consumed by ``assert seq`` / ``if seq`` (truth = some element is kept) and ``sum(seq)``;
  ``d.get(k, ())`` in the filter of such a comprehension is the dict ``d[k]`` when the key is present and the empty tuple otherwise (``MaybeDict``).
* ``sum(CondSeq of rank-2 arrays)``: Python's left fold ``0 + e_0 + e_1 ...`` over the kept elements, expressed as the conditional fold
  ``cfold(S, C, n)`` over the source sequence (adding nothing for the skipped ones) - the two are equal by induction on n; element shapes
  must agree (``ValueError`` otherwise: numpy broadcasting of unequal shapes is not modelled beyond equal shapes).
* ``outer[k] = inner`` for a dict of dicts: the stored dict object becomes the dict of that slot (later mutations through the local name
  are written back: Python reference semantics for an object stored in a single slot).
* dict subscripts inside a comprehension element (no forking possible there): the obligation ``comprehension-key-present`` is generated
  when the key is not known to be present (a KeyError inside the comprehension is then a failed obligation).
"""
from __future__ import annotations

import z3

from .npmodel import ArrObj, NumpyModel, TArr, _arr, _is_arr
from .plug_graph import DLIST, DiscS, TDisc, in_names, out_names, set_member
from .values import (DictObj, ListObj, PyObj, Ref, SV, T, TBool, TDict, TObj, TOpt, TStr, TTuple, StrS, Unsupported, forall_pat)

_NP = NumpyModel()
F2 = TArr("f", 2)
I = z3.IntSort()  # noqa: E741
ELS = z3.ArraySort(I, I, z3.RealSort())  # elements of a rank-2 real array
SEQ_ELS = z3.ArraySort(I, ELS)
SEQ_B = z3.ArraySort(I, z3.BoolSort())
# cfold(S, C, n) = sum over t < n with C[t] of S[t]   (element-wise, left to right, starting from 0)
cfold = z3.Function("c09_cfold", SEQ_ELS, SEQ_B, I, ELS)

CS = "gemseo.core.coupling_structure.CouplingStructure"
JACT = TDict(TStr, TDict(TStr, F2))  # {output: {input: block}}
ALLJAC = TDict(TDisc, JACT)


def cfold_axioms():
    """Definition of the conditional left fold (used by lemmas only; the proofs of the chain contracts do not unfold it)."""
    S, C = z3.Const("S!cf", SEQ_ELS), z3.Const("C!cf", SEQ_B)
    n, i, j = z3.Ints("n!cf i!cf j!cf")
    return [
        z3.ForAll([S, C, i, j], z3.Select(cfold(S, C, 0), i, j) == 0, patterns=[z3.Select(cfold(S, C, 0), i, j)]),
        z3.ForAll([S, C, n, i, j], z3.Implies(n >= 0, z3.Select(cfold(S, C, n + 1), i, j) == z3.Select(cfold(S, C, n), i, j) + z3.If(C[n], z3.Select(S[n], i, j), z3.RealVal(0))),
                  patterns=[z3.Select(cfold(S, C, n + 1), i, j)]),
    ]


def _on(ex):
    return getattr(ex.contract, "c09_chains", False)


class TDiscTuple(T):
    """A concrete tuple of n opaque disciplines (bounded stand-in)."""

    def __init__(self, n):
        self.n, self.name = n, f"DiscTuple[{n}]"

    def sort(self):
        raise Unsupported(f"{self} cannot be stored in a symbolic container")

    def fresh(self, st, hint):
        return tuple(SV(st.fresh_const(f"{hint}_{i}", DiscS), TDisc) for i in range(self.n))


class TNameTuple(T):
    """A concrete tuple of n symbolic names (bounded stand-in)."""

    def __init__(self, n):
        self.n, self.name = n, f"NameTuple[{n}]"

    def sort(self):
        raise Unsupported(f"{self} cannot be stored in a symbolic container")

    def fresh(self, st, hint):
        return tuple(SV(st.fresh_const(f"{hint}_{i}", StrS), TStr) for i in range(self.n))


def some_kept(n, cond_at):
    """some element t < n satisfies the filter (one construction for the model and for the specifications)"""
    t = z3.Int("t!cs")
    return z3.Exists([t], z3.And(0 <= t, t < n, cond_at(t)))


class CondSeq:
    """[val(t) for t in seq if cond(t)] over a symbolic sequence, elements = rank-2 real arrays (embedded terms)."""

    def __init__(self, n, cond_at, val_at):
        self.n, self.cond_at, self.val_at = n, cond_at, val_at


class MaybeDict:
    """d.get(k, ()) inside a comprehension element (no fork possible there): the dict d[k] when ``present``, the empty tuple otherwise;
    only membership tests are supported on it."""

    def __init__(self, present, ref):
        self.present, self.ref = present, ref


class C09Models:
    # ------------------------------------------------------------------ optional tuples
    def getitem(self, ex, cont, key, lineno):
        if not _on(ex):
            return NotImplemented
        st = ex.st
        from .engine import PyRaise

        if isinstance(cont, SV) and isinstance(cont.ty, TOpt) and isinstance(cont.ty.inner, TTuple) and isinstance(key, int) and not isinstance(key, bool):
            if st.decide(cont.ty.is_none(cont.term)):
                raise PyRaise("TypeError", lineno)  # 'NoneType' object is not subscriptable
            items = cont.ty.inner.project(st, cont.ty.dt.get(cont.term))
            if not -len(items) <= key < len(items):
                raise PyRaise("IndexError", lineno)
            return items[key]
        if ex.no_fork and isinstance(cont, Ref) and isinstance(st.heap[cont.id], DictObj) and not st.heap[cont.id].is_empty_literal:
            # inside a comprehension element: a possibly missing key is an obligation instead of a fork
            o = st.heap[cont.id]
            kt = o.k.embed(st, key)
            m = z3.simplify(o.member[kt])
            if not z3.is_true(m) and st.solver.check(z3.Not(m)) != z3.unsat:
                ex.check(m, "safety", "comprehension-key-present", lineno, aux=True)
                rec = st.ghost.get("c09_key_facts")
                if rec is not None:
                    rec.append((m, st.ghost.get("c09_cond")))
            return o.v.project(st, o.vals[kt], (cont, kt, "dict"))
        return NotImplemented

    # ------------------------------------------------------------------ a dict stored in a dict of dicts stays the dict of that slot
    def setitem(self, ex, cont, key, v, lineno):
        """outer[k] = inner for a dict of dicts (value-embedded): the stored dict object becomes *the dict of that slot*, so that later
        mutations through the local name are written back (Python reference semantics, as long as it is stored in that single slot)."""
        if not (_on(ex) and isinstance(cont, Ref) and isinstance(v, Ref)):
            return NotImplemented
        st = ex.st
        o, h = st.heap[cont.id], st.heap[v.id]
        if not (isinstance(o, DictObj) and isinstance(h, DictObj) and not o.is_empty_literal and isinstance(o.v, TDict) and h.origin is None):
            return NotImplemented
        ex.coerce(v, o.v)  # (types an empty literal)
        kt = o.k.embed(st, key)
        o.set(st, kt, o.v.embed(st, v))
        ex.writeback(o)
        h.origin, h.ty = (cont, kt, "dict"), o.v
        return True

    # ------------------------------------------------------------------ CouplingStructure(disciplines)
    def construct(self, ex, cv, args, kwargs, lineno):
        if not (_on(ex) and cv.qualname == CS and len(args) == 1 and not kwargs):
            return NotImplemented
        from contracts.c08_dependency import graph_is_dependency_graph, in_list  # the specification verified on __create_graph

        st = ex.st
        L = args[0]
        lo = st.heap[L.id] if isinstance(L, Ref) else None
        if not isinstance(lo, ListObj) or lo.t != TDisc:
            raise Unsupported("CouplingStructure(<not a list of opaque disciplines>)")
        key = getattr(ex.contract, "c09_cs_schema", None)
        ref = TObj(CS, schema_key=key).fresh(st, "cs")
        g = st.heap[st.heap[st.heap[ref.id].fields["graph"].id].fields["_DependencyGraph__graph"].id]
        nodes = st.heap[g.fields["_nodes"].id]
        d = z3.Const("d!csn", DiscS)

        class _LV:  # list view for in_list
            n, elems = lo.n, lo.elems

        st.assume(z3.ForAll([d], nodes.member[d] == in_list(_LV, d, "csn")))
        for _, f in graph_is_dependency_graph(nodes, g.fields["edge"].term, g.fields["io"].term):
            st.assume(f)
        ex.assumed.add("CouplingStructure(disciplines): a new object whose graph.graph is the dependency graph of the disciplines as specified by the "
                       "contract verified on DependencyGraph.__create_graph (constructor plumbing not executed: assumed)")
        return ref

    # ------------------------------------------------------------------ discipline.jac
    def value_attr(self, ex, obj, attr, lineno):
        if not (_on(ex) and attr == "jac" and isinstance(obj, SV) and obj.ty.sort() == DiscS):
            return NotImplemented
        st = ex.st
        owner = ex.entry_args.get("self")
        oo = st.heap[owner.id] if isinstance(owner, Ref) else None
        if not isinstance(oo, PyObj) or "_c09_disc_jacs" not in oo.fields:
            raise Unsupported("discipline.jac without the ghost dictionary _c09_disc_jacs in the schema of self")
        aref = oo.fields["_c09_disc_jacs"]
        A = st.heap[aref.id]
        return JACT.project(st, A.vals[obj.term], (aref, obj.term, "dict"))

    # ------------------------------------------------------------------ comprehensions producing arrays
    def comprehension(self, ex, node, kind):
        if not (_on(ex) and kind == "list" and len(node.generators) == 1 and not node.generators[0].is_async):
            return NotImplemented
        st = ex.st
        gen = node.generators[0]
        src = ex.ev(gen.iter)
        seq = ex.to_iter(src, node.lineno)
        fr = ex.frame
        saved = dict(fr.env)
        try:
            if seq.concrete is not None:
                items = []
                for x in seq.concrete:
                    ex.assign(gen.target, x)
                    if all(st.decide(ex.truth(ex.ev(c))) for c in gen.ifs):
                        items.append(ex.ev(node.elt))
                if items and all(_is_arr(ex, x) for x in items):
                    return tuple(items)  # the very arrays (a Python list of them; it is only read by the verified code)
                if not items:
                    return ()
                return ex.models.make_list(ex, items)
            if not gen.ifs:
                return NotImplemented
            bi = st.fresh_int("ci")
            npc = len(st.pc)
            depth = len(st.dec.trail)
            ex.no_fork = True
            st.solver.push()
            st.ghost["c09_key_facts"], st.ghost["c09_cond"] = [], None
            try:
                st.assume(z3.And(0 <= bi, bi < seq.n))
                ex.assign(gen.target, seq.elem(bi))
                conds = [ex.truth_term(ex.ev(c)) for c in gen.ifs]
                cond = z3.And(*conds) if len(conds) > 1 else conds[0]
                st.assume(cond)  # the element expression is only evaluated for the kept elements
                st.ghost["c09_cond"] = cond
                val = ex.ev(node.elt)
            finally:
                ex.no_fork = False
                st.solver.pop()
                key_facts = st.ghost.pop("c09_key_facts")
                st.ghost.pop("c09_cond", None)
            if len(st.dec.trail) != depth:
                raise Unsupported(f"comprehension element forks at line {node.lineno}")
            del st.pc[npc:]
            # the comprehension completed: every subscript evaluated for an element found its key (checked above for the generic element)
            tq = z3.Int("t!kf")
            for m, cnd in key_facts:
                rng = z3.And(0 <= tq, tq < seq.n) if cnd is None else z3.And(0 <= tq, tq < seq.n, z3.substitute(cnd, (bi, tq)))
                mt = z3.substitute(m, (bi, tq))
                st.assume(forall_pat([tq], z3.Implies(rng, mt), mt))
            if not _is_arr(ex, val) or _arr(ex, val).rank != 2 or _arr(ex, val).kind != "f":
                raise Unsupported("filtered comprehension over a symbolic sequence whose elements are not rank-2 real arrays")
            e = F2.embed(st, val)
            return CondSeq(seq.n, lambda t: z3.substitute(cond, (bi, t)), lambda t: z3.substitute(e, (bi, t)))
        finally:
            fr.env.clear()
            fr.env.update(saved)

    def truth(self, ex, v):
        if isinstance(v, CondSeq):
            return some_kept(v.n, v.cond_at)
        return NotImplemented

    def call_method(self, ex, recv, name, args, kwargs, lineno):
        # d.get(k, ()) on a dict of dicts inside a comprehension element
        st = ex.st
        if not (_on(ex) and ex.no_fork and name == "get" and len(args) == 2 and args[1] == () and not kwargs and isinstance(recv, Ref)):
            return NotImplemented
        o = st.heap[recv.id]
        if not isinstance(o, DictObj) or o.is_empty_literal or not isinstance(o.v, TDict):
            return NotImplemented
        kt = o.k.embed(st, args[0])
        return MaybeDict(o.member[kt], o.v.project(st, o.vals[kt], (recv, kt, "dict")))

    def contains(self, ex, cont, item, lineno):
        if isinstance(cont, MaybeDict):
            inner = ex.st.heap[cont.ref.id]
            return SV(z3.And(cont.present, inner.member[inner.k.embed(ex.st, item)]), TBool)
        return NotImplemented

    def call_builtin(self, ex, name, args, kwargs, lineno, node=None):
        if not (_on(ex) and name == "sum" and len(args) == 1 and not kwargs and isinstance(args[0], CondSeq)):
            return NotImplemented
        from .engine import PyRaise

        st = ex.st
        v = args[0]
        t, t2 = z3.Ints("t!sm t2!sm")
        some = some_kept(v.n, v.cond_at)
        if not any(f.eq(some) for f in st.pc) and not st.decide(some):  # (already known on the path after `if seq:`)
            return 0  # sum([]) == 0
        # all the kept elements have the same shape (else: ValueError of the element-wise addition / broadcasting, not modelled further)
        same = z3.ForAll([t, t2], z3.Implies(z3.And(0 <= t, t < v.n, v.cond_at(t), 0 <= t2, t2 < v.n, v.cond_at(t2)),
                                             z3.And(F2.dim(v.val_at(t), 0) == F2.dim(v.val_at(t2), 0), F2.dim(v.val_at(t), 1) == F2.dim(v.val_at(t2), 1))))
        if not st.decide(same):
            raise PyRaise("ValueError", lineno)
        w = st.fresh_int("kept")
        st.assume(z3.And(0 <= w, w < v.n, v.cond_at(w)))
        S = z3.Lambda([t], F2.els(v.val_at(t)))
        C = z3.Lambda([t], v.cond_at(t))
        ex.assumed.add("sum([e(t) for t in seq if c(t)]) of equally shaped arrays = the conditional left fold cfold over the source sequence (equal by induction)")
        r = _NP.new(ex, "f", (F2.dim(v.val_at(w), 0), F2.dim(v.val_at(w), 1)), cfold(S, C, v.n))
        st.ghost.setdefault("c09_sums", []).append((S, C, v.n))
        return r
