"""Symbolic executor over the real AST -> verification conditions (DESIGN.md §2.1-2.3).

Paths are enumerated by re-execution from the function entry under a decision script
(state.Decisions); a loop with an invariant contributes two sub-paths (arbitrary iteration,
exit); calls are replaced by callee contracts, or inlined from the real source when the callee has
no contract and is small glue.
"""
from __future__ import annotations

import ast
from fractions import Fraction

import z3

from . import contract as C
from . import source as S
from .state import Decisions, Obligation, PathEnd, State, Undecided, _has_quantifier, all_hyps
from .values import (UNBOUND, BoundMethod, BuiltinV, ClassV, DictObj, ExcObj, FuncV, FunV, ListObj, ModuleV, PyObj, RecV, Ref, SetObj, SV,
                     T, TAddr, TBool, TDict, TFun, TInt, TList, TObj, TOpt, TRange, TReal, TRec, TSet, TStr, TStruct, TTuple, TVal, Unsupported,
                     is_concrete, str_lit, type_of_value, val_none)

MAX_INLINE_DEPTH = 14
MAX_PATHS = 4000


class PyRaise(Exception):
    def __init__(self, cls: str, lineno: int = 0, payload=None):
        self.cls, self.lineno, self.payload = cls, lineno, payload


class ReturnSig(Exception):
    def __init__(self, value):
        self.value = value


class BreakSig(Exception):
    pass


class ContinueSig(Exception):
    pass


class IterV:
    """A symbolic finite sequence: length term + element function (index term -> Value)."""

    def __init__(self, n, elem, concrete=None):
        self.n, self.elem, self.concrete = n, elem, concrete


class LambdaV:
    def __init__(self, node, frame):
        self.node, self.frame = node, frame


class SuperV:
    def __init__(self, recv, after: str):
        self.recv, self.after = recv, after


class Frame:
    def __init__(self, finfo, env):
        self.finfo = finfo
        self.env = env
        self.module = finfo.module
        self.cls = finfo.cls
        self.loop_ids = {}
        n = 0
        for node in ast.walk(finfo.node):
            pass
        # loops numbered in source order (by position)
        loops = [x for x in ast.walk(finfo.node) if isinstance(x, (ast.For, ast.While))]
        loops.sort(key=lambda x: (x.lineno, x.col_offset))
        for i, x in enumerate(loops):
            self.loop_ids[id(x)] = i
        self.local_names = {x.id for x in ast.walk(finfo.node) if isinstance(x, ast.Name) and isinstance(x.ctx, ast.Store)}
        a = finfo.node.args
        for arg in a.posonlyargs + a.args + a.kwonlyargs:
            self.local_names.add(arg.arg)


BUILTIN_EXC = {
    "BaseException": [], "Exception": ["BaseException"], "KeyError": ["LookupError"], "LookupError": ["Exception"],
    "IndexError": ["LookupError"], "ValueError": ["Exception"], "TypeError": ["Exception"], "AttributeError": ["Exception"],
    "RuntimeError": ["Exception"], "NotImplementedError": ["RuntimeError"], "ZeroDivisionError": ["ArithmeticError"],
    "ArithmeticError": ["Exception"], "UnboundLocalError": ["NameError"], "NameError": ["Exception"], "StopIteration": ["Exception"],
    "AssertionError": ["Exception"], "OSError": ["Exception"], "KeyboardInterrupt": ["BaseException"], "ImportError": ["Exception"],
    "FloatingPointError": ["ArithmeticError"], "OverflowError": ["ArithmeticError"],
}


def exc_is_subclass(cls: str, base: str) -> bool:
    """``cls`` / ``base``: qualified or bare names."""
    cshort, bshort = cls.rsplit(".", 1)[-1], base.rsplit(".", 1)[-1]
    if cshort == bshort:
        return True
    if cshort in BUILTIN_EXC and "." not in cls:
        return any(exc_is_subclass(b, base) for b in BUILTIN_EXC[cshort])
    ci = S.load_class(cls)
    if ci is None:
        return False
    return any(exc_is_subclass(b, base) for b in ci.bases)


class Executor:
    def __init__(self, contract, finfo, prop: str, models, extra_env=None):
        self.contract, self.finfo, self.prop = contract, finfo, prop
        self.models = models
        self.obligations: dict = {}
        self.inlined: set = set()
        self.callee_contracts: set = set()
        self.assumed: set = set()
        self.n_paths = 0
        self.st: State | None = None
        self.short = finfo.qualname.split("gemseo.", 1)[-1]
        self._seq = 0

    # ------------------------------------------------------------------ driver
    def run(self):
        dec = Decisions()
        while not dec.done:
            dec.start_run()
            self.st = State(dec)
            self.st.ex = self
            self._seq = 0
            self._loop_pre = None
            self.n_paths += 1
            if self.n_paths > MAX_PATHS:
                raise Undecided(f"more than {MAX_PATHS} paths in {self.finfo.qualname}")
            try:
                self.run_once()
            except PathEnd:
                pass
            except Unsupported:
                # an unsupported construct only matters on a feasible path: decide with the full path condition
                s = z3.Solver()
                s.set("timeout", 8000)
                for f in all_hyps(self.st.pc):
                    s.add(f)
                if s.check() != z3.unsat:
                    raise
            dec.finish_run()
        return list(self.obligations.values())

    def _spec(self, fn, *args):
        """Evaluate a specification callback; a specification that names a local / field / result shape the code no longer has
        (renamed local, different return shape...) makes the check undecided, not a crash and not a violation."""
        try:
            return list(fn(*args))
        except (KeyError, AttributeError, IndexError, TypeError) as e:
            if isinstance(e, (Unsupported, Undecided)):
                raise
            raise Undecided(f"specification {getattr(fn, '__qualname__', fn)} does not match the code any more: {type(e).__name__}: {e}") from e

    def check(self, goal, kind, label, lineno=0, aux=False, tracked=None, assume_after=True):
        st = self.st
        self._seq += 1
        if isinstance(goal, bool):
            goal = z3.BoolVal(goal)
        g = z3.simplify(goal) if not z3.is_quantifier(goal) else goal
        key = (st.dec.prefix(), self._seq, kind, label, lineno)
        if key not in self.obligations:
            n = len(self.obligations)
            name = f"{self.prop}/{self.short}/{kind}:{label}@L{lineno}#{n}"
            ob = Obligation(name, kind, self.finfo.qualname, lineno, all_hyps(st.pc) if not z3.is_true(g) else [], goal, label, aux, st.dec.prefix(),
                            prop=self.prop, tracked=dict(tracked or {}), tracked_regions=dict(getattr(self, "regions", {})))
            if z3.is_true(g):
                ob.result, ob.backend = "unsat", "simplifier"
            self.obligations[key] = ob
        if assume_after and (kind in ("safety", "pre", "inv_init") or not _has_quantifier(g)):
            # a checked fact may be used afterwards; quantified end-of-path clauses are not re-asserted (they would only
            # clutter the hypotheses of the clauses checked after them)
            st.assume(goal)

    def run_once(self):
        st, ct, fi = self.st, self.contract, self.finfo
        args = {}
        a = fi.node.args
        params = [x.arg for x in a.posonlyargs + a.args + a.kwonlyargs]
        defaults = self._defaults(fi)
        for i, p in enumerate(params):
            if i == 0 and fi.kind in ("method", "property", "setter") and fi.cls is not None:
                cls = ct.self_class or fi.cls.qualname
                args[p] = TObj(cls, schema_key=getattr(ct, "self_schema", None)).fresh(st, "self")
            elif i == 0 and fi.kind == "classmethod":
                args[p] = ClassV(ct.self_class or fi.cls.qualname)
            elif p in ct.params:
                args[p] = ct.params[p].fresh(st, p)
            elif p in defaults:
                args[p] = None  # bound below from the default expression
            else:
                raise Unsupported(f"parameter {p} of {fi.qualname} has no declared type")
        frame = Frame(fi, dict(args))
        st.frames.append(frame)
        for cname, cval in getattr(ct, "closure", {}).items():  # free variables of a nested function under contract (source.py: Class.method.inner)
            frame.env[cname] = cval.fresh(st, cname) if isinstance(cval, T) else cval
        for p in params:
            if args[p] is None and p in defaults and p not in ct.params:
                frame.env[p] = args[p] = self.ev(defaults[p])
        if a.vararg and a.vararg.arg not in frame.env:
            frame.env[a.vararg.arg] = args[a.vararg.arg] = ct.params[a.vararg.arg].fresh(st, a.vararg.arg) if a.vararg.arg in ct.params else ()
        is_gen = any(isinstance(x, (ast.Yield, ast.YieldFrom)) for x in ast.walk(fi.node))
        if a.kwarg and a.kwarg.arg in ct.params:
            # typed **kwargs (opt-in, C14): a fresh value of the declared type, visible to the contract as an argument; no key names a
            # parameter of the function (CPython binds such a keyword to the parameter or raises TypeError before the body runs)
            frame.env[a.kwarg.arg] = args[a.kwarg.arg] = ct.params[a.kwarg.arg].fresh(st, a.kwarg.arg)
            kwo = st.heap.get(args[a.kwarg.arg].id) if isinstance(args[a.kwarg.arg], Ref) else None
            if isinstance(kwo, DictObj) and kwo.k == TStr:
                for p in params:
                    st.assume(z3.Not(kwo.member[str_lit(p)]))
        old_heap = st.snapshot()
        if a.kwarg and a.kwarg.arg not in ct.params:
            # the **kwargs dict is a fresh local object of the call (not part of the entry heap: mutating it is invisible to the caller)
            frame.env[a.kwarg.arg] = st.alloc(DictObj.empty(st, TStr, TVal))
        if is_gen:
            # a generator under contract: its result is the list of the yielded values (hidden local `__yield__`)
            frame.env["__yield__"] = self.coerce(self.models.make_list(self, []), ct.returns) if ct.returns is not None else self.models.make_list(self, [])
        c0 = C.Ctx(st, old_heap, st.heap, args)
        for label, f in self._spec(ct.requires, c0):
            st.assume(f)
        for label, f in self._spec(ct.axioms, c0):
            st.assume(f)
            self.assumed.add(f"axiom:{label}")
        # vacuity canary: the hypotheses must not be contradictory
        self.regions = ct.finding_regions(c0)
        self.check(z3.BoolVal(False), "canary", "requires-consistent", fi.node.lineno, assume_after=False)
        st.ghost["entry_heap"] = old_heap
        self.entry_args = args
        result, exc = None, None
        try:
            self.exec_block(fi.node.body)
        except ReturnSig as r:
            result = r.value
        except PyRaise as e:
            exc = e
        if exc is None and is_gen:
            result = frame.env["__yield__"]
        if exc is None and ct.returns is not None:
            result = self.coerce(result, ct.returns)
        c = C.Ctx(st, old_heap, st.heap, args, result)
        # locals of the verified function at exit (for clauses that must name an intermediate result)
        c.locals = {n: C.View(st.heap, v, st)._wrap(v) for n, v in frame.env.items() if v is not UNBOUND and v is not None}
        end = fi.node.end_lineno
        if exc is None and getattr(ct, "ghost_final", None) is not None:
            # ghost epilogue: witnesses for ghost variables, built from the final state (incl. locals)
            c.locals = {n: C.View(st.heap, v, st)._wrap(v) for n, v in frame.env.items() if v is not UNBOUND}
            for gname, term in ct.ghost_final(c).items():
                st.heap.sym[gname] = term
        if exc is None:
            frame_first = getattr(ct, "frame_first", False)  # opt-in: frame obligations before (hence without) the postconditions as hypotheses
            if frame_first:
                self.check_frame(old_heap, args, ct.modifies, "frame", end)
            for label, f in self._spec(ct.ensures, c):
                if label.startswith("assumed:"):
                    # a clause the verifier cannot establish (stated, used by callers, listed as an assumption)
                    self.assumed.add(f"postcondition {label} of {fi.qualname}")
                    continue
                self.check(f, "post", label, end)
            if ct.raises_exact:
                for en, cond in ct.raises.items():
                    if cond is not None:
                        self.check(z3.Not(cond(c)), "raises", f"no-{en}-implies-not-condition", end)
            if not frame_first:
                self.check_frame(old_heap, args, ct.modifies, "frame", end)
        else:
            entry = None
            for en, cond in ct.raises.items():
                if exc_is_subclass(exc.cls, en):
                    entry = (en, cond)
                    break
            if entry is None:
                self.check(z3.BoolVal(False), "raises", f"unexpected-{exc.cls.rsplit('.', 1)[-1]}", exc.lineno)
            else:
                if entry[1] is not None:
                    self.check(entry[1](c), "raises", f"{entry[0]}-only-when", exc.lineno)
                for label, f in self._spec(ct.raise_ensures, c, entry[0]):
                    self.check(f, "post", f"on-{entry[0]}:{label}", exc.lineno)

    def _defaults(self, fi):
        a = fi.node.args
        pos = a.posonlyargs + a.args
        d = {}
        for arg, dv in zip(pos[len(pos) - len(a.defaults):], a.defaults):
            d[arg.arg] = dv
        for arg, dv in zip(a.kwonlyargs, a.kw_defaults):
            if dv is not None:
                d[arg.arg] = dv
        return d

    # ------------------------------------------------------------------ frame conditions
    def resolve_path(self, path: str, args: dict, heap=None):
        heap = heap if heap is not None else self.st.heap
        parts = path.split(".")
        if "#" in parts[0] and parts[0].rsplit("#", 1)[1].isdigit():  # "param#1": item 1 of a tuple-valued parameter (a container the callee mutates in place)
            base, idx = parts[0].rsplit("#", 1)
            v = args[base][int(idx)]
        else:
            v = args[parts[0]]
        for p in parts[1:]:
            o = heap[v.id]
            v = o.fields[p]
        return v

    def modifiable_ids(self, paths, args, heap) -> set:
        ids = set()
        for p in paths:
            if p.endswith("#vals"):
                p = p[:-5]
            try:
                v = self.resolve_path(p, args, heap)
            except (KeyError, AttributeError):
                continue
            if isinstance(v, Ref):
                ids |= self.owned(v, heap)
                if getattr(self.contract, "alias_modifies_slot_owner", False):
                    # opt-in (contracts listing a local ALIAS of a slot of a container in `modifies`): a change of the alias is written back to the
                    # containers holding the slot, which therefore change too; such a contract states the frame of the holder itself (other slots kept)
                    o = heap.get(v.id)
                    while o is not None and getattr(o, "origin", None) is not None and isinstance(o.origin[0], Ref):
                        ids.add(o.origin[0].id)
                        o = heap.get(o.origin[0].id)
        return ids

    def check_symheap_frame(self, old_heap, modifies, kind, lineno):
        st = self.st
        for name, h in st.heap.sym.items():
            if f"heap:{name}" in modifies or f"ghost:{name}" in modifies:
                continue
            h0 = old_heap.sym.get(name)
            if h0 is None:
                h0 = z3.Const(f"heap0_{name}", h.sort())
            if not h0.eq(h):
                self.check(h0 == h, kind, f"unchanged:heap:{name}", lineno)

    def owned(self, ref: Ref, heap) -> set:
        """The object and the containers it (transitively) holds in its fields."""
        out = {ref.id}
        o = heap.get(ref.id)
        if isinstance(o, PyObj):
            for v in o.fields.values():
                if isinstance(v, Ref) and not isinstance(heap.get(v.id), PyObj):
                    out |= self.owned(v, heap)
        return out

    def check_frame(self, old_heap, args, modifies, kind, lineno):
        st = self.st
        self.check_symheap_frame(old_heap, modifies, kind, lineno)
        modifies = [m for m in modifies if not m.startswith(("heap:", "ghost:"))]
        mod = self.modifiable_ids(modifies, args, old_heap)
        for i, o in old_heap.items():
            if i in mod:
                continue
            n = st.heap.get(i)
            if n is None:
                continue
            for label, f in self.obj_equal_facts(o, n, st.heap, old_heap):
                self.check(f, kind, f"unchanged:{label}", lineno)

    def obj_equal_facts(self, o, n, new_heap, old_heap):
        out = []
        if isinstance(o, PyObj):
            for f, ov in o.fields.items():
                nv = n.fields.get(f)
                if isinstance(ov, SV) and isinstance(nv, SV):
                    if not ov.term.eq(nv.term):
                        out.append((f"{o.cls.rsplit('.', 1)[-1]}.{f}", ov.term == nv.term))
                elif isinstance(ov, Ref) and isinstance(nv, Ref):
                    if ov.id != nv.id:
                        a, b = old_heap.get(ov.id), new_heap.get(nv.id)
                        if isinstance(a, PyObj) or type(a) is not type(b):
                            out.append((f"{o.cls.rsplit('.', 1)[-1]}.{f}(rebound)", z3.BoolVal(False)))
                        else:
                            out += [(f"{f}.{l}", g) for l, g in self.obj_equal_facts(a, b, new_heap, old_heap)]
                elif is_concrete(ov) and is_concrete(nv):
                    if ov != nv or type(ov) is not type(nv):
                        out.append((f"{f}", z3.BoolVal(False)))
                elif ov is nv:
                    pass
                else:
                    try:
                        t = type_of_value(self.st, ov)
                        out.append((f"{f}", t.embed(self.st, ov) == t.embed(self.st, nv)))
                    except Unsupported:
                        out.append((f"{f}(changed kind)", z3.BoolVal(False)))
        elif isinstance(o, DictObj):
            if not (o.member.eq(n.member) and o.vals.eq(n.vals) and o.n.eq(n.n) and _same(o.keys, n.keys)):
                k = z3.Const("k!fr", o.k.sort())
                out.append(("dict", z3.And(o.n == n.n, z3.ForAll([k], z3.And(o.member[k] == n.member[k], z3.Implies(o.member[k], o.vals[k] == n.vals[k]))))))
                if o.keys is not None and n.keys is not None:
                    i = z3.Int("i!fr")
                    out.append(("dict-order", z3.ForAll([i], z3.Implies(z3.And(0 <= i, i < o.n), o.keys[i] == n.keys[i]))))
        elif isinstance(o, SetObj):
            if not (o.member.eq(n.member) and o.n.eq(n.n)):
                k = z3.Const("k!fr", o.k.sort())
                out.append(("set", z3.And(o.n == n.n, z3.ForAll([k], o.member[k] == n.member[k]))))
        elif isinstance(o, ListObj):
            if not (o.elems.eq(n.elems) and o.n.eq(n.n)):
                i = z3.Int("i!fr")
                out.append(("list", z3.And(o.n == n.n, z3.ForAll([i], z3.Implies(z3.And(0 <= i, i < o.n), o.elems[i] == n.elems[i])))))
        else:
            r = self.models._plug("frame_facts", self, o, n)  # other heap objects (opt-in, e.g. numpy arrays: plug_np_c10)
            if r is not NotImplemented:
                out += r
        return out

    # ------------------------------------------------------------------ statements
    def exec_block(self, stmts):
        for s in stmts:
            self.exec_stmt(s)

    def exec_stmt(self, node):
        m = getattr(self, "st_" + type(node).__name__, None)
        if m is None:
            raise Unsupported(f"statement {type(node).__name__} at line {node.lineno}")
        self.models._plug("before_stmt", self, node)  # ghost code of contracts (plug_caches): assigns ghost variables only
        if self.models._plug("skip_stmt", self, node) is True:  # opt-in (plug_c03): a statement made only of dropped logging (DESIGN §2.2) is not executed
            return
        m(node)

    def st_Expr(self, node):
        if isinstance(node.value, ast.Constant):
            return  # docstring
        self.ev(node.value)

    def st_Pass(self, node):
        pass

    def st_Import(self, node):
        pass

    def st_ImportFrom(self, node):
        pass

    def st_Assign(self, node):
        v = self.ev(node.value)
        for t in node.targets:
            self.assign(t, v)

    def st_AnnAssign(self, node):
        if node.value is not None:
            self.assign(node.target, self.ev(node.value))

    def st_AugAssign(self, node):
        load = _as_load(node.target)
        cur = self.ev(load)
        v = self.binop(type(node.op).__name__, cur, self.ev(node.value), node.lineno, inplace=True)
        self.assign(node.target, v)

    def st_Return(self, node):
        raise ReturnSig(self.ev(node.value) if node.value is not None else None)

    def st_Break(self, node):
        raise BreakSig

    def st_Continue(self, node):
        raise ContinueSig

    def st_If(self, node):
        t = self.ev(node.test)
        taken = self.st.decide(self.truth(t))
        nar = getattr(t, "narrow", None) if isinstance(t, SV) else None
        if nar is not None and nar[0] in self.frame.env:
            # `if x is [not] None:` on an optional value: x is its payload / None in the respective branch
            self.frame.env[nar[0]] = nar[1] if taken else nar[2]
        if taken:
            self.exec_block(node.body)
        else:
            self.exec_block(node.orelse)

    def st_Assert(self, node):
        t = self.truth(self.ev(node.test))
        if not self.st.decide(t):
            raise PyRaise("AssertionError", node.lineno)

    def st_Raise(self, node):
        if node.exc is None:
            cur = self.st.ghost.get("current_exc")
            if cur is None:
                raise Unsupported("bare raise outside handler")
            raise cur
        if isinstance(node.exc, ast.Call):
            clsv = self.ev(node.exc.func)
            # message construction is dropped (DESIGN §2.2): arguments are not evaluated
        else:
            clsv = self.ev(node.exc)
        if isinstance(clsv, ClassV):
            raise PyRaise(clsv.qualname, node.lineno)
        if isinstance(clsv, Ref) and isinstance(self.st.heap[clsv.id], ExcObj):
            raise PyRaise(self.st.heap[clsv.id].cls, node.lineno)
        r = self.models._plug("raise_value", self, clsv, node.lineno)  # plugin raises PyRaise itself
        if r is not NotImplemented:
            return
        raise Unsupported(f"raise of {clsv!r}")

    def st_Delete(self, node):
        for t in node.targets:
            if isinstance(t, ast.Subscript):
                cont = self.ev(t.value)
                key = self.ev(t.slice)
                self.models.delitem(self, cont, key, node.lineno)
            elif isinstance(t, ast.Name):
                self.frame.env.pop(t.id, None)
            else:
                raise Unsupported("del of attribute")

    def st_Try(self, node):
        st = self.st
        try:
            try:
                self.exec_block(node.body)
            except PyRaise as e:
                for h in node.handlers:
                    if h.type is None:
                        names = ["BaseException"]
                    elif isinstance(h.type, ast.Tuple):
                        names = [self._exc_name(x) for x in h.type.elts]
                    else:
                        names = [self._exc_name(h.type)]
                    if any(exc_is_subclass(e.cls, n) for n in names):
                        if h.name:
                            self.frame.env[h.name] = st.alloc(ExcObj(e.cls))
                        prev = st.ghost.get("current_exc")
                        st.ghost["current_exc"] = e
                        try:
                            self.exec_block(h.body)
                        finally:
                            st.ghost["current_exc"] = prev
                        break
                else:
                    raise
            else:
                self.exec_block(node.orelse)
        except PathEnd:
            raise
        except (PyRaise, ReturnSig, BreakSig, ContinueSig):
            if node.finalbody:
                self.exec_block(node.finalbody)
            raise
        else:
            if node.finalbody:
                self.exec_block(node.finalbody)

    def _exc_name(self, node) -> str:
        v = self.ev(node)
        if isinstance(v, ClassV):
            return v.qualname
        raise Unsupported(f"exception handler type {ast.unparse(node)}")

    def st_With(self, node):
        for item in node.items:
            v = self.ev(item.context_expr)
            res = self.models.enter_context(self, v, item.context_expr)
            if item.optional_vars is not None:
                self.assign(item.optional_vars, res)
        exc = None
        try:
            self.exec_block(node.body)
        except (PyRaise, ReturnSig, BreakSig, ContinueSig) as e:
            exc = e
        for item in reversed(node.items):
            self.models.exit_context(self, item.context_expr, exc)
        if exc is not None:
            raise exc

    def st_FunctionDef(self, node):
        if self.models._plug("nested_function", self, node) is True:  # opt-in (plug_c04r): a single-expression nested function as a closure
            return
        raise Unsupported(f"nested function definition {node.name}")

    # ---- loops
    def st_While(self, node):
        spec = self._loop_spec(node, ast.unparse(node.test))
        if spec is None:
            raise Undecided(f"while loop without invariant at line {node.lineno} of {self.frame.finfo.qualname}")
        self._loop_with_invariant(node, spec, None)

    def st_For(self, node):
        itv = self.ev(node.iter)
        seq = self.to_iter(itv, node.lineno)
        spec = self._loop_spec(node, ast.unparse(node.iter))
        if spec is None:
            if seq.concrete is not None and len(seq.concrete) <= 12:
                broke = False
                for x in seq.concrete:
                    self.assign(node.target, x)
                    try:
                        self.exec_block(node.body)
                    except BreakSig:
                        broke = True
                        break
                    except ContinueSig:
                        continue
                if not broke:
                    self.exec_block(node.orelse)
                return
            raise Undecided(f"for loop without invariant at line {node.lineno} of {self.frame.finfo.qualname}")
        self._loop_with_invariant(node, spec, seq)

    def _loop_spec(self, node, anchor_now: str):
        fr = self.frame
        ordinal = fr.loop_ids.get(id(node))
        ct = C.lookup(fr.finfo.qualname, fr.finfo.kind == "setter") if fr.finfo is not self.finfo else self.contract
        if ct is None or ordinal not in ct.loops:
            return None
        spec = ct.loops[ordinal]
        if spec.anchor is not None and spec.anchor != anchor_now:  # anchor None: the invariant speaks about the specification's own sequence, whatever the loop runs over
            raise Undecided(f"loop #{ordinal} of {fr.finfo.qualname}: anchor '{spec.anchor}' does not match '{anchor_now}'")
        return spec

    def _loop_ctx(self, seq, k):
        st = self.st
        fr = self.frame
        c = C.Ctx(st, self._entry_heap(), st.heap, self._entry_args())
        loc = {}
        for n, v in fr.env.items():
            loc[n] = C.View(st.heap, v, st)._wrap(v)
        c.locals = loc
        pre = getattr(self, "_loop_pre", None)
        c.pre_locals = {n: C.View(pre[0], v, st)._wrap(v) for n, v in pre[1].items() if v is not UNBOUND} if pre is not None else {}
        c.seq = seq
        c.k = k
        return c

    def _entry_heap(self):
        return self.st.ghost.get("entry_heap", self.st.heap)

    def _entry_args(self):
        return self.entry_args

    def _loop_with_invariant(self, node, spec, seq):
        st, fr = self.st, self.frame
        is_for = seq is not None
        ln = node.lineno
        assigned = sorted({x.id for b in node.body for x in ast.walk(b) if isinstance(x, ast.Name) and isinstance(x.ctx, ast.Store)})
        if is_for:
            assigned = sorted(set(assigned) | {x.id for x in ast.walk(node.target) if isinstance(x, ast.Name)})
        for n, t in spec.local_types.items():
            if n in fr.env and fr.env[n] is not UNBOUND and not isinstance(t, list):
                fr.env[n] = self.coerce(fr.env[n], t)
        pre_env = dict(fr.env)
        saved_pre = getattr(self, "_loop_pre", None)
        self._loop_pre = (st.snapshot(), pre_env)  # state at loop entry, visible to the invariant as c.pre_locals
        # 1. initialisation
        for label, f in self._spec(spec.inv, self._loop_ctx(seq, z3.IntVal(0)), z3.IntVal(0)):
            self.check(f, "inv_init", label, ln, aux=True)
        branch = st.choose(2)

        def leave():
            # cited lemmas (assumptions, listed in the evidence) instantiated on the state in which the loop is left
            if getattr(spec, "lemmas", None) is not None:
                for label, f in spec.lemmas(self._loop_ctx(seq, None)):
                    self.assumed.add(f"cited lemma (assumed): {label}")
                    st.assume(f)
            self._loop_pre = saved_pre

        def havoc(k):
            for path in spec.modifies:
                self.havoc_path(path, fr.env)
            for n in assigned:
                cur = pre_env.get(n, UNBOUND)
                if n in spec.local_types and isinstance(spec.local_types[n], list):
                    # union-typed local: one alternative per path (a T, or a concrete Python value)
                    alts = spec.local_types[n]
                    alt = alts[st.choose(len(alts))]
                    fr.env[n] = alt.fresh(st, n) if isinstance(alt, T) else alt
                elif n in spec.local_types and not (isinstance(cur, Ref) and n in spec.modifies):
                    fr.env[n] = spec.local_types[n].fresh(st, n)
                elif cur is not UNBOUND and cur is not None and not (is_concrete(cur) and not isinstance(cur, (bool, int, float, str))):
                    fr.env[n] = self.fresh_like(cur, n)
                elif cur is None:
                    raise Undecided(f"loop at line {ln}: local '{n}' is None before the loop and assigned in it; declare local_types")
                else:
                    fr.env.pop(n, None)
                    fr.env[n] = UNBOUND

        if branch == 0:
            # 2. preservation: arbitrary iteration k
            k = st.fresh_int("k")
            st.assume(k >= 0)
            if is_for:
                st.assume(k < seq.n)
            havoc(k)
            for label, f in self._spec(spec.inv, self._loop_ctx(seq, k), k):
                st.assume(f)
            if is_for:
                self._assume_iteration_instance(seq, k)
                self.assign(node.target, seq.elem(k))
            else:
                if not st.decide(self.truth(self.ev(node.test))):
                    raise PathEnd
            snap = st.snapshot()
            mod = self.modifiable_ids([m for m in spec.modifies if not m.startswith(("heap:", "ghost:"))], fr.env, snap)
            measure0 = spec.decreases(self._loop_ctx(seq, k), k) if spec.decreases is not None else None
            try:
                self.exec_block(node.body)
            except ContinueSig:
                pass
            except BreakSig:
                # a break leaves the loop with the current state: continue after the loop
                leave()
                return
            if measure0 is not None:
                measure1 = spec.decreases(self._loop_ctx(seq, k + 1), k + 1)
                self.check(z3.And(measure0 >= 0, measure1 < measure0), "termination", "measure-decreases", ln, aux=True)
            for label, f in self._spec(spec.inv, self._loop_ctx(seq, k + 1), k + 1):
                self.check(f, "inv_pres", label, ln, aux=True)
            for i, o in snap.items():
                if i in mod or i not in st.heap:
                    continue
                for label, f in self.obj_equal_facts(o, st.heap[i], st.heap, snap):
                    self.check(f, "loop_frame", f"unchanged:{label}", ln, aux=True)
            for path in spec.modifies:
                if path.endswith("#vals"):
                    # only the values may have changed: keys, order and size of the dict are as before the iteration
                    ref = self.resolve_path(path[:-5], fr.env)
                    a, b = snap[ref.id], st.heap[ref.id]
                    if not (a.member.eq(b.member) and a.n.eq(b.n) and _same(a.keys, b.keys) and _same(a.pos, b.pos)):
                        kq = z3.Const("k!lf", a.k.sort())
                        iq = z3.Int("i!lf")
                        self.check(z3.And(a.n == b.n, z3.ForAll([kq], a.member[kq] == b.member[kq])), "loop_frame", f"same-keys:{path}", ln, aux=True)
                        if a.keys is not None and b.keys is not None:
                            self.check(z3.ForAll([iq], z3.Implies(z3.And(0 <= iq, iq < a.n), a.keys[iq] == b.keys[iq])), "loop_frame", f"same-order:{path}", ln, aux=True)
            self.check_symheap_frame(snap, spec.modifies, "loop_frame", ln)
            raise PathEnd
        # 3. exit
        if is_for:
            zero = st.decide(seq.n == 0)
            if zero:
                self._loop_pre = saved_pre
                self.exec_block(node.orelse)
                return
            havoc(seq.n)
            for label, f in self._spec(spec.inv, self._loop_ctx(seq, seq.n), seq.n):
                st.assume(f)
            # the loop target is bound to the last element
            self.assign(node.target, seq.elem(seq.n - 1))
        else:
            k = st.fresh_int("kexit")
            st.assume(k >= 0)
            first_bound_in_body = [n for n in assigned if pre_env.get(n, UNBOUND) is UNBOUND]
            if first_bound_in_body and st.decide(k == 0):
                # no iteration at all: nothing is havoc'ed, locals first assigned in the body stay unbound
                # (reading one of them after the loop is an UnboundLocalError, as for a `for` over an empty sequence)
                pass
            else:
                havoc(k)
            for label, f in self._spec(spec.inv, self._loop_ctx(None, k), k):
                st.assume(f)
            st.assume(z3.Not(self.truth_term(self.ev(node.test))))
        leave()
        self.exec_block(node.orelse)

    def _assume_iteration_instance(self, seq, k):
        """Ground instance, at the current index, of the order view of the iterated dict/set (keys[k] is a member at position k)."""
        keys, pos, mem = getattr(seq, "keys", None), getattr(seq, "pos", None), getattr(seq, "member", None)
        if keys is not None and pos is not None:
            self.st.assume(pos[keys[k]] == k)
            if mem is not None:
                self.st.assume(mem[keys[k]])

    def fresh_like(self, v, hint):
        st = self.st
        if isinstance(v, bool):
            return SV(st.fresh_const(hint, z3.BoolSort()), TBool)
        if isinstance(v, int):
            return SV(st.fresh_const(hint, z3.IntSort()), TInt)
        if isinstance(v, float):
            return SV(st.fresh_const(hint, z3.RealSort()), TReal)
        if isinstance(v, str):
            return SV(st.fresh_const(hint, TStr.sort()), TStr)
        if isinstance(v, SV):
            return v.ty.project(st, st.fresh_const(hint, v.ty.sort()))
        if isinstance(v, Ref):
            o = st.heap[v.id]
            if isinstance(o, PyObj):
                return v  # same object; its content is havoc'ed through spec.modifies
            return type_of_value(st, v).fresh(st, hint)
        if isinstance(v, tuple):
            return tuple(self.fresh_like(x, hint) for x in v)
        if isinstance(v, (FunV, ClassV, FuncV, BuiltinV, BoundMethod)):
            return v
        raise Undecided(f"cannot havoc local '{hint}' of value {v!r}")

    def havoc_path(self, path: str, env: dict):
        st = self.st
        if path.startswith("heap:"):
            name = path[5:]
            st.heap.sym[name] = st.fresh_const(f"heap_{name}", st.symheap(name).sort())
            old = st.heap.ctr
            st.heap.ctr = st.fresh_int("addr_ctr")
            st.assume(st.heap.ctr >= old)
            return
        if path.startswith("ghost:"):
            name = path[6:]
            from .values import GHOST_SORTS

            st.heap.sym[name] = st.fresh_const(f"ghost_{name}", GHOST_SORTS[name])
            return
        vals_only = path.endswith("#vals")
        if vals_only:
            path = path[:-5]
        v = self.resolve_path(path, env)
        if not isinstance(v, Ref):
            raise Unsupported(f"modifies path {path} is not a heap object")
        if vals_only:
            # only the values of the dict may change (keys, order and size are kept)
            o = st.heap[v.id]
            if not isinstance(o, DictObj):
                raise Unsupported(f"{path}#vals is not a dict")
            o.vals = st.fresh_const(f"{path}_vals", o.vals.sort())
            self.writeback(o)
            return
        self.havoc_obj(v, path)

    def havoc_obj(self, ref: Ref, hint: str):
        st = self.st
        o = st.heap[ref.id]
        if isinstance(o, PyObj):
            sch = C.class_schema(getattr(o, "schema_key", None) or o.cls)
            for f, t in sch.items():
                if isinstance(t, TObj):
                    continue
                cur = o.fields.get(f)
                if isinstance(cur, Ref) and not isinstance(st.heap[cur.id], PyObj):
                    self.havoc_obj(cur, f"{hint}.{f}")
                else:
                    o.fields[f] = t.fresh(st, f"{hint}.{f}")
        elif isinstance(o, DictObj):
            ty = o.ty or TDict(o.k, o.v, o.keys is not None)
            new = st.heap[ty.fresh(st, hint).id]
            o.member, o.vals, o.n, o.keys, o.pos = new.member, new.vals, new.n, new.keys, new.pos
            o.is_empty_literal = False
            self.writeback(o)
        elif isinstance(o, SetObj):
            new = st.heap[TSet(o.k).fresh(st, hint).id]
            o.member, o.n = new.member, new.n
            o.is_empty_literal = False
            self.writeback(o)
        elif isinstance(o, ListObj):
            new = st.heap[TList(o.t).fresh(st, hint).id]
            o.n, o.elems = new.n, new.elems
            o.is_empty_literal = False
            self.writeback(o)
        else:
            self.models._plug("havoc_obj", self, ref, o, hint)  # other heap objects (e.g. numpy arrays mutated in a loop: plug_np_c17)

    def writeback(self, o):
        """Propagate a mutation of a container projected out of another container."""
        if o.origin is None:
            return
        st = self.st
        parent_ref, key_term, kind = o.origin
        parent = st.heap[parent_ref.id]
        term = o.ty.embed(st, self._ref_of(o))
        if isinstance(kind, tuple) and kind and kind[0] == "tuple":
            # the container is item `idx` of a tuple stored in the parent's slot: rebuild the tuple
            _, _, tt, idx = kind
            cur = parent.vals[key_term] if isinstance(parent, DictObj) else parent.elems[key_term]
            term = tt.dt.mk(*[term if j == idx else tt.dt.accessor(0, j)(cur) for j in range(len(tt.items))])
        if isinstance(parent, DictObj):
            parent.vals = z3.Store(parent.vals, key_term, term)
        elif isinstance(parent, ListObj):
            parent.elems = z3.Store(parent.elems, key_term, term)
        self.writeback(parent)

    def _ref_of(self, o):
        for i, x in self.st.heap.items():
            if x is o:
                return Ref(i)
        raise KeyError

    # ------------------------------------------------------------------ assignment
    @property
    def frame(self) -> Frame:
        return self.st.frames[-1]

    def assign(self, target, v):
        st = self.st
        if isinstance(target, ast.Name):
            self.frame.env[target.id] = v
        elif isinstance(target, (ast.Tuple, ast.List)):
            items = self.unpack(v, len(target.elts), target.lineno)
            for t, x in zip(target.elts, items):
                self.assign(t, x)
        elif isinstance(target, ast.Attribute):
            obj = self.ev(target.value)
            self.set_attr(obj, self.mangled(target.attr), v, target.lineno)
        elif isinstance(target, ast.Subscript):
            cont = self.ev(target.value)
            key = self.ev_slice(target.slice)
            self.models.setitem(self, cont, key, v, target.lineno)
        else:
            raise Unsupported(f"assignment target {type(target).__name__}")

    def unpack(self, v, n, lineno):
        if isinstance(v, tuple):
            if len(v) != n:
                raise PyRaise("ValueError", lineno)
            return list(v)
        if isinstance(v, SV) and isinstance(v.ty, TTuple):
            return list(v.ty.project(self.st, v.term))
        if isinstance(v, Ref):
            o = self.st.heap[v.id]
            if isinstance(o, ListObj):
                if not self.st.decide(o.n == n):
                    raise PyRaise("ValueError", lineno)
                return [o.t.project(self.st, o.elems[i]) for i in range(n)]
        if isinstance(v, RecV) and getattr(v.ty, "cls", None) is not None:
            ci = S.load_class(v.ty.cls)
            if ci is not None and any(b.rsplit(".", 1)[-1] == "NamedTuple" for b in ci.bases):
                # an instance of a typing.NamedTuple class is a tuple of its fields, in declaration order
                names = [it.target.id for it in ci.node.body if isinstance(it, ast.AnnAssign) and isinstance(it.target, ast.Name)]
                if set(names) == set(v.vals):
                    if len(names) != n:
                        raise PyRaise("ValueError", lineno)
                    return [v.vals[f] for f in names]
        raise Unsupported(f"cannot unpack {v!r}")

    def mangled(self, attr: str) -> str:
        cls = self.frame.cls
        if cls is not None:
            return S.mangle(cls.name, attr)
        return attr

    def set_attr(self, obj, attr, v, lineno):
        st = self.st
        if self.models._plug("set_attr", self, obj, attr, v, lineno) is not NotImplemented:
            return
        if isinstance(obj, Ref):
            o = st.heap[obj.id]
            if isinstance(o, PyObj):
                setter = S.find_method(o.cls, attr, want="setter")
                if setter is not None:
                    self.call_repo(setter, [obj, v], {}, lineno, setter=True)
                    return
                sch = C.class_schema(getattr(o, "schema_key", None) or o.cls)
                if attr not in sch:
                    raise Unsupported(f"field {attr} of {o.cls} is not declared in the schema")
                o.fields[attr] = self.coerce(v, sch[attr])
                return
        if isinstance(obj, SV) and isinstance(obj.ty, TRec) and obj.origin is not None:
            conv = self.models.record_setattr(self, obj, attr, v)
            if conv is not NotImplemented:
                v = conv
            new = obj.ty.update(st, obj.term, attr, v)
            parent_ref, key_term, kind = obj.origin
            parent = st.heap[parent_ref.id]
            if isinstance(parent, DictObj):
                parent.vals = z3.Store(parent.vals, key_term, new)
                self.writeback(parent)
                return
        raise Unsupported(f"attribute store on {obj!r}.{attr}")

    def coerce(self, v, t: T):
        """Adapt a value to a declared field type (e.g. ``{}`` literal -> typed empty dict)."""
        st = self.st
        r = self.models._plug("coerce", self, v, t)  # plugin-specific adaptations (gated by the plugin on its own module/types)
        if r is not NotImplemented:
            return r
        if isinstance(v, Ref):
            o = st.heap[v.id]
            if getattr(o, "is_empty_literal", False):
                if isinstance(t, TDict) and isinstance(o, DictObj):
                    n = DictObj.empty(st, t.k, t.v, t.ordered)
                    o.k, o.v, o.member, o.vals, o.n, o.keys, o.pos = n.k, n.v, n.member, n.vals, n.n, n.keys, n.pos
                    o.ty = t
                    o.is_empty_literal = False
                elif isinstance(t, TSet) and isinstance(o, SetObj):
                    o.k = t.k
                    o.member = z3.K(t.k.sort(), z3.BoolVal(False))
                    o.ty = t
                    o.is_empty_literal = False
                elif isinstance(t, TList) and isinstance(o, ListObj):
                    o.t = t.t
                    o.elems = st.fresh_const("el", z3.ArraySort(z3.IntSort(), t.t.sort()))
                    o.ty = t
                    o.is_empty_literal = False
            elif isinstance(t, TDict) and isinstance(o, DictObj) and t.ordered:
                o.ensure_order(st)
                o.ty = t
            return v
        if isinstance(t, TTuple) and isinstance(v, tuple) and len(v) == len(t.items):
            return tuple(self.coerce(x, ti) for x, ti in zip(v, t.items))
        if isinstance(t, TStruct) and isinstance(v, RecV):
            return RecV(v.ty, {f: (self.coerce(x, t.fields[f]) if f in t.fields else x) for f, x in v.vals.items()})
        if isinstance(t, (TOpt,)) and not (isinstance(v, SV) and v.ty == t):
            return SV(t.embed(st, v), t)
        if t == TReal and isinstance(v, SV) and v.ty == TInt:
            return SV(z3.ToReal(v.term), TReal)
        if t == TReal and isinstance(v, float) and (v != v or v in (float("inf"), float("-inf"))):
            from .npmodel import is_inf, is_nan_r, is_ninf

            r = st.fresh_const("extreal", z3.RealSort())
            st.assume(is_nan_r(r) if v != v else (is_inf(r) if v > 0 else is_ninf(r)))
            return SV(r, TReal)
        if t == TReal and isinstance(v, (int, float)) and not isinstance(v, bool):
            return SV(TReal.embed(st, v), TReal)
        if t.name == "Nd" and not isinstance(v, (SV, Ref)):
            from .gmodels import to_val

            tv = to_val(self, v)
            if tv is not None:
                return SV(tv, t)
        if t == TVal and not (isinstance(v, SV) and v.ty == TVal):
            try:
                return SV(TVal.embed(st, v), TVal)
            except Unsupported:
                return v
        return v

    # ------------------------------------------------------------------ expressions
    def ev(self, node):
        m = getattr(self, "ev_" + type(node).__name__, None)
        if m is None:
            raise Unsupported(f"expression {type(node).__name__} at line {getattr(node, 'lineno', '?')}")
        return m(node)

    def ev_Constant(self, node):
        v = node.value
        if v is Ellipsis:
            return BuiltinV("Ellipsis")
        if isinstance(v, (bytes, complex)):
            r = self.models._plug("constant", self, v)  # e.g. complex constants (opt-in: plug_c16)
            if r is not NotImplemented:
                return r
            raise Unsupported(f"constant {v!r}")
        return v

    def ev_JoinedStr(self, node):
        # f-strings whose parts are all strings: deterministic concatenation; anything else (message construction):
        # an opaque string (DESIGN §2.2)
        from .models import str_concat

        parts = []
        for v in node.values:
            if isinstance(v, ast.Constant) and isinstance(v.value, str):
                parts.append(v.value)
            elif isinstance(v, ast.FormattedValue) and v.format_spec is None and v.conversion == -1 and isinstance(v.value, (ast.Name, ast.Attribute)):
                try:
                    x = self.ev(v.value)
                except (Unsupported, PyRaise):
                    parts = None
                    break
                if isinstance(x, str) or (isinstance(x, SV) and x.ty == TStr):
                    parts.append(x)
                else:
                    r = self.models._plug("fstring_part", self, x)  # e.g. f"{i}" of an int in a module whose plugin models str(int) (plug_hdf)
                    if r is not NotImplemented and isinstance(r, SV) and r.ty == TStr:
                        parts.append(r)
                        continue
                    parts = None
                    break
            else:
                parts = None
                break
        if parts:
            if all(isinstance(p, str) for p in parts):
                return "".join(parts)
            t = TStr.embed(self.st, parts[0])
            for p in parts[1:]:
                t = str_concat(t, TStr.embed(self.st, p))
            return SV(t, TStr)
        return SV(self.st.fresh_const("fstr", TStr.sort()), TStr)

    def ev_Name(self, node):
        name = node.id
        fr = self.frame
        if name in fr.env:
            v = fr.env[name]
            if v is UNBOUND:
                raise PyRaise("UnboundLocalError", node.lineno)
            return v
        if name in fr.local_names:
            raise PyRaise("UnboundLocalError", node.lineno)
        return self.global_name(fr.module, name, node.lineno)

    def global_name(self, mi, name, lineno=0):
        if name == "__class__" and self.frame.cls is not None:
            return ClassV(self.frame.cls.qualname)
        if name in mi.classes:
            return ClassV(f"{mi.name}.{name}")
        if name in mi.functions:
            return FuncV(f"{mi.name}.{name}")
        if name in mi.assigns:
            v = self.models.module_constant(self, mi, name)
            if v is not NotImplemented:
                return v
            return self.eval_in_module(mi, mi.assigns[name])
        if name in mi.imports:
            q = mi.imports[name]
            return self.qualified(q)
        if name in BUILTIN_EXC:
            return ClassV(name)
        return BuiltinV(name)

    def qualified(self, q: str):
        mod, rest = S.split_qualname(q)
        if mod is not None and q.startswith("gemseo"):
            mi = S.load_module(mod)
            if not rest:
                return ModuleV(mod)
            if len(rest) == 1:
                if rest[0] in mi.classes:
                    return ClassV(q)
                if rest[0] in mi.functions:
                    return FuncV(q)
                if rest[0] in mi.imports:
                    return self.qualified(mi.imports[rest[0]])
                if rest[0] in mi.assigns:
                    v = self.models.module_constant(self, mi, rest[0])
                    if v is not NotImplemented:
                        return v
                    return self.eval_in_module(mi, mi.assigns[rest[0]])
        v = self.models.builtin_constant(self, q)
        if v is not NotImplemented:
            return v
        return BuiltinV(q)

    def eval_in_module(self, mi, expr):
        """Evaluate a simple module/class-level constant expression."""
        if isinstance(expr, ast.Constant):
            return expr.value
        if isinstance(expr, (ast.Tuple, ast.List)) and all(isinstance(e, ast.Constant) for e in expr.elts):
            return tuple(e.value for e in expr.elts)
        raise Unsupported(f"module-level value {ast.unparse(expr)[:60]} is not a simple constant")

    def ev_Tuple(self, node):
        out = []
        for e in node.elts:
            if isinstance(e, ast.Starred):
                v = self.ev(e.value)
                if not isinstance(v, tuple):
                    raise Unsupported("starred non-concrete tuple")
                out.extend(v)
            else:
                out.append(self.ev(e))
        return tuple(out)

    def ev_List(self, node):
        if any(isinstance(e, ast.Starred) for e in node.elts):
            r = self.models._plug("starred_list_display", self, node)  # [x, *xs] (opt-in: plug_c16)
            if r is not NotImplemented:
                return r
        items = [self.ev(e) for e in node.elts]
        return self.models.make_list(self, items)

    def ev_Dict(self, node):
        keys = [self.ev(k) if k is not None else None for k in node.keys]
        vals = [self.ev(v) for v in node.values]
        return self.models.make_dict(self, keys, vals)

    def ev_Set(self, node):
        return self.models.make_set(self, [self.ev(e) for e in node.elts])

    def ev_Lambda(self, node):
        return LambdaV(node, self.frame)

    no_fork = False

    def ev_IfExp(self, node):
        r = self.models._plug("ifexp", self, node)  # opt-in (plug_c03): a choice between two null context managers does not fork
        if r is not NotImplemented:
            return r
        t = self.truth(self.ev(node.test))
        if self.no_fork and not isinstance(t, bool) and not z3.is_true(z3.simplify(t)) and not z3.is_false(z3.simplify(t)):
            # inside a comprehension element: conditional expression as an if-then-else term
            a, b = self.ev(node.body), self.ev(node.orelse)
            ty = type_of_value(self.st, a)
            return ty.project(self.st, z3.If(t, ty.embed(self.st, a), ty.embed(self.st, b)))
        if self.st.decide(t):
            return self.ev(node.body)
        return self.ev(node.orelse)

    def ev_BoolOp(self, node):
        if self.no_fork:
            r = self.models._plug("boolop_nofork", self, node)  # opt-in (plug_c13d): `a or b` of Booleans inside a comprehension filter, as a term
            if r is not NotImplemented:
                return r
        is_and = isinstance(node.op, ast.And)
        v = None
        for i, e in enumerate(node.values):
            v = self.ev(e)
            if i == len(node.values) - 1:
                return v
            t = self.st.decide(self.truth(v))
            if is_and and not t:
                return v if not isinstance(v, SV) or v.ty != TBool else False
            if not is_and and t:
                return v if not isinstance(v, SV) or v.ty != TBool else True
        return v

    def ev_UnaryOp(self, node):
        v = self.ev(node.operand)
        if isinstance(node.op, ast.Not):
            t = self.truth(v)
            return (not t) if isinstance(t, bool) else SV(z3.Not(t), TBool)
        if isinstance(node.op, ast.USub):
            if isinstance(v, (int, float)) and not isinstance(v, bool):
                return -v
            if isinstance(v, SV) and v.ty in (TInt, TReal):
                return SV(-v.term, v.ty)
            return self.models.unary(self, "neg", v, node.lineno)
        if isinstance(node.op, ast.UAdd):
            return v
        if isinstance(node.op, ast.Invert):
            return self.models.unary(self, "invert", v, node.lineno)
        raise Unsupported("unary op")

    def ev_BinOp(self, node):
        return self.binop(type(node.op).__name__, self.ev(node.left), self.ev(node.right), node.lineno)

    def binop(self, op, a, b, lineno, inplace=False):
        if is_concrete(a) and is_concrete(b) and not isinstance(a, tuple) and a is not None and b is not None:
            try:
                if op == "Add":
                    return a + b
                if op == "Sub":
                    return a - b
                if op == "Mult":
                    return a * b
                if op == "FloorDiv" and b != 0:
                    return a // b
                if op == "Mod" and b != 0 and not isinstance(a, str):
                    return a % b
                if op == "Div" and b != 0:
                    return Fraction(a) / Fraction(b) if isinstance(a, int) and isinstance(b, int) else a / b
                if op == "Pow":
                    return a**b
            except TypeError:
                pass
        if isinstance(a, tuple) and isinstance(b, tuple) and op == "Add":
            return a + b
        na, nb = self.num(a), self.num(b)
        if na is not None and nb is not None:
            (ta, sa), (tb, sb) = na, nb
            if op in ("Add", "Sub", "Mult"):
                if sa != sb:
                    ta, tb, sa = _to_real(ta, sa), _to_real(tb, sb), TReal
                r = ta + tb if op == "Add" else ta - tb if op == "Sub" else ta * tb
                return SV(r, sa)
            if op == "Div":
                ta, tb = _to_real(ta, sa), _to_real(tb, sb)
                if not self.st.decide(tb != 0):
                    raise PyRaise("ZeroDivisionError", lineno)
                return SV(ta / tb, TReal)
            if op in ("FloorDiv", "Mod") and sa == TInt and sb == TInt:
                if not self.st.decide(tb != 0):
                    raise PyRaise("ZeroDivisionError", lineno)
                # python floor semantics; z3's div is floor division for a positive divisor
                q = z3.If(tb > 0, ta / tb, (-ta) / (-tb))
                return SV(q if op == "FloorDiv" else ta - tb * q, TInt)
            if op == "Pow" and isinstance(b, int) and 0 <= b <= 4:
                r = z3.RealVal(1) if sa == TReal else z3.IntVal(1)
                for _ in range(b):
                    r = r * ta
                return SV(r, sa)
        return self.models.binop(self, op, a, b, lineno, inplace)

    def num(self, v):
        if isinstance(v, bool):
            return z3.IntVal(int(v)), TInt
        if isinstance(v, int):
            return z3.IntVal(v), TInt
        if isinstance(v, float) and (v != v or v in (float("inf"), float("-inf"))):
            return None
        if isinstance(v, (float, Fraction)):
            return TReal.embed(self.st, float(v)) if isinstance(v, float) else z3.Q(v.numerator, v.denominator), TReal
        if isinstance(v, SV) and v.ty in (TInt, TReal):
            return v.term, v.ty
        if isinstance(v, SV) and v.ty == TBool:
            return z3.If(v.term, z3.IntVal(1), z3.IntVal(0)), TInt
        return None

    def ev_Compare(self, node):
        left = self.ev(node.left)
        result = None
        if self.no_fork and len(node.ops) > 1:
            # chained comparison inside a comprehension element (no forking there): the conjunction of the links (comparands are side-effect free values)
            links = []
            for op, rnode in zip(node.ops, node.comparators):
                right = self.ev(rnode)
                links.append(self.truth_term(self.compare(type(op).__name__, left, right, node.lineno)))
                left = right
            return SV(z3.And(*links), TBool)
        for op, rnode in zip(node.ops, node.comparators):
            right = self.ev(rnode)
            r = self.compare(type(op).__name__, left, right, node.lineno)
            if len(node.ops) == 1:
                if isinstance(op, (ast.Is, ast.IsNot)) and right is None and isinstance(node.left, ast.Name) and isinstance(left, SV) \
                        and isinstance(left.ty, TOpt) and isinstance(r, SV):
                    payload = left.ty.get(self.st, left.term, left.origin)
                    r.narrow = (node.left.id, None, payload) if isinstance(op, ast.Is) else (node.left.id, payload, None)
                return r
            # chained: short-circuit
            if not self.st.decide(self.truth(r)):
                return False
            result = r
            left = right
        return True

    def compare(self, op, a, b, lineno):
        r = self.models._plug("compare_any", self, op, a, b, lineno)
        if r is not NotImplemented:
            return r
        if op == "Is":
            return self.is_same(a, b)
        if op == "IsNot":
            return self.negate(self.is_same(a, b))
        if op == "In":
            return self.models.contains(self, b, a, lineno)
        if op == "NotIn":
            return self.negate(self.models.contains(self, b, a, lineno))
        if op == "Eq":
            return self.equals(a, b, lineno)
        if op == "NotEq":
            return self.negate(self.equals(a, b, lineno))
        na, nb = self.num(a), self.num(b)
        if na is not None and nb is not None:
            if is_concrete(a) and is_concrete(b):
                return {"Lt": a < b, "LtE": a <= b, "Gt": a > b, "GtE": a >= b}[op]
            (ta, sa), (tb, sb) = na, nb
            if sa != sb:
                ta, tb = _to_real(ta, sa), _to_real(tb, sb)
            return SV({"Lt": ta < tb, "LtE": ta <= tb, "Gt": ta > tb, "GtE": ta >= tb}[op], TBool)
        return self.models.compare(self, op, a, b, lineno)

    def negate(self, v):
        if isinstance(v, bool):
            return not v
        if isinstance(v, SV) and v.ty == TBool:
            return SV(z3.Not(v.term), TBool)
        t = self.truth(v)
        return (not t) if isinstance(t, bool) else SV(z3.Not(t), TBool)

    def is_same(self, a, b):
        if a is None or b is None:
            x = b if a is None else a
            if x is None:
                return True
            if isinstance(x, SV) and isinstance(x.ty, TOpt):
                return SV(x.ty.is_none(x.term), TBool)
            if isinstance(x, SV) and x.ty == TVal:
                return SV(x.term == val_none, TBool)
            return False
        if isinstance(a, bool) and isinstance(b, bool):
            return a == b
        if isinstance(a, bool) or isinstance(b, bool):
            x, y = (a, b) if isinstance(b, bool) else (b, a)
            if isinstance(x, SV) and x.ty == TBool:
                return SV(x.term == z3.BoolVal(y), TBool)
            return False
        if isinstance(a, Ref) and isinstance(b, Ref):
            return a.id == b.id
        if isinstance(a, ClassV) and isinstance(b, ClassV):
            return a.qualname == b.qualname
        if isinstance(a, SV) and isinstance(b, SV) and isinstance(a.ty, TAddr) and a.ty == b.ty:
            return SV(a.term == b.term, TBool)
        if isinstance(a, BuiltinV) and isinstance(b, BuiltinV):
            return a.name == b.name
        raise Unsupported(f"identity comparison of {a!r} and {b!r}")

    def equals(self, a, b, lineno):
        st = self.st
        if is_concrete(a) and is_concrete(b) and _deep_concrete(a) and _deep_concrete(b):
            return a == b
        if a is None or b is None:
            return self.is_same(a, b)
        if isinstance(a, Ref) and isinstance(b, Ref) and a.id == b.id:
            return True
        sa = a.ty if isinstance(a, SV) else None
        sb = b.ty if isinstance(b, SV) else None
        na, nb = self.num(a), self.num(b)
        if na is not None and nb is not None:
            (ta, xa), (tb, xb) = na, nb
            if xa != xb:
                ta, tb = _to_real(ta, xa), _to_real(tb, xb)
            return SV(ta == tb, TBool)
        if (sa == TStr or isinstance(a, str)) and (sb == TStr or isinstance(b, str)):
            return SV(TStr.embed(st, a) == TStr.embed(st, b), TBool)
        if isinstance(a, SV) and isinstance(b, SV) and a.ty == b.ty:
            return SV(a.term == b.term, TBool)
        if isinstance(a, SV) and isinstance(a.ty, TOpt):
            return SV(a.term == a.ty.embed(st, b), TBool)
        if isinstance(b, SV) and isinstance(b.ty, TOpt):
            return SV(b.term == b.ty.embed(st, a), TBool)
        return self.models.equals(self, a, b, lineno)

    def ev_Attribute(self, node):
        obj = self.ev(node.value)
        return self.get_attr(obj, node.attr, node.lineno)

    def get_attr(self, obj, attr, lineno):
        st = self.st
        if isinstance(obj, Ref):
            o = st.heap[obj.id]
            if isinstance(o, PyObj):
                mattr = self.mangled(attr)
                m = S.find_method(o.cls, mattr)
                if m is not None:
                    if m.kind == "property":
                        return self.call_repo(m, [obj], {}, lineno)
                    if m.kind == "staticmethod":
                        return BoundMethod(None, m)
                    if m.kind == "classmethod":
                        return BoundMethod(ClassV(o.cls), m)
                    return BoundMethod(obj, m)
                if mattr in o.fields:
                    return o.fields[mattr]
                ci, expr = S.find_class_attr(o.cls, mattr)
                if ci is not None:
                    return self.class_attr(ci, mattr, expr)
                nq = S.find_nested_class(o.cls, attr)
                if nq is not None:
                    return ClassV(nq)
                v = self.models.pyobj_attr(self, obj, o, mattr, lineno)
                if v is not NotImplemented:
                    return v
                raise Unsupported(f"attribute {mattr} of {o.cls} (no field, method or class attribute; declare it in the schema)")
            v = self.models._plug("ref_attr", self, obj, o, attr, lineno)
            if v is not NotImplemented:
                return v
            return BoundMethod(obj, None, attr)
        if isinstance(obj, SuperV):
            o = st.heap[obj.recv.id] if isinstance(obj.recv, Ref) else None
            cls = o.cls if o is not None else obj.recv.qualname
            m = S.find_method(cls, self.mangled(attr), start_after=obj.after)
            if m is None:
                return BoundMethod(obj.recv, None, f"super.{attr}")
            if m.kind == "property":
                return self.call_repo(m, [obj.recv], {}, lineno)
            return BoundMethod(obj.recv, m)
        if isinstance(obj, ClassV):
            mattr = self.mangled(attr)
            m = S.find_method(obj.qualname, mattr)
            if m is not None:
                if m.kind == "classmethod":
                    return BoundMethod(obj, m)
                return BoundMethod(None, m)
            ci, expr = S.find_class_attr(obj.qualname, mattr)
            if ci is not None:
                return self.class_attr(ci, mattr, expr)
            nq = S.find_nested_class(obj.qualname, attr)
            if nq is not None:
                return ClassV(nq)
            v = self.models.class_attr(self, obj, mattr)
            if v is not NotImplemented:
                return v
            raise Unsupported(f"class attribute {obj.qualname}.{mattr}")
        if isinstance(obj, SV) and isinstance(obj.ty, TRec) and attr in obj.ty.fields:
            return obj.ty.get_field(st, obj.term, attr, obj.origin)
        if isinstance(obj, RecV) and attr in obj.vals:
            return obj.vals[attr]
        if isinstance(obj, ModuleV):
            return self.qualified(f"{obj.name}.{attr}")
        if isinstance(obj, BuiltinV):
            v = self.models.builtin_constant(self, f"{obj.name}.{attr}")
            if v is not NotImplemented:
                return v
            return BuiltinV(f"{obj.name}.{attr}")
        return self.models.value_attr(self, obj, attr, lineno)

    def class_attr(self, ci, name, expr):
        v = self.models.class_constant(self, ci, name)
        if v is not NotImplemented:
            return v
        if isinstance(expr, ast.Call) and isinstance(expr.func, ast.Name) and expr.func.id in ("staticmethod", "classmethod") and \
                len(expr.args) == 1 and isinstance(expr.args[0], ast.Name):
            return self.global_name(ci.module, expr.args[0].id)
        if isinstance(expr, ast.Name):
            return self.global_name(ci.module, expr.id)
        return self.eval_in_module(ci.module, expr)

    def ev_Subscript(self, node):
        cont = self.ev(node.value)
        key = self.ev_slice(node.slice)
        return self.models.getitem(self, cont, key, node.lineno)

    def ev_slice(self, node):
        if isinstance(node, ast.Slice):
            return ("slice", self.ev(node.lower) if node.lower else None, self.ev(node.upper) if node.upper else None,
                    self.ev(node.step) if node.step else None)
        if isinstance(node, ast.Tuple) and any(isinstance(e, ast.Slice) for e in node.elts):
            return tuple(self.ev_slice(e) for e in node.elts)
        return self.ev(node)

    def ev_Starred(self, node):
        raise Unsupported("starred expression")

    def ev_Yield(self, node):
        fr = self.frame
        if "__yield__" not in fr.env:
            raise Unsupported("yield outside a generator under contract")
        v = self.ev(node.value) if node.value is not None else None
        self.models.call_method(self, fr.env["__yield__"], "append", [v], {}, node.lineno)
        return None

    def ev_NamedExpr(self, node):
        v = self.ev(node.value)
        self.assign(node.target, v)
        return v

    # ---- comprehensions
    def ev_ListComp(self, node):
        return self.models.comprehension(self, node, "list")

    def ev_SetComp(self, node):
        return self.models.comprehension(self, node, "set")

    def ev_DictComp(self, node):
        return self.models.comprehension(self, node, "dict")

    def ev_GeneratorExp(self, node):
        return self.models.comprehension(self, node, "gen")

    # ------------------------------------------------------------------ truthiness
    def truth(self, v):
        """Python truth value: bool or z3 Bool."""
        st = self.st
        if v is None:
            return False
        if isinstance(v, (bool, int, float, str, tuple, Fraction)):
            return bool(v)
        if isinstance(v, SV):
            if v.ty == TBool:
                return v.term
            if v.ty == TInt:
                return v.term != 0
            if v.ty == TReal:
                return v.term != 0
            if isinstance(v.ty, TOpt):
                inner = v.ty.inner
                if isinstance(inner, (TRec, TAddr)) or inner in (TVal,):
                    return z3.Not(v.ty.is_none(v.term))
                if inner in (TInt, TReal, TBool):
                    it = self.truth(SV(v.ty.dt.get(v.term), inner))
                    return z3.And(z3.Not(v.ty.is_none(v.term)), it)
            if v.ty == TStr:
                return self.models.str_nonempty(v.term)
            if isinstance(v.ty, TRec):
                if v.ty == TRange:
                    return TRange.accessor("stop")(v.term) > TRange.accessor("start")(v.term)
                return True
            return self.models.truth(self, v)
        if isinstance(v, Ref):
            o = st.heap[v.id]
            if isinstance(o, (DictObj, SetObj, ListObj)):
                return o.n != 0
            if isinstance(o, PyObj):
                for name in ("__bool__", "__len__"):
                    m = S.find_method(o.cls, name)
                    if m is not None:
                        return self.truth(self.call_repo(m, [v], {}, 0))
                r = self.models.pyobj_truth(self, v, o)
                if r is not NotImplemented:
                    return r
                return True
            return self.models.truth(self, v)
        if isinstance(v, (FunV, ClassV, FuncV, BoundMethod, LambdaV, BuiltinV)):
            return True
        if isinstance(v, IterV):
            return True
        return self.models.truth(self, v)

    def truth_term(self, v):
        t = self.truth(v)
        return z3.BoolVal(t) if isinstance(t, bool) else t

    # ------------------------------------------------------------------ iteration
    def to_iter(self, v, lineno) -> IterV:
        st = self.st
        if isinstance(v, IterV):
            return v
        if isinstance(v, tuple):
            return IterV(z3.IntVal(len(v)), lambda i: _tuple_elem(self, v, i), concrete=list(v))
        if isinstance(v, SV) and v.ty == TRange:
            a, b = TRange.accessor("start")(v.term), TRange.accessor("stop")(v.term)
            n = z3.If(b > a, b - a, z3.IntVal(0))
            conc = None
            sa, sb = z3.simplify(a), z3.simplify(b)
            if z3.is_int_value(sa) and z3.is_int_value(sb):
                conc = list(range(sa.as_long(), sb.as_long()))
            it = IterV(n, lambda i: SV(a + i, TInt), concrete=conc)
            it.elem_type = TInt  # list(range(..)) of a symbolic range
            return it
        if isinstance(v, Ref):
            o = st.heap[v.id]
            if isinstance(o, ListObj):
                conc = None
                sn = z3.simplify(o.n)
                if z3.is_int_value(sn) and sn.as_long() <= 12:
                    conc = [o.t.project(st, z3.simplify(o.elems[i]), (v, z3.IntVal(i), "list")) for i in range(sn.as_long())]
                return IterV(o.n, lambda i: o.t.project(st, o.elems[i], (v, i, "list")), concrete=conc)
            if isinstance(o, DictObj):
                o.ensure_order(st)
                keys, n = o.keys, o.n
                conc = None
                sn = z3.simplify(n)
                if z3.is_int_value(sn) and sn.as_long() == 0:
                    conc = []
                seq = IterV(n, lambda i: o.k.project(st, keys[i]), concrete=conc)
                seq.keys, seq.pos, seq.member = o.keys, o.pos, o.member
                seq.source_dict = v
                return seq
            if isinstance(o, SetObj):
                keys = st.fresh_const("senum", z3.ArraySort(z3.IntSort(), o.k.sort()))
                pos = st.fresh_const("spos", z3.ArraySort(o.k.sort(), z3.IntSort()))
                k = z3.Const("k!se", o.k.sort())
                i = z3.Int("i!se")
                # (opt-in, set by a plugin on its own sets: the membership term is an alternative trigger of the enumeration axiom)
                extra = [o.member[k]] if getattr(o, "enum_trigger_on_member", False) else []
                st.assume(z3.ForAll([k], z3.Implies(o.member[k], z3.And(0 <= pos[k], pos[k] < o.n, keys[pos[k]] == k)), patterns=[pos[k]] + extra))
                st.assume(z3.ForAll([i], z3.Implies(z3.And(0 <= i, i < o.n), z3.And(o.member[keys[i]], pos[keys[i]] == i)), patterns=[keys[i]]))
                seq = IterV(o.n, lambda i: o.k.project(st, keys[i]))
                seq.keys, seq.pos = keys, pos
                seq.source_set = (o.k, o.member, o.n)  # the iterated set at this moment (immutable terms)
                sn = z3.simplify(o.n)
                if z3.is_int_value(sn) and sn.as_long() == 0:
                    seq.concrete = []
                return seq
            if isinstance(o, PyObj):
                m = S.find_method(o.cls, "__iter__")
                if m is not None:
                    return self.to_iter(self.call_repo(m, [v], {}, lineno), lineno)
        return self.models.to_iter(self, v, lineno)

    # ------------------------------------------------------------------ calls
    def ev_Call(self, node):
        st = self.st
        # super()
        if isinstance(node.func, ast.Name) and node.func.id == "super" and not node.args:
            fr = self.frame
            first = fr.finfo.node.args.args[0].arg
            return SuperV(fr.env[first], fr.cls.qualname)
        fv = self.ev(node.func)
        args = []
        for a in node.args:
            if isinstance(a, ast.Starred):
                v = self.ev(a.value)
                if isinstance(v, tuple):
                    args.extend(v)
                else:
                    seq = self.to_iter(v, node.lineno)
                    if seq.concrete is None:
                        args.append(("*", v))
                    else:
                        args.extend(seq.concrete)
            else:
                args.append(self.ev(a))
        kwargs = {}
        for kw in node.keywords:
            if kw.arg is None:
                v = self.ev(kw.value)
                o = st.heap[v.id] if isinstance(v, Ref) else None
                if isinstance(o, DictObj) and z3.is_int_value(z3.simplify(o.n)) and z3.simplify(o.n).as_long() == 0:
                    continue
                exp = self.models._plug("expand_kwargs", self, v)  # `**d` of a dict with a known key set (plug_c14): explicit keywords
                if exp is not NotImplemented:
                    kwargs.update(exp)
                    continue
                kwargs["**"] = v
            else:
                kwargs[kw.arg] = self.ev(kw.value)
        return self.call_value(fv, args, kwargs, node.lineno, node)

    def call_value(self, fv, args, kwargs, lineno, node=None):
        st = self.st
        if isinstance(fv, BoundMethod):
            if fv.finfo is not None:
                a = ([fv.recv] if fv.recv is not None else []) + list(args)
                return self.call_repo(fv.finfo, a, kwargs, lineno)
            return self.models.call_method(self, fv.recv, fv.name, args, kwargs, lineno)
        if isinstance(fv, FuncV):
            return self.call_repo(S.load_function(fv.qualname), list(args), kwargs, lineno)
        if isinstance(fv, ClassV):
            return self.construct(fv, args, kwargs, lineno)
        if isinstance(fv, FunV):
            return self.models.call_funv(self, fv, args, kwargs, lineno)
        if isinstance(fv, LambdaV):
            return self.call_lambda(fv, args, kwargs, lineno)
        if isinstance(fv, BuiltinV):
            return self.models.call_builtin(self, fv.name, args, kwargs, lineno, node)
        r = self.models.call_opaque(self, fv, args, kwargs, lineno)
        if r is not NotImplemented:
            return r
        raise Unsupported(f"call of {fv!r}")

    def call_lambda(self, lv, args, kwargs, lineno):
        params = [a.arg for a in lv.node.args.args]
        env = dict(lv.frame.env)
        for p, a in zip(params, args):
            env[p] = a
        env.update(kwargs)
        fr = Frame.__new__(Frame)
        fr.finfo, fr.env, fr.module, fr.cls, fr.loop_ids = lv.frame.finfo, env, lv.frame.module, lv.frame.cls, {}
        fr.local_names = set(params)
        self.st.frames.append(fr)
        try:
            return self.ev(lv.node.body)
        finally:
            self.st.frames.pop()

    def construct(self, cv: ClassV, args, kwargs, lineno):
        st = self.st
        r = self.models.construct(self, cv, args, kwargs, lineno)
        if r is not NotImplemented:
            return r
        if exc_is_subclass(cv.qualname, "BaseException"):
            return st.alloc(ExcObj(cv.qualname))
        if C.has_schema(cv.qualname):
            init = S.find_method(cv.qualname, "__init__")
            o = PyObj(cv.qualname, {})
            ref = st.alloc(o)
            o.fresh_created = True
            if init is not None:
                self.call_repo(init, [ref, *args], kwargs, lineno)
            return ref
        raise Unsupported(f"construction of {cv.qualname} (no schema/model)")

    def bind_params(self, fi, args, kwargs, lineno):
        a = fi.node.args
        pos = [x.arg for x in a.posonlyargs + a.args]
        kwonly = [x.arg for x in a.kwonlyargs]
        defaults = self._defaults(fi)
        bound = {}
        args = list(args)
        star = None
        if any(isinstance(x, tuple) and len(x) == 2 and x[0] == "*" for x in args):
            # f(p1, .., pn, *iterable) into `def f(p1, .., pn, *names)`: the vararg is the sequence of the iterable's elements
            if a.vararg is None or len(args) != len(pos) + 1 or any(isinstance(x, tuple) and len(x) == 2 and x[0] == "*" for x in args[:-1]):
                raise Unsupported("symbolic *args forwarding")
            star = self.models.call_builtin(self, "tuple", [args[-1][1]], {}, lineno)
            args = args[:-1]
            if isinstance(star, tuple):
                args.extend(star)
                star = None
        for name, v in zip(pos, args):
            bound[name] = v
        extra = args[len(pos):]
        if star is not None:
            bound[a.vararg.arg] = star
        elif extra:
            if a.vararg is None:
                raise PyRaise("TypeError", lineno)
            bound[a.vararg.arg] = tuple(extra)
        elif a.vararg is not None:
            bound[a.vararg.arg] = ()
        rest = {}
        star_rest = None
        for k, v in kwargs.items():
            if k == "**":
                # f(.., **d) with a symbolic dict of string keys into a signature without **kwargs (CPython semantics): a key naming a
                # parameter binds it (TypeError when it is already bound), any other key is a TypeError; absent parameters keep their defaults
                d = self.st.heap[v.id] if isinstance(v, Ref) else None
                if isinstance(d, DictObj) and d.k == TStr and a.kwarg is not None and not a.posonlyargs and not rest and not d.is_empty_literal:
                    # f(.., **d) into `def f(.., **kw)` (CPython semantics): a key naming a parameter binds it (TypeError when it is already
                    # bound), the other entries make up the callee's **kw (a new dict)
                    dd = d.clone()
                    dd.origin = None
                    for p in [x.arg for x in a.args] + kwonly:
                        if self.st.decide(d.member[str_lit(p)]):
                            if p in bound:
                                raise PyRaise("TypeError", lineno)
                            bound[p] = d.v.project(self.st, d.vals[str_lit(p)])
                            dd.delete(self.st, str_lit(p))
                    star_rest = self.st.alloc(dd)
                    continue
                if not isinstance(d, DictObj) or d.k != TStr or a.kwarg is not None or a.posonlyargs:
                    raise Unsupported("symbolic **kwargs forwarding")
                names = [x.arg for x in a.args] + kwonly
                kq = z3.Const("k!kw", TStr.sort())
                if not self.st.decide(z3.ForAll([kq], z3.Implies(d.member[kq], z3.Or(*[kq == str_lit(p) for p in names]))) if names else d.n == 0):
                    raise PyRaise("TypeError", lineno)
                for p in names:
                    if self.st.decide(d.member[str_lit(p)]):
                        if p in bound:
                            raise PyRaise("TypeError", lineno)
                        bound[p] = d.v.project(self.st, d.vals[str_lit(p)])
                continue
            if k in pos or k in kwonly:
                bound[k] = v
            elif a.kwarg is not None:
                rest[k] = v
            else:
                raise PyRaise("TypeError", lineno)
        if a.kwarg is not None and star_rest is not None:
            if rest:
                raise Unsupported("explicit keywords after a symbolic **kwargs forwarding")
            bound[a.kwarg.arg] = star_rest
        elif a.kwarg is not None:
            bound[a.kwarg.arg] = self.models.make_dict(self, list(rest.keys()), list(rest.values()))
        missing = [p for p in pos + kwonly if p not in bound]
        return bound, missing, defaults

    def call_repo(self, fi, args, kwargs, lineno, setter=False):
        """Call of a repository function: callee contract, declared external, or inlining."""
        st = self.st
        ct = C.lookup(fi.qualname, setter or fi.kind == "setter")
        cv = getattr(self.contract, "callee_variants", None)
        if cv:
            # opt-in: the verified contract names the contract variant of a callee to be used at its call sites (`qualname[#setter]` -> variant)
            key = fi.qualname + ("#setter" if setter or fi.kind == "setter" else "")
            if key in cv:
                ct = C.all_contracts().get(f"{key}@{cv[key]}", ct)
        if ct is not None and not ct.inline_ok:
            return self.apply_contract(ct, fi, args, kwargs, lineno)
        ext = C.lookup_external(fi.qualname)
        if ext is not None:
            self.assumed.add(f"external:{fi.qualname}")
            return ext(self, args, kwargs, lineno)
        r = self.models.call_repo_model(self, fi, args, kwargs, lineno)
        if r is not NotImplemented:
            return r
        return self.inline(fi, args, kwargs, lineno)

    def inline(self, fi, args, kwargs, lineno):
        st = self.st
        if len(st.frames) > MAX_INLINE_DEPTH:
            raise Undecided(f"inlining depth exceeded at {fi.qualname}")
        if any(isinstance(x, (ast.Yield, ast.YieldFrom)) for x in ast.walk(fi.node)):
            raise Unsupported(f"generator {fi.qualname} needs a contract")
        bound, missing, defaults = self.bind_params(fi, args, kwargs, lineno)
        frame = Frame(fi, bound)
        st.frames.append(frame)
        self.inlined.add(fi.qualname)
        try:
            for p in missing:
                if p not in defaults:
                    raise PyRaise("TypeError", lineno)
                frame.env[p] = self.ev(defaults[p])
            try:
                self.exec_block(fi.node.body)
            except ReturnSig as r:
                return r.value
            return None
        finally:
            st.frames.pop()

    def apply_contract(self, ct, fi, args, kwargs, lineno):
        st = self.st
        bound, missing, defaults = self.bind_params(fi, args, kwargs, lineno)
        frame = Frame(fi, bound)
        st.frames.append(frame)
        try:
            for p in missing:
                if p not in defaults:
                    raise PyRaise("TypeError", lineno)
                bound[p] = self.ev(defaults[p])
        finally:
            st.frames.pop()
        for p, t in ct.params.items():
            if p in bound:
                bound[p] = self.coerce(bound[p], t)
        self.callee_contracts.add(fi.qualname)
        short = fi.qualname.rsplit(".", 2)[-2:] if fi.cls is not None else [fi.qualname.rsplit(".", 1)[-1]]
        short = ".".join(short)
        c0 = C.Ctx(st, st.heap, st.heap, bound)
        for label, f in self._spec(ct.requires, c0):
            self.check(f, "pre", f"{short}:{label}", lineno, aux=True)
        for label, f in self._spec(ct.axioms, c0):
            st.assume(f)
        old = st.snapshot()
        for path in ct.modifies:
            self.havoc_path(path, bound)
        result = ct.returns.fresh(st, f"ret_{short}") if ct.returns is not None else None
        c = C.Ctx(st, old, st.heap, bound, result)
        outcomes = [None] + [en for en, cond in ct.raises.items()]
        pick = st.choose(len(outcomes)) if len(outcomes) > 1 else 0
        if pick == 0:
            for label, f in self._spec(ct.ensures, c):
                st.assume(f)
            if ct.raises_exact:
                for en, cond in ct.raises.items():
                    if cond is not None:
                        st.assume(z3.Not(cond(c)))
            if not st.feasible():
                raise PathEnd
            return result
        en = outcomes[pick]
        cond = ct.raises[en]
        if cond is not None:
            st.assume(cond(c))
        for label, f in self._spec(ct.raise_ensures, c, en):
            st.assume(f)
        if not st.feasible():
            raise PathEnd
        raise PyRaise(en, lineno)


def _deep_concrete(v):
    """A tuple is only a concrete value if all its items are (a tuple of symbolic values / heap references is compared item by item)."""
    return all(is_concrete(x) and _deep_concrete(x) for x in v) if isinstance(v, tuple) else True


def _same(a, b):
    if a is None or b is None:
        return a is b
    return a.eq(b)


def _to_real(t, s):
    return z3.ToReal(t) if s == TInt else t


def _as_load(node):
    import copy

    n = copy.copy(node)
    n.ctx = ast.Load()
    return n


def _tuple_elem(ex, tup, i):
    si = z3.simplify(i) if not isinstance(i, int) else i
    if isinstance(si, int):
        return tup[si]
    if z3.is_int_value(si):
        return tup[si.as_long()]
    # symbolic index into a concrete tuple of embeddable values
    t = type_of_value(ex.st, tup[0])
    term = t.embed(ex.st, tup[-1])
    for j in range(len(tup) - 2, -1, -1):
        term = z3.If(i == j, t.embed(ex.st, tup[j]), term)
    return t.project(ex.st, term)
