"""Sidecar contract DSL (DESIGN.md §2.5).

A contract is a subclass of :class:`Contract` registered for one or more real functions by
qualified name.  ``requires/ensures`` return lists of ``(label, z3 Bool)`` built from *views* of
the entry state (``c.old``), the exit state (``c.new``), the arguments and the result.
"""
from __future__ import annotations

import z3

from .values import (DictObj, ListObj, PyObj, Ref, SetObj, SV, T, TObj, Unsupported, FunV, RecV, TRec, TOpt, TList)

_registry: dict[str, "Contract"] = {}
_schemas: dict[str, dict[str, T]] = {}
_pure_external: dict[str, object] = {}


def schema(cls_qualname: str, fields: dict[str, T], bases: list[str] = ()):  # noqa: B006
    d = {}
    for b in bases:
        d.update(_schemas[b])
    d.update(fields)
    _schemas[cls_qualname] = d
    return d


def class_schema(cls_qualname: str) -> dict[str, T]:
    if cls_qualname not in _schemas:
        raise Unsupported(f"no field schema declared for class {cls_qualname}")
    return _schemas[cls_qualname]


def has_schema(cls_qualname: str) -> bool:
    return cls_qualname in _schemas


class LoopSpec:
    """Invariant of the ``ordinal``-th loop (source order) of a function.

    ``anchor``: ``ast.unparse`` of the loop's iterable (for) or test (while); a mismatch makes the
    check undecided.  ``inv(c, k)`` -> list of (label, z3 Bool); ``k`` = number of completed
    iterations.  ``modifies``: access paths of heap objects the body may mutate.
    ``local_types``: types of locals first assigned inside the loop.
    """

    def __init__(self, anchor: str, inv, modifies=(), local_types=None, decreases=None, lemmas=None):
        self.anchor, self.inv, self.modifies = anchor, inv, tuple(modifies)
        self.local_types = local_types or {}
        self.decreases = decreases  # (c, k) -> integer measure: >= 0 and strictly decreasing over an iteration (checked)
        self.lemmas = lemmas  # c -> [(label, formula)]: cited mathematical lemmas assumed when the loop is left (listed as assumptions)


class Contract:
    targets: tuple = ()  # qualified names of the real functions this contract is checked against
    prop: tuple = ()  # property ids served
    params: dict = {}  # parameter name -> T   (``self`` comes from the class schema)
    self_class: str | None = None  # class whose schema types ``self`` (default: the defining class)
    returns: T | None = None  # type of the result (needed when used as a callee summary)
    modifies: tuple = ()  # access paths ("self", "self._database", "arg")
    raises: dict = {}  # exception class name -> lambda c: z3 Bool (allowed iff, over the entry state)
    raises_exact: bool = True  # a normal return then implies that no `raises` condition held
    loops: dict = {}  # ordinal -> LoopSpec
    setter: bool = False
    inline_ok: bool = False  # callers may inline the body instead of using the summary
    pure: bool = False  # no heap effect at all (modifies = ())
    witnesses = None  # callable returning concrete witness inputs (vacuity guard / replay)
    description: str = ""

    def requires(self, c) -> list:
        return []

    def ensures(self, c) -> list:
        return []

    def axioms(self, c) -> list:
        """Definitional axioms of ghost/spec functions (recursive definitions): assumed when the function is
        verified AND at call sites (never checked; listed in the evidence)."""
        return []

    def finding_regions(self, c) -> dict:
        """Named regions of the entry state (z3 Bool) used by known_findings.json entries."""
        return {}

    def raise_ensures(self, c, exc: str) -> list:
        """Facts about the state when ``exc`` is raised (default: nothing known)."""
        return []


def register(cls):
    inst = cls()
    if getattr(cls, "lemma", False):
        _registry[f"lemma:{cls.__module__}.{cls.__name__}"] = inst
    for t in cls.targets:
        key = t + ("#setter" if cls.setter else "") + (f"@{cls.variant}" if getattr(cls, "variant", None) else "")
        _registry[key] = inst
    return cls


def lookup(qualname: str, setter: bool = False):
    return _registry.get(qualname + ("#setter" if setter else ""))


def all_contracts():
    return dict(_registry)


def pure_external(qualname: str, fn):
    """Declare an external function as an uninterpreted function (listed as an assumption)."""
    _pure_external[qualname] = fn


def lookup_external(qualname: str):
    return _pure_external.get(qualname)


# --------------------------------------------------------------------------- views
class View:
    """Read-only access to a value in a given heap, for writing specifications."""

    def __init__(self, heap: dict, value, st=None):
        object.__setattr__(self, "_heap", heap)
        object.__setattr__(self, "_v", value)
        object.__setattr__(self, "_st", st)

    def _wrap(self, v):
        if isinstance(v, SV) and not isinstance(v.ty, (TRec, TOpt)):
            return v.term
        if isinstance(v, (Ref, SV, RecV)):
            return View(self._heap, v, self._st)
        return v

    @property
    def obj(self):
        if isinstance(self._v, Ref):
            return self._heap[self._v.id]
        return None

    @property
    def ref(self):
        return self._v

    @property
    def term(self):
        if isinstance(self._v, SV):
            return self._v.term
        raise Unsupported("view has no term")

    def __getattr__(self, name):
        v = self._v
        if isinstance(v, Ref):
            o = self._heap[v.id]
            if isinstance(o, PyObj):
                if name in o.fields:
                    return self._wrap(o.fields[name])
                raise AttributeError(f"{o.cls} has no declared field {name}")
            if isinstance(o, DictObj):
                if name in ("member", "vals", "n", "keys", "pos"):
                    return getattr(o, name)
            if isinstance(o, SetObj) and name in ("member", "n"):
                return getattr(o, name)
            if isinstance(o, ListObj) and name in ("n", "elems"):
                return getattr(o, name)
        if isinstance(v, SV) and isinstance(v.ty, TRec) and name in v.ty.fields:
            if isinstance(v.ty.fields[name], TList):  # a list embedded in a record: a view of the value itself (nothing is allocated)
                return View(self._heap, SV(v.ty.accessor(name)(v.term), v.ty.fields[name]), self._st)
            return self._wrap(v.ty.get_field(self._st, v.term, name))
        if isinstance(v, SV) and isinstance(v.ty, TList) and name in ("n", "elems"):
            return v.ty.dt.accessor(0, 0 if name == "n" else 1)(v.term)
        if isinstance(v, RecV) and name in v.vals:
            return self._wrap(v.vals[name])
        raise AttributeError(name)

    # dict / set helpers
    def has(self, k):
        return self.obj.member[k]

    def get(self, k):
        return self.obj.vals[k]

    def is_none(self):
        v = self._v
        if v is None:
            return z3.BoolVal(True)
        if isinstance(v, SV) and isinstance(v.ty, TOpt):
            return v.ty.is_none(v.term)
        return z3.BoolVal(False)


def same_dict(a: View, b: View, K):
    """Extensional equality of two dict views (membership and values on members)."""
    k = z3.Const("k!sd", K.sort())
    return z3.ForAll([k], z3.And(a.has(k) == b.has(k), z3.Implies(a.has(k), a.get(k) == b.get(k))))


class Ctx:
    """What a specification sees."""

    def __init__(self, st, old_heap, new_heap, args: dict, result=None, extra=None):
        self.st = st
        self._old_heap, self._new_heap = old_heap, new_heap
        self._args = args
        self.result_value = result
        self.extra = extra or {}

    class _NS:
        def __init__(self, heap, args, st):
            self._heap, self._args, self._st = heap, args, st

        def __getattr__(self, name):
            if name in self._args:
                return View(self._heap, self._args[name], self._st)._wrap(self._args[name])
            raise AttributeError(name)

    @property
    def old(self):
        return Ctx._NS(self._old_heap, self._args, self.st)

    @property
    def new(self):
        return Ctx._NS(self._new_heap, self._args, self.st)

    @property
    def result(self):
        return View(self._new_heap, self.result_value, self.st)._wrap(self.result_value)

    def arg(self, name):
        return self._args[name]

    # symbolic heaps (TAddr) and allocation counter
    @property
    def old_ctr(self):
        return self._old_heap.ctr

    @property
    def new_ctr(self):
        return self._new_heap.ctr

    def old_ghost(self, name, sort):
        return self._old_heap.sym.get(name, z3.Const(f"heap0_{name}", sort))

    def new_ghost(self, name, sort):
        return self._new_heap.sym.get(name, z3.Const(f"heap0_{name}", sort))

    def old_sym(self, name, content_sort):
        return self._old_heap.sym.get(name, z3.Const(f"heap0_{name}", z3.ArraySort(z3.IntSort(), content_sort)))

    def new_sym(self, name, content_sort):
        return self._new_heap.sym.get(name, z3.Const(f"heap0_{name}", z3.ArraySort(z3.IntSort(), content_sort)))
