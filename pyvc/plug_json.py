"""C15 (JSON grammars) / C20 (pickled state of JSONGrammar and HDF5Cache) plugin.

Everything here is gated on the plugin's own types / on heap objects of the classes it models.

* ``TPv``: an opaque *picklable value* (sort ``AttrVal`` of plug_serial, so that instance dictionaries ``TDict(TStr, TPv)`` have the
  sort of the C20 instance dictionaries).  ``str(v)`` / truthiness / ``isinstance(v, str)`` are uninterpreted (``pv_str``, ``pv_truthy``,
  ``pv_is_str``) with the CPython facts ``str(s) == s`` for a str and ``isinstance(str(v), str)``.
* ``HDF5FileSingleton(path)`` (a multiton keyed by ``realpath(path)``): ASSUMED to return an object attached to the same file
  (``pv_realpath(obj.hdf_file_path) == pv_realpath(path)``); TypeError when the argument is not a str.
"""
from __future__ import annotations

import z3

from . import contract as C
from . import source as S
from .plug_serial import AttrS
from .values import (BoundMethod, BuiltinV, ClassV, DictObj, ListObj, PyObj, Ref, SetObj, SV, T, TBool, TDict, TInt, TList, TObj, TOpt, TSet, TStr, TVal,
                     Unsupported, ValS, str_lit, val_none, val_of_str)

# ---------------------------------------------------------------------------- picklable opaque values
pv_of_str = z3.Function("pv_of_str", TStr.sort(), AttrS)
pv_of_real = z3.Function("pv_of_real", z3.RealSort(), AttrS)
pv_of_int = z3.Function("pv_of_int", z3.IntSort(), AttrS)
pv_str = z3.Function("pv_str", AttrS, AttrS)  # str(v)
pv_truthy = z3.Function("pv_truthy", AttrS, z3.BoolSort())  # bool(v)
pv_is_str = z3.Function("pv_is_str", AttrS, z3.BoolSort())  # isinstance(v, str)
pv_realpath = z3.Function("pv_realpath", AttrS, AttrS)  # os.path.realpath(v): the identity of the file


class _TPv(T):
    name = "PickledVal"

    def sort(self):
        return AttrS

    def embed(self, st, v):
        if isinstance(v, SV) and v.ty.sort() == AttrS:
            return v.term
        if isinstance(v, str):
            return pv_of_str(str_lit(v))
        if isinstance(v, SV) and v.ty == TStr:
            return pv_of_str(v.term)
        if isinstance(v, bool):
            return pv_of_int(z3.IntVal(int(v)))
        if isinstance(v, int):
            return pv_of_int(z3.IntVal(v))
        if isinstance(v, float):
            return pv_of_real(z3.RealVal(repr(v)))
        raise Unsupported(f"cannot embed {v!r} as a picklable value")


TPv = _TPv()


def pv_axioms():
    """CPython facts about str / bool on the opaque values (stated as hypotheses by the contracts that need them)."""
    v = z3.Const("v!pv", AttrS)
    s = z3.Const("s!pv", TStr.sort())
    from .models import str_nonempty_f

    return [
        z3.ForAll([v], pv_is_str(pv_str(v)), patterns=[pv_str(v)]),
        z3.ForAll([v], z3.Implies(pv_is_str(v), pv_str(v) == v), patterns=[pv_str(v)]),
        z3.ForAll([s], z3.And(pv_is_str(pv_of_str(s)), pv_truthy(pv_of_str(s)) == str_nonempty_f(s)), patterns=[pv_of_str(s)]),
    ]


def _is_pv(v):
    return isinstance(v, SV) and v.ty == TPv


HDF_SINGLETON = "gemseo.caches._hdf5_file_singleton.HDF5FileSingleton"


class JsonModels:
    # ------------------------------------------------------------------ opaque picklable values
    def coerce(self, ex, v, t):
        if t == TPv and not _is_pv(v) and not isinstance(v, Ref) and v is not None:
            try:
                return SV(TPv.embed(ex.st, v), TPv)
            except Unsupported:
                return NotImplemented
        return NotImplemented

    def truth(self, ex, v):
        if _is_pv(v):
            return pv_truthy(v.term)
        return NotImplemented

    def isinstance_(self, ex, v, cls):
        if _is_pv(v) and isinstance(cls, BuiltinV) and cls.name == "str":
            return SV(pv_is_str(v.term), TBool)
        return NotImplemented

    def call_builtin(self, ex, name, args, kwargs, lineno, node=None):
        if name == "str" and len(args) == 1 and _is_pv(args[0]):
            return SV(pv_str(args[0].term), TPv)
        return NotImplemented

    # ------------------------------------------------------------------ HDF5FileSingleton (multiton per real path)
    def construct(self, ex, cv, args, kwargs, lineno):
        from .engine import PyRaise

        st = ex.st
        if cv.qualname == HDF_SINGLETON and len(args) == 1 and _is_pv(args[0]) and C.has_schema(HDF_SINGLETON + "#c20"):
            if not st.decide(pv_is_str(args[0].term)):
                raise PyRaise("TypeError", lineno)
            ref = TObj(HDF_SINGLETON, schema_key=HDF_SINGLETON + "#c20").fresh(st, "hdf_file")
            p = st.heap[ref.id].fields["hdf_file_path"]
            st.assume(z3.And(pv_realpath(p.term) == pv_realpath(args[0].term), pv_is_str(p.term)))
            ex.assumed.add("model:HDF5FileSingleton(path) is the handler of the file realpath(path) (multiton)")
            return ref
        return NotImplemented


# ============================================================================ C15: JSON grammars
JG = "gemseo.core.grammars.json_grammar.JSONGrammar"
JG_MODULE = "gemseo.core.grammars.json_grammar"
MB = "gemseo.core.grammars.json_schema.MutableMappingSchemaBuilder"
RN = "gemseo.core.grammars.required_names.RequiredNames"
JSON_EXC = "fastjsonschema.JsonSchemaException"

Str = TStr.sort()
StrSet = z3.ArraySort(Str, z3.BoolSort())
StrVals = z3.ArraySort(Str, ValS)
SCHEMA_T = TDict(TStr, TVal)  # a JSON schema as a Python dict: keyword -> opaque value
PROPS_T = TDict(TStr, TVal)  # the properties of the schema builder: name -> property schema (opaque SchemaNode content)
VALIDATOR_T = TOpt(TVal)

# what an opaque schema value stands for (projections; never constructed explicitly):
props_names = z3.Function("json_props_names", ValS, StrSet)  # value of the "properties" keyword -> its property names
props_nodes = z3.Function("json_props_nodes", ValS, StrVals)  # ... -> the property schemas
names_of = z3.Function("json_names_of", ValS, StrSet)  # value of the "required" keyword -> the names it lists
# ghost: the schema dictionary a compiled validator was built from (fastjsonschema.compile is a function of the dictionary's content)
src_member = z3.Function("json_validator_src_member", ValS, StrSet)
src_vals = z3.Function("json_validator_src_vals", ValS, StrVals)
json_accepts = z3.Function("json_validator_accepts", ValS, TDict(TStr, TVal).sort(), z3.BoolSort())  # validator(data) does not raise
json_text = z3.Function("json_dumps_schema", StrSet, StrVals, TStr.sort())
merged_node = z3.Function("json_merged_node", ValS, ValS, ValS)  # genson merge of two property schemas
required_witness = z3.Function("json_required_witness", ValS, TStr.sort())  # a name listed by a non-empty "required" keyword value

K_PROPERTIES, K_REQUIRED, K_ID, K_SCHEMA = "properties", "required", "id", "$schema"


def lit(s):
    return str_lit(s)


def builder_of(st, g):
    """(heap object of) the schema builder of a grammar object."""
    return st.heap[g.fields["_JSONGrammar__schema_builder"].id]


class CtxGenV:
    """A call of a generator-based context manager of the repository, not yet entered."""

    def __init__(self, fi, bound):
        self.fi, self.bound = fi, bound


def _builder(ex, v):
    if isinstance(v, Ref):
        o = ex.st.heap.get(v.id)
        if isinstance(o, PyObj) and o.cls == MB and "props" in o.fields:
            return o
    return None


def to_schema_facts(st, s, b_props, b_req, has_req, b_meta):
    """ASSUMED contract of genson ``SchemaBuilder.to_schema()`` on the abstract builder state: the dictionary lists the properties (when there are some),
    the builder's own required names (when it tracks some) and the other keywords of the root node."""
    k = z3.Const("k!ts", Str)
    P, R = lit(K_PROPERTIES), lit(K_REQUIRED)
    pv, rv = s.vals[P], s.vals[R]
    return [
        s.member[P] == (b_props.n != 0),
        z3.ForAll([k], z3.And(props_names(pv)[k] == b_props.member[k], z3.Implies(b_props.member[k], props_nodes(pv)[k] == b_props.vals[k]))),
        z3.Implies(s.member[P], z3.And(pv != val_none, props_count(pv) == b_props.n)),
        s.member[R] == z3.And(has_req, b_req.n != 0),
        z3.ForAll([k], names_of(rv)[k] == b_req.member[k]),
        z3.Implies(s.member[R], names_of(rv)[required_witness(rv)]),  # (the keyword is only emitted for a non-empty set: it lists at least one name)
        z3.ForAll([k], z3.Implies(z3.And(k != P, k != R), z3.And(s.member[k] == b_meta.member[k], z3.Implies(b_meta.member[k], s.vals[k] == b_meta.vals[k])))),
        # size: at least the number of the distinguished keywords it holds (the dict model only knows n >= 1 <=> some member)
        s.n >= z3.Sum(*[z3.If(s.member[lit(x)], 1, 0) for x in (K_PROPERTIES, K_REQUIRED, K_ID, K_SCHEMA)]),
    ]


def _json_models(cls):
    """Adds the C15 hooks to JsonModels (kept apart for readability)."""
    return cls


class _JsonGrammarHooks:
    # ---- construction of a new (empty) builder
    def _construct_builder(self, ex, lineno):
        st = ex.st
        ref = TObj(MB).fresh(st, "builder")
        o = st.heap[ref.id]
        for f, t in (("props", PROPS_T), ("req", TSet(TStr))):
            c = st.heap[o.fields[f].id]
            if isinstance(c, DictObj):
                e = DictObj.empty(st, t.k, t.v)
                c.member, c.vals, c.n = e.member, e.vals, e.n
            else:
                c.member, c.n = z3.K(Str, z3.BoolVal(False)), z3.IntVal(0)
        o.fields["has_req"] = SV(z3.BoolVal(False), TBool)
        o.fields["has_strategy"] = SV(z3.BoolVal(False), TBool)  # no root strategy before the first add_schema / add_object
        meta = st.heap[o.fields["meta"].id]
        st.assume(z3.And(z3.Not(meta.member[lit(K_PROPERTIES)]), z3.Not(meta.member[lit(K_REQUIRED)]), z3.Not(meta.member[lit(K_ID)]), meta.member[lit(K_SCHEMA)]))
        return ref

    def construct(self, ex, cv, args, kwargs, lineno):
        if cv.qualname == MB and not args and not kwargs and C.has_schema(MB):
            return self._construct_builder(ex, lineno)
        return NotImplemented

    def call_builtin(self, ex, name, args, kwargs, lineno, node=None):
        if name == "fastjsonschema.compile":
            return self._compile(ex, args, lineno)
        return NotImplemented

    # ---- the two live views of the builder state
    def call_repo_model(self, ex, fi, args, kwargs, lineno):
        st = ex.st
        q = fi.qualname
        if q == MB + ".properties" and args and _builder(ex, args[0]) is not None:
            # the dictionary of the root strategy; without a strategy: a new empty dict (reads agree; a store into it would be lost, but the only
            # stores of the code under contract - `properties[new] = properties.pop(old)`, `del properties[key]` - raise KeyError first)
            return _builder(ex, args[0]).fields["props"]
        if q == MB + ".required" and args and _builder(ex, args[0]) is not None:
            b = _builder(ex, args[0])
            hs, hr = (x if isinstance(x, bool) else x.term for x in (b.fields["has_strategy"], b.fields["has_req"]))
            if not st.decide(hs):
                # no root strategy yet (IndexError branch): a NEW empty set (updates of it are lost; there is no property either)
                return st.alloc(SetObj(TStr, z3.K(Str, z3.BoolVal(False)), z3.IntVal(0)))
            if not st.decide(hr):
                # `_required is None`: an empty set is ATTACHED to the strategy, so that its changes are not lost
                c = st.heap[b.fields["req"].id]
                c.member, c.n, c.is_empty_literal = z3.K(Str, z3.BoolVal(False)), z3.IntVal(0), False
                b.fields["has_req"] = SV(z3.BoolVal(True), TBool)
            return b.fields["req"]
        if q == JG + "._JSONGrammar__sync_required_names" or q.endswith("JSONGrammar.__sync_required_names"):
            bound, missing, defaults = ex.bind_params(fi, args, kwargs, lineno)
            return CtxGenV(fi, bound)
        return NotImplemented

    def enter_context(self, ex, v, node):
        if not isinstance(v, CtxGenV):
            return NotImplemented
        import ast

        from .engine import Frame

        body = v.fi.node.body
        idx = [i for i, s in enumerate(body) if isinstance(s, ast.Expr) and isinstance(s.value, ast.Yield)]
        if len(idx) != 1 or any(isinstance(x, (ast.Yield, ast.YieldFrom)) for i, s in enumerate(body) if i != idx[0] for x in ast.walk(s)):
            raise Unsupported(f"context manager {v.fi.qualname}: not of the form `before; yield; after`")
        frame = Frame(v.fi, v.bound)
        ex.st.frames.append(frame)
        try:
            ex.exec_block([s for s in body[:idx[0]] if not (isinstance(s, ast.Expr) and isinstance(s.value, ast.Constant))])
        finally:
            ex.st.frames.pop()
        ex.inlined.add(v.fi.qualname)
        ex.st.ghost.setdefault("json_ctx", []).append((id(node), frame, body[idx[0] + 1:]))
        return None

    def exit_context(self, ex, node, exc):
        stack = ex.st.ghost.get("json_ctx")
        if not stack or stack[-1][0] != id(node):
            return NotImplemented
        _, frame, after = stack.pop()
        from .engine import PyRaise

        if not isinstance(exc, PyRaise):
            # (@contextmanager without try/finally: the code after the yield only runs when the body did not raise; a return/break/continue
            # inside the with block leaves it normally)
            ex.st.frames.append(frame)
            try:
                ex.exec_block(after)
            finally:
                ex.st.frames.pop()
        return None

    # ---- attributes / methods the builder inherits from genson or collections.abc
    def pyobj_attr(self, ex, ref, o, attr, lineno):
        if o.cls == MB and "props" in o.fields and attr in ("to_schema", "to_json", "keys", "items", "values", "get"):
            return BoundMethod(ref, None, f"jsonbuilder.{attr}")
        return NotImplemented

    def call_method(self, ex, recv, name, args, kwargs, lineno):
        st = ex.st
        if name.startswith("jsonbuilder."):
            b = _builder(ex, recv)
            name = name[12:]
            props = b.fields["props"]
            if name in ("keys", "items", "values", "get"):
                return ex.models.dict_method(ex, props, st.heap[props.id], name, args, kwargs, lineno)
            po, ro, mo = st.heap[props.id], st.heap[b.fields["req"].id], st.heap[b.fields["meta"].id]
            hr = b.fields["has_req"]
            hr = z3.BoolVal(hr) if isinstance(hr, bool) else hr.term
            ex.assumed.add("model:genson SchemaBuilder.to_schema()/to_json() list the properties, the builder's required names and the other root keywords")
            sref = SCHEMA_T.fresh(st, "to_schema")
            s = st.heap[sref.id]
            for f in to_schema_facts(st, s, po, ro, hr, mo):
                st.assume(f)
            if name == "to_schema":
                return sref
            return SV(json_text(s.member, s.vals), TStr)  # json.dumps(self.to_schema(), ...)
        if name == "update" and len(args) == 1 and isinstance(recv, Ref) and isinstance(st.heap.get(recv.id), SetObj) and isinstance(args[0], Ref):
            a = st.heap.get(args[0].id)
            if isinstance(a, PyObj) and a.cls == RN and getattr(a, "schema_key", None) == RN + "#json":
                # set.update(required_names): RequiredNames.__iter__ is iter(self.__names)
                return ex.models.set_method(ex, recv, st.heap[recv.id], "update", [a.fields["_RequiredNames__names"]], {}, lineno)
        if isinstance(recv, SV) and recv.ty == TStr and name == "startswith" and ex.frame.module.name == JG_MODULE:
            return SV(st.fresh_const("startswith", z3.BoolSort()), TBool)  # prefix test on an (opaque) error message
        return NotImplemented

    # ---- fastjsonschema
    def builtin_constant(self, ex, name):
        if name == JSON_EXC:
            return ClassV(JSON_EXC)
        return NotImplemented

    def _compile(self, ex, args, lineno):
        st = ex.st
        d = st.heap[args[0].id] if args and isinstance(args[0], Ref) else None
        if not isinstance(d, DictObj) or d.v.sort() != ValS:
            raise Unsupported("fastjsonschema.compile of something that is no schema dictionary")
        w = st.fresh_const("validator", ValS)
        st.assume(z3.And(src_member(w) == d.member, src_vals(w) == d.vals, w != val_none))
        ex.assumed.add("model:fastjsonschema.compile(schema) is a function of the content of the schema dictionary (ghost: json_validator_src_*)")
        return SV(w, TVal)

    def call_opaque(self, ex, fv, args, kwargs, lineno):
        from .engine import PyRaise

        st = ex.st
        if isinstance(fv, SV) and (fv.ty == VALIDATOR_T or fv.ty == TVal) and ex.frame.module.name == JG_MODULE and len(args) == 1:
            if fv.ty == VALIDATOR_T:
                if not st.decide(z3.Not(VALIDATOR_T.is_none(fv.term))):
                    raise PyRaise("TypeError", lineno)
                w = VALIDATOR_T.dt.get(fv.term)
            else:
                w = fv.term
            d = TDict(TStr, TVal).embed(st, args[0])
            if not st.decide(json_accepts(w, d)):
                raise PyRaise(JSON_EXC, lineno)
            return args[0]
        return NotImplemented

    def ref_attr(self, ex, ref, o, attr, lineno):
        from .values import ExcObj

        if isinstance(o, ExcObj) and attr == "args" and o.cls == JSON_EXC:
            return BuiltinV("json.excargs")
        return NotImplemented

    def getitem(self, ex, cont, key, lineno):
        if isinstance(cont, BuiltinV) and cont.name == "json.excargs":
            return SV(ex.st.fresh_const("excmsg", Str), TStr)
        return NotImplemented


def _install(group):
    """Merge a group of hooks into JsonModels; hooks of the same name are chained (first non-NotImplemented answer wins)."""
    for _n, _f in list(vars(group).items()):
        if callable(_f) and not _n.startswith("__"):
            if _n in vars(JsonModels):
                def _chain(a, b):
                    def f(self, *args, **kw):
                        r = a(self, *args, **kw)
                        return b(self, *args, **kw) if r is NotImplemented else r

                    return f

                setattr(JsonModels, _n, _chain(vars(JsonModels)[_n], _f))
            else:
                setattr(JsonModels, _n, _f)


_install(_JsonGrammarHooks)


# ============================================================================ C20: the pickled state of a JSON grammar (instance-dictionary model)
# `self` is typed by the schema variant JG + "#c20": one field `__dict__: TDict(TStr, TPv)` holding every attribute as an opaque picklable value.
# Values that are references to the grammar's mutable parts are looked up in ghost heaps:
#   json_defaults[v]  : the content of the Defaults object v (a StrKeyMapping)
#   json_bprops[v]    : the property names of the schema builder v
from .values import declare_ghost  # noqa: E402

DATA_T = TDict(TStr, TVal)
pv_of_data = z3.Function("pv_of_data", DATA_T.sort(), AttrS)  # a plain dict as a picklable value
pv_data = z3.Function("pv_data", AttrS, DATA_T.sort())  # ... and back
DefaultsHeap = z3.ArraySort(AttrS, DATA_T.sort())
BuilderHeap = z3.ArraySort(AttrS, StrSet)
declare_ghost("json_defaults", DefaultsHeap)
declare_ghost("json_bprops", BuilderHeap)
JG_DICT = JG + "#c20"


def _dict_model(ex, v):
    if isinstance(v, Ref):
        o = ex.st.heap.get(v.id)
        if isinstance(o, PyObj) and getattr(o, "schema_key", None) == JG_DICT:
            return o
    return None


_embed_base = _TPv.embed


def _embed_with_dicts(self, st, v):
    if isinstance(v, Ref) and st is not None:
        o = st.heap.get(v.id)
        if isinstance(o, DictObj) and (o.is_empty_literal or (o.k == TStr and o.v.sort() == ValS)):
            return pv_of_data(DATA_T.embed(st, v))
    return _embed_base(self, st, v)


_TPv.embed = _embed_with_dicts


class _JsonStateHooks:
    def pyobj_attr(self, ex, ref, o, attr, lineno):
        from .engine import PyRaise

        if getattr(o, "schema_key", None) != JG_DICT:
            return NotImplemented
        if attr == "__class__":
            return ClassV(o.cls)
        st = ex.st
        d = st.heap[o.fields["__dict__"].id]
        kt = lit(attr)
        if not st.decide(d.member[kt]):
            raise PyRaise("AttributeError", lineno)
        return SV(d.vals[kt], TPv)

    def make_dict(self, ex, keys, vals):
        """``{key: value, ..., **d}`` where d is an instance dictionary: typed like d, items in order (a later item overrides an earlier one)."""
        st = ex.st
        if not any(k is None for k in keys):
            return NotImplemented
        srcs = [st.heap.get(v.id) if isinstance(v, Ref) else None for k, v in zip(keys, vals) if k is None]
        if not all(isinstance(s, DictObj) and s.k == TStr and s.v == TPv for s in srcs):
            return NotImplemented
        o = DictObj.empty(st, TStr, TPv)
        for k, v in zip(keys, vals):
            if k is None:
                ex.models._dict_update(ex, o, v, 0)
            else:
                o.set(st, TStr.embed(st, k), TPv.embed(st, v))
        o.ty = TDict(TStr, TPv)
        return st.alloc(o)

    def call_builtin(self, ex, name, args, kwargs, lineno, node=None):
        st = ex.st
        if name == "dict" and len(args) == 1 and not kwargs and _is_pv(args[0]):
            if ex.frame.module.name != JG_MODULE:
                return NotImplemented
            # dict(defaults): the content of the Defaults object (Mapping protocol: keys() / __getitem__)
            return DATA_T.project(st, st.ghost_get("json_defaults", DefaultsHeap)[args[0].term])
        return NotImplemented


_install(_JsonStateHooks)


# ============================================================================ C15 (continued): more builder protocol
class _JsonGrammarHooks2:
    def contains(self, ex, cont, item, lineno):
        b = _builder(ex, cont)
        if b is not None:
            # Mapping.__contains__ -> self[key] -> check_property_names: KeyError iff the name is no property
            po = ex.st.heap[b.fields["props"].id]
            return SV(po.member[TStr.embed(ex.st, item)], TBool)
        return NotImplemented

    def deep_copy(self, ex, v, lineno):
        b = _builder(ex, v)
        if b is None:
            return NotImplemented
        st = ex.st
        c = PyObj(b.cls, dict(b.fields))
        c.schema_key = b.schema_key
        for f in ("props", "req", "meta"):
            cc = st.heap[b.fields[f].id].clone()
            cc.origin = None
            c.fields[f] = st.alloc(cc)
        return st.alloc(c)

    def binop(self, ex, op, a, b, lineno, inplace=False):
        from .engine import PyRaise

        st = ex.st
        if not (inplace and op == "BitOr" and isinstance(a, Ref) and isinstance(b, Ref)):
            return NotImplemented
        o = st.heap.get(a.id)
        if not (isinstance(o, PyObj) and o.cls == RN and getattr(o, "schema_key", None) == RN + "#json"):
            return NotImplemented
        # MutableSet.__ior__: `for value in it: self.add(value)`; RequiredNames.add raises KeyError for a name that is no element of the grammar
        # (`name in grammar` -> JSONGrammar.__getitem__ -> builder.check_property_names)
        g = st.heap[o.fields["_RequiredNames__grammar"].id]
        po = st.heap[builder_of(st, g).fields["props"].id]
        s = st.heap[o.fields["_RequiredNames__names"].id]
        other = st.heap[b.id]
        if not isinstance(other, SetObj):
            return NotImplemented
        if other.is_empty_literal:
            return a
        k = z3.Const("k!jior", Str)
        if st.decide(z3.ForAll([k], z3.Implies(other.member[k], po.member[k]))):
            ex.models.set_method(ex, o.fields["_RequiredNames__names"], s, "update", [b], {}, lineno)
            return a
        new = st.heap[TSet(TStr).fresh(st, "partial_required").id]
        st.assume(z3.ForAll([k], z3.And(z3.Implies(s.member[k], new.member[k]), z3.Implies(new.member[k], z3.Or(s.member[k], z3.And(other.member[k], po.member[k]))))))
        s.member, s.n = new.member, new.n
        raise PyRaise("KeyError", lineno)


_install(_JsonGrammarHooks2)


pv_schema_props = z3.Function("pv_schema_props", AttrS, StrSet)  # the property names listed by a (pickled) schema dictionary


class _JsonStateHooks2:
    """Methods called on the grammar's parts held as opaque values in the instance dictionary (``__setstate__``)."""

    def value_attr(self, ex, obj, attr, lineno):
        if _is_pv(obj) and attr in ("add_schema", "update") and ex.frame.module.name == JG_MODULE:
            return BoundMethod(obj, None, f"pvpart.{attr}")
        return NotImplemented

    def call_method(self, ex, recv, name, args, kwargs, lineno):
        from .engine import PyRaise

        if not (name.startswith("pvpart.") and _is_pv(recv)):
            return NotImplemented
        st = ex.st
        k = z3.Const("k!pvp", Str)
        if name == "pvpart.add_schema" and len(args) == 2 and _is_pv(args[0]) and args[1] is True:
            # ASSUMED (see contracts/c15_json_grammar.py: AddSchema): the properties listed by the schema become properties of the builder
            h = st.ghost_get("json_bprops", BuilderHeap)
            old = h[recv.term]
            new = st.fresh_const("bprops", StrSet)
            st.assume(z3.ForAll([k], new[k] == z3.Or(old[k], pv_schema_props(args[0].term)[k])))
            st.ghost_set("json_bprops", z3.Store(h, recv.term, new))
            # ... and its own required set becomes the one the schema lists (a builder refilled by __setstate__ is new: it tracked none)
            hr = st.ghost_get("json_breq", BuilderHeap)
            st.ghost_set("json_breq", z3.Store(hr, recv.term, z3.If(pv_schema_has_required(args[0].term), pv_schema_required(args[0].term), hr[recv.term])))
            ex.assumed.add("model:builder.add_schema(schema, True) adds the properties listed by the schema (instance-dictionary model)")
            return None
        if name == "pvpart.update" and len(args) == 1 and _is_pv(args[0]):
            # Defaults.update(mapping) (verified under C15 for its field-level reading: DFSetitem + MutableMapping.update): every key must be an element of the
            # grammar the Defaults object is bound to - here the grammar being restored, whose elements are the properties of its CURRENT builder
            me = None
            for fr in reversed(st.frames):
                first = fr.finfo.node.args.args[0].arg if fr.finfo.node.args.args else None
                me = _dict_model(ex, fr.env.get(first)) if first else None
                if me is not None:
                    break
            if me is None:
                raise Unsupported("Defaults.update outside the instance-dictionary model")
            d = st.heap[me.fields["__dict__"].id]
            elements = st.ghost_get("json_bprops", BuilderHeap)[d.vals[lit("_JSONGrammar__schema_builder")]]
            src = pv_data(args[0].term)
            sm, sv = DATA_T.acc(0)(src), DATA_T.acc(1)(src)
            if not st.decide(z3.ForAll([k], z3.Implies(sm[k], elements[k]))):
                raise PyRaise("KeyError", lineno)
            h = st.ghost_get("json_defaults", DefaultsHeap)
            cur = h[recv.term]
            new = st.heap[DATA_T.fresh(st, "restored_defaults").id]
            st.assume(z3.ForAll([k], z3.And(new.member[k] == z3.Or(DATA_T.acc(0)(cur)[k], sm[k]),
                                            new.vals[k] == z3.If(sm[k], sv[k], DATA_T.acc(1)(cur)[k]))))
            st.assume(z3.Implies(DATA_T.acc(2)(cur) == 0, new.n == DATA_T.acc(2)(src)))
            st.ghost_set("json_defaults", z3.Store(h, recv.term, DATA_T.dt.mk(new.member, new.vals, new.n)))
            ex.assumed.add("model:Defaults.update(mapping) sets every entry, KeyError for a key that is no element (instance-dictionary model)")
            return None
        raise Unsupported(f"method {name} on an opaque part of the grammar")


_install(_JsonStateHooks2)


json_node_of_type = z3.Function("json_node_of_type", ValS, ValS)  # {} for None, {"type": PYTHON_TO_JSON_TYPES[t]} otherwise
json_known_type = z3.Function("json_known_type", ValS, z3.BoolSort())  # t in JSONGrammar.__PYTHON_TO_JSON_TYPES


class _JsonGrammarHooks3:
    """``JSONGrammar._update_from_types``: the dict comprehension over the types and the schema literal built from it."""

    def comprehension(self, ex, node, kind):
        import ast

        from .engine import PyRaise

        fr = ex.frame
        if kind != "dict" or fr.module.name != JG_MODULE or not fr.finfo.qualname.endswith("JSONGrammar._update_from_types"):
            return NotImplemented
        if ast.unparse(node.generators[0].iter) != "names_to_types.items()" or "__PYTHON_TO_JSON_TYPES[element_type]" not in ast.unparse(node.value):
            raise Unsupported("the comprehension of _update_from_types changed shape")
        st = ex.st
        src = fr.env["names_to_types"]
        d = st.heap[src.id] if isinstance(src, Ref) else None
        if not isinstance(d, DictObj) or d.v.sort() != ValS:
            raise Unsupported("names_to_types is no dict of opaque types")
        k = z3.Const("k!uft", Str)
        # class-constant lookup `self.__PYTHON_TO_JSON_TYPES[element_type]`: KeyError for a type that is no key (first offending item; nothing was built yet)
        if not st.decide(z3.ForAll([k], z3.Implies(d.member[k], z3.Or(d.vals[k] == val_none, json_known_type(d.vals[k]))))):
            raise PyRaise("KeyError", node.lineno)
        ref = PROPS_T.fresh(st, "properties")
        p = st.heap[ref.id]
        st.assume(z3.And(p.n == d.n, z3.ForAll([k], z3.And(p.member[k] == d.member[k], z3.Implies(d.member[k], p.vals[k] == json_node_of_type(d.vals[k]))))))
        return ref

    def make_dict(self, ex, keys, vals):
        st = ex.st
        if ex.frame.module.name != JG_MODULE or not keys or not all(isinstance(k, str) for k in keys):
            return NotImplemented
        if K_SCHEMA not in keys or not all(isinstance(v, (str, Ref)) for v in vals):
            return NotImplemented
        # a schema literal {"keyword": "text", ..., "properties": <dict of property schemas>}
        o = DictObj.empty(st, TStr, TVal)
        k = z3.Const("k!sl", Str)
        for key, v in zip(keys, vals):
            if isinstance(v, str):
                term = val_of_str(str_lit(v))
            else:
                d = st.heap[v.id]
                if key == K_REQUIRED and isinstance(d, (ListObj, SetObj, DictObj)):
                    term = st.fresh_const("required_value", ValS)
                    mem = ex.models._iter_member(ex, v, TStr)
                    st.assume(z3.ForAll([k], names_of(term)[k] == mem[k]))
                    o.set(st, str_lit(key), term)
                    continue
                if not isinstance(d, DictObj) or key != K_PROPERTIES or d.is_empty_literal or d.v.sort() != ValS:
                    return NotImplemented
                term = st.fresh_const("properties_value", ValS)
                st.assume(z3.ForAll([k], z3.And(props_names(term)[k] == d.member[k], z3.Implies(d.member[k], props_nodes(term)[k] == d.vals[k]))))
            o.set(st, str_lit(key), term)
        o.ty = SCHEMA_T
        return st.alloc(o)


_install(_JsonGrammarHooks3)


# ============================================================================ repaired source (0717736, 63aba35, 02afd7d, e774076, 034df8e)
pv_schema_has_required = z3.Function("pv_schema_has_required", AttrS, z3.BoolSort())  # the pickled schema has a "required" keyword
pv_schema_required = z3.Function("pv_schema_required", AttrS, StrSet)  # ... and the names it lists
declare_ghost("json_breq", BuilderHeap)  # own required set of a schema builder held as an opaque value


class PvReqView:
    """``builder.required`` of a builder held as an opaque value."""

    def __init__(self, builder_term):
        self.builder = builder_term


class _JsonRepairHooks:
    def call_builtin(self, ex, name, args, kwargs, lineno, node=None):
        st = ex.st
        if name == "set" and len(args) == 1 and isinstance(args[0], SV) and args[0].ty == TVal and ex.frame.module.name == JG_MODULE:
            # set(schema["required"]): the names the keyword lists
            o = SetObj(TStr, names_of(args[0].term), st.fresh_int("reqn"))
            o.ty = TSet(TStr)
            for f in o.wf_facts(st):
                st.assume(f)
            return st.alloc(o)
        return NotImplemented

    def equals(self, ex, a, b, lineno):
        """collections.abc.Set.__eq__ of a RequiredNames with a set: same elements."""
        st = ex.st
        for x, y in ((a, b), (b, a)):
            if isinstance(x, Ref) and isinstance(y, Ref):
                o, other = st.heap.get(x.id), st.heap.get(y.id)
                if isinstance(o, PyObj) and o.cls == RN and getattr(o, "schema_key", None) == RN + "#json" and isinstance(other, SetObj):
                    s = st.heap[o.fields["_RequiredNames__names"].id]
                    if other.is_empty_literal:
                        return SV(s.n == 0, TBool)
                    k = z3.Const("k!rneq", Str)
                    return SV(z3.ForAll([k], s.member[k] == other.member[k]), TBool)
        return NotImplemented

    def value_attr(self, ex, obj, attr, lineno):
        if _is_pv(obj) and attr == "required" and ex.frame.module.name == JG_MODULE:
            return PvReqView(obj.term)
        if isinstance(obj, PvReqView) and attr == "clear":
            return BoundMethod(obj, None, "pvreq.clear")
        return NotImplemented

    def call_method(self, ex, recv, name, args, kwargs, lineno):
        if name == "pvreq.clear" and isinstance(recv, PvReqView):
            # the live set of the root strategy is emptied (63aba35: a set is attached when there was none; without a strategy there is no own
            # required set at all - the builder only gets one together with its strategy, see pvpart.add_schema)
            st = ex.st
            h = st.ghost_get("json_breq", BuilderHeap)
            st.ghost_set("json_breq", z3.Store(h, recv.builder, z3.K(Str, z3.BoolVal(False))))
            return None
        return NotImplemented


_install(_JsonRepairHooks)


class _JsonRepairHooks2:
    def compare(self, ex, op, a, b, lineno):
        """collections.abc.Set order comparisons between a RequiredNames and a set."""
        st = ex.st
        if op not in ("Lt", "LtE", "Gt", "GtE") or not (isinstance(a, Ref) and isinstance(b, Ref)):
            return NotImplemented

        def members(v):
            o = st.heap.get(v.id)
            if isinstance(o, PyObj) and o.cls == RN and getattr(o, "schema_key", None) == RN + "#json":
                return st.heap[o.fields["_RequiredNames__names"].id].member, True
            if isinstance(o, SetObj):
                return (z3.K(Str, z3.BoolVal(False)) if o.is_empty_literal else o.member), False
            return None, False

        (ma, ra), (mb, rb) = members(a), members(b)
        if ma is None or mb is None or not (ra or rb):
            return NotImplemented
        k = z3.Const("k!rncmp", Str)
        sub, sup = z3.ForAll([k], z3.Implies(ma[k], mb[k])), z3.ForAll([k], z3.Implies(mb[k], ma[k]))
        return SV({"LtE": sub, "GtE": sup, "Lt": z3.And(sub, z3.Not(sup)), "Gt": z3.And(sup, z3.Not(sub))}[op], TBool)


_install(_JsonRepairHooks2)


# ============================================================================ JSONGrammar._get_names_to_types (conversion to Python types)
node_has_type = z3.Function("json_node_has_type", ValS, z3.BoolSort())  # the property schema has a "type" keyword
node_type = z3.Function("json_node_type", ValS, ValS)  # ... its value
type_is_hashable = z3.Function("json_type_keyword_is_a_string", ValS, z3.BoolSort())  # "type": "integer" (a str) vs ["integer", "string"] (a list, unhashable)
j2p_known = z3.Function("json_to_python_known", ValS, z3.BoolSort())  # key of JSONGrammar.__JSON_TO_PYTHON_TYPES
j2p = z3.Function("json_to_python_type", ValS, ValS)  # ... its value
props_count = z3.Function("json_props_count", ValS, z3.IntSort())  # number of properties listed by a "properties" keyword value
J2P = "json.JSON_TO_PYTHON_TYPES"


def _in_gntt(ex):
    return any(fr.module.name == JG_MODULE and fr.finfo.qualname.endswith("JSONGrammar._get_names_to_types") for fr in ex.st.frames)


class _JsonConversionHooks:
    def class_constant(self, ex, ci, name):
        if name == "_JSONGrammar__JSON_TO_PYTHON_TYPES" and ci.qualname == JG:
            return BuiltinV(J2P)
        return NotImplemented

    def value_attr(self, ex, obj, attr, lineno):
        if isinstance(obj, SV) and obj.ty == TVal and attr == "items" and _in_gntt(ex):
            return BoundMethod(obj, None, "jsonprops.items")
        if isinstance(obj, SV) and obj.ty == TVal and attr == "get" and _in_gntt(ex):
            return BoundMethod(obj, None, "jsonnode.get")
        return NotImplemented

    def isinstance_(self, ex, v, cls):
        if isinstance(cls, BuiltinV) and cls.name == "str" and _in_gntt(ex):
            if v is None:
                return False
            if isinstance(v, SV) and v.ty == TVal:
                return SV(type_is_hashable(v.term), TBool)  # the value of the `type` keyword is a string (not a list of strings)
        return NotImplemented

    def call_method(self, ex, recv, name, args, kwargs, lineno):
        if name == "jsonnode.get" and len(args) == 1 and args[0] == "type":
            # property_description.get("type"): None when the property schema has no type keyword
            if ex.st.decide(node_has_type(recv.term)):
                return SV(node_type(recv.term), TVal)
            return None
        if name != "jsonprops.items":
            return NotImplemented
        # the value of the "properties" keyword read as the dictionary it is: name -> property schema
        st = ex.st
        v = recv.term
        o = DictObj(TStr, TVal, props_names(v), props_nodes(v), props_count(v))
        o.ty = PROPS_T
        for f in o.wf_facts(st):
            st.assume(f)
        return ex.models.dict_method(ex, st.alloc(o), o, "items", [], {}, lineno)

    def getitem(self, ex, cont, key, lineno):
        from .engine import PyRaise

        st = ex.st
        if isinstance(cont, SV) and cont.ty == TVal and key == "type" and _in_gntt(ex):
            if not st.decide(node_has_type(cont.term)):
                raise PyRaise("KeyError", lineno)
            return SV(node_type(cont.term), TVal)
        if isinstance(cont, BuiltinV) and cont.name == J2P and isinstance(key, SV) and key.ty == TVal:
            if not st.decide(type_is_hashable(key.term)):
                raise PyRaise("TypeError", lineno)
            if not st.decide(j2p_known(key.term)):
                raise PyRaise("KeyError", lineno)
            return SV(j2p(key.term), TVal)
        return NotImplemented

    def contains(self, ex, cont, item, lineno):
        from .engine import PyRaise

        if isinstance(cont, BuiltinV) and cont.name == J2P and item is None:
            return False  # None is hashable and is no key of the table
        if isinstance(cont, BuiltinV) and cont.name == J2P and isinstance(item, SV) and item.ty == TVal:
            if not ex.st.decide(type_is_hashable(item.term)):
                raise PyRaise("TypeError", lineno)  # hashing a list
            return SV(j2p_known(item.term), TBool)
        return NotImplemented


_install(_JsonConversionHooks)


# ============================================================================ files (update_from_file / to_file) and _copy
json_file_text = z3.Function("json_file_text", TStr.sort(), TStr.sort())  # content of the file at a path (at the time of the call)
json_loads = z3.Function("json_loads", TStr.sort(), SCHEMA_T.sort())  # json.loads(text) when the text is a JSON object
json_file_exists = z3.Function("json_file_exists", TStr.sort(), z3.BoolSort())
path_with_suffix = z3.Function("json_path_with_suffix", TStr.sort(), TStr.sort(), TStr.sort())
declare_ghost("json_written", z3.ArraySort(TStr.sort(), TStr.sort()))  # path -> text written by to_file


class PathV:
    """pathlib.Path(p) inside json_grammar.py: only its string matters."""

    def __init__(self, term):
        self.term = term


class _JsonFileHooks:
    def call_builtin(self, ex, name, args, kwargs, lineno, node=None):
        st = ex.st
        if ex.frame.module.name != JG_MODULE:
            return NotImplemented
        if name == "pathlib.Path" and len(args) == 1:
            a = args[0]
            if isinstance(a, PathV):
                return a
            if isinstance(a, str) or (isinstance(a, SV) and a.ty == TStr):
                return PathV(TStr.embed(st, a))
        if name == "json.loads" and len(args) == 1 and isinstance(args[0], SV) and args[0].ty == TStr:
            ex.assumed.add("model:json.loads(text) is a function of the text (a JSON object -> dict of keywords)")
            return SCHEMA_T.project(st, json_loads(args[0].term))
        return NotImplemented

    def value_attr(self, ex, obj, attr, lineno):
        if isinstance(obj, PathV) and attr in ("exists", "read_text", "write_text", "with_suffix"):
            return BoundMethod(obj, None, f"jsonpath.{attr}")
        return NotImplemented

    def truth(self, ex, v):
        if isinstance(v, PathV):
            return True
        return NotImplemented

    def call_method(self, ex, recv, name, args, kwargs, lineno):
        if not (name.startswith("jsonpath.") and isinstance(recv, PathV)):
            return NotImplemented
        st = ex.st
        what = name[9:]
        if what == "exists":
            return SV(json_file_exists(recv.term), TBool)
        if what == "read_text":
            return SV(json_file_text(recv.term), TStr)
        if what == "with_suffix":
            return PathV(path_with_suffix(recv.term, TStr.embed(st, args[0])))
        if what == "write_text":
            h = st.ghost_get("json_written", z3.ArraySort(TStr.sort(), TStr.sort()))
            st.ghost_set("json_written", z3.Store(h, recv.term, TStr.embed(st, args[0])))
            return None
        return NotImplemented

    def raise_value(self, ex, clsv, lineno):
        from .engine import PyRaise

        if isinstance(clsv, BuiltinV) and clsv.name == "FileNotFoundError" and ex.frame.module.name == JG_MODULE:
            raise PyRaise("FileNotFoundError", lineno)
        return NotImplemented

    def shallow_copy(self, ex, v, lineno):
        if isinstance(v, SV) and v.ty == VALIDATOR_T and ex.frame.module.name == JG_MODULE:
            return v  # copy.copy of None / of a function object is the object itself
        return NotImplemented


_install(_JsonFileHooks)
