"""C03 plugin (driver side of the evaluation budget: BaseDriverLibrary.execute and friends, DOE loop, stop criteria).

Every hook is gated on contracts that opt in with ``c03 = True`` (or on the plugin's own types), so that the verification
conditions of the other properties do not change.

Modelled (real Python semantics unless stated otherwise):

* bound methods used as values (``listeners.append(self._new_iteration_callback)``, ``db.add_new_iter_listener(obj.method)``): the opaque
  callable ``c03_bound_method(<object>, "<method name>")``; CPython compares bound methods by (``__self__``, ``__func__``), so the values created
  on a path for distinct (object, name) pairs are assumed pairwise distinct.
* ``list.remove(x)``: ValueError when absent, otherwise the FIRST occurrence is removed and the tail shifts left.
* exception instances as parameters: ``TExc("<qualified exception class>")`` allocates an instance of exactly that class.
* opaque ``Val`` values (validated settings) used as conditions / stored in typed fields: ``val_truth(v)`` / ``val_as_real(v)`` / ``val_as_int(v)`` /
  ``val_as_str(v)`` are uninterpreted readings of the value (the settings dictionary is only routed, never computed with).
* keyword arguments collected by a ``**fields`` parameter whose values have different types: a ``dict[str, Val]`` (each value embedded as ``Val``).
* message construction that DESIGN §2.2 drops: ``MultiLineString()`` is a logger-like sink, ``OneLineLogging(...)`` / ``nullcontext()`` are null
  contexts, ``str(x).split(sep)`` of an opaque string is an opaque list of strings.
* ``f(.., **settings)`` with a symbolic settings dictionary into a repository function that itself declares ``**settings``: the callee is summarised
  by its ``@c03`` contract variant (an ASSUMED summary that does not depend on the settings); ``BaseDriverLibrary._run`` then returns ``None``
  or a ``(message, status)`` pair of opaque values (fork).
"""
from __future__ import annotations

import ast

import z3

from . import contract as C
from .values import (BoundMethod, BuiltinV, DictObj, ExcObj, ListObj, PyObj, Ref, SetObj, SV, T, TBool, TCallable, TDict, TInt, TList, TOpt, TReal, TRec, TStr,
                     TVal, Unsupported, ValS, StrS, str_lit)

c03_bound_method = z3.Function("c03_bound_method", z3.IntSort(), StrS, ValS)
val_truth = z3.Function("val_truth", ValS, z3.BoolSort())
val_as_real = z3.Function("val_as_real", ValS, z3.RealSort())
val_as_int = z3.Function("val_as_int", ValS, z3.IntSort())
val_as_str = z3.Function("val_as_str", ValS, StrS)

# membership in a list of opaque values, as a function symbol (definition: lmem(n, E, f) <=> exists i. 0 <= i < n and E[i] = f).
# The model hands over, for every `in` / append / remove on such a list, the consequences of the definition that the proofs need
# (each one is proved from the definition in the lemma contract ListMembershipLemmas of contracts/c03_driver.py).
LARR = z3.ArraySort(z3.IntSort(), ValS)
c03_lmem = z3.Function("c03_lmem", z3.IntSort(), LARR, ValS, z3.BoolSort())

PB_BASE = "gemseo.algos._progress_bars.base_progress_bar.BaseProgressBar"
TESTER_CLASSES = ("gemseo.algos.stop_criteria.ObjectiveToleranceTester", "gemseo.algos.stop_criteria.DesignToleranceTester")
VARIANT = "c03"  # contract variant holding the assumed summaries applied by call_repo_model


def _on(ex):
    return getattr(ex.contract, "c03", False)


class TExc(T):
    """An exception instance of exactly the given class (heap object ``ExcObj``)."""

    def __init__(self, cls: str):
        self.cls = cls
        self.name = f"Exc[{cls}]"

    def sort(self):
        raise Unsupported("an exception instance cannot be stored in a symbolic container")

    def fresh(self, st, hint):
        return st.alloc(ExcObj(self.cls))


class TFieldOfSelf(T):
    """Parameter that IS the object held by a field of `self` (e.g. `problem` of BaseDOELibrary._run is `self._problem`: execute binds the driver
    to the problem before the run).  `fresh` returns the reference stored in that field of the already created receiver."""

    def __init__(self, cls: str, field: str):
        self.cls, self.field = cls, field
        self.name = f"FieldOfSelf[{cls}.{field}]"

    def sort(self):
        raise Unsupported("an object reference cannot be stored in a symbolic container")

    def fresh(self, st, hint):
        for i in sorted(st.heap.keys() if hasattr(st.heap, "keys") else [k for k, _ in st.heap.items()]):
            o = st.heap[i]
            if isinstance(o, PyObj) and o.cls == self.cls and self.field in o.fields:
                return o.fields[self.field]
        raise Unsupported(f"{self.name}: no receiver of class {self.cls} on the heap")


class ParExec03:
    """A CallableParallelExecution object built on a list of workers (opaque; only `.execute` is modelled, by a summary the contract module provides)."""

    def __init__(self, workers):
        self.workers = workers


PAREXEC_SUMMARY = {}  # "execute" -> summary(ex, parexec, args, kwargs, lineno), installed by contracts/c03_driver.py
CPE = "gemseo.core.parallel_execution.callable_parallel_execution.CallableParallelExecution"


def bound_method_term(obj_id: int, name: str):
    return c03_bound_method(z3.IntVal(obj_id), str_lit(name))


def _as_callable(ex, bm: BoundMethod):
    st = ex.st
    if not isinstance(bm.recv, Ref):
        raise Unsupported("bound method of a non-heap receiver used as a value")
    name = bm.finfo.node.name if bm.finfo is not None else bm.name
    term = bound_method_term(bm.recv.id, name)
    made = st.ghost.setdefault("c03_bound_methods", {})
    key = (bm.recv.id, name)
    if key not in made:
        for other in made.values():
            st.assume(other != term)  # bound methods are equal iff same object and same function
        made[key] = term
        ex.assumed.add("bound methods as values: c03_bound_method(object, name); values of distinct (object, name) pairs are distinct (CPython method equality)")
    return SV(term, TCallable)


def lmem_elems_are_members(n, E):
    i = z3.Int("i!lm")
    return z3.ForAll([i], z3.Implies(z3.And(0 <= i, i < n), c03_lmem(n, E, E[i])), patterns=[E[i]])


def _val_list(ex, ref):
    if isinstance(ref, Ref):
        o = ex.st.heap.get(ref.id)
        if isinstance(o, ListObj) and not o.is_empty_literal and o.t.sort() == ValS:
            return o
    return None


def _simple_test(t) -> bool:
    """A condition that only reads names / attributes (no call, no subscript): evaluating it has no effect and is not needed when both arms are dropped."""
    if isinstance(t, (ast.Name, ast.Constant)):
        return True
    if isinstance(t, ast.Attribute):
        return _simple_test(t.value)
    if isinstance(t, ast.BoolOp):
        return all(_simple_test(v) for v in t.values)
    if isinstance(t, ast.UnaryOp) and isinstance(t.op, ast.Not):
        return _simple_test(t.operand)
    if isinstance(t, ast.Compare):
        return _simple_test(t.left) and all(_simple_test(x) for x in t.comparators)
    return False


def _log_only(stmts, sinks: set) -> bool:
    """The statements only log: LOGGER.<m>(...) calls, construction of / calls on a MultiLineString sink, and if / for made of those."""
    for s in stmts:
        if isinstance(s, ast.Expr) and isinstance(s.value, ast.Call) and isinstance(s.value.func, ast.Attribute) and isinstance(s.value.func.value, ast.Name) \
                and (s.value.func.value.id == "LOGGER" or s.value.func.value.id in sinks):
            continue
        if isinstance(s, ast.Assign) and len(s.targets) == 1 and isinstance(s.targets[0], ast.Name) and isinstance(s.value, ast.Call) \
                and isinstance(s.value.func, ast.Name) and s.value.func.id == "MultiLineString" and not s.value.args:
            sinks.add(s.targets[0].id)
            continue
        if isinstance(s, ast.If) and _simple_test(s.test) and _log_only(s.body, sinks) and _log_only(s.orelse, sinks):
            continue
        if isinstance(s, ast.For) and isinstance(s.target, ast.Name) and not s.orelse and _log_only(s.body, sinks):
            continue
        return False
    return True


def _string_choice(node):
    """`if c: name = "a" else: name = "b"`: the name both arms bind to a string literal (None otherwise)."""
    arms = [node.body, node.orelse]
    if all(len(a) == 1 and isinstance(a[0], ast.Assign) and len(a[0].targets) == 1 and isinstance(a[0].targets[0], ast.Name)
           and isinstance(a[0].value, ast.Constant) and isinstance(a[0].value.value, str) for a in arms):
        if arms[0][0].targets[0].id == arms[1][0].targets[0].id:
            return arms[0][0].targets[0].id
    return None


class C03Models:
    # ------------------------------------------------------------------ dropped logging does not fork
    def skip_stmt(self, ex, node):
        if not _on(ex) or not isinstance(node, ast.If) or not _simple_test(node.test):
            return NotImplemented
        if (node.body or node.orelse) and _log_only(node.body, set()) and _log_only(node.orelse, set()):
            ex.assumed.add("an `if` whose arms only log (LOGGER.* calls, MultiLineString message construction) is skipped without evaluating its condition (DESIGN §2.2)")
            return True
        if not node.orelse and len(node.body) == 1 and isinstance(node.body[0], ast.Assign) and len(node.body[0].targets) == 1:
            tgt, val = node.body[0].targets[0], node.body[0].value
            if isinstance(tgt, ast.Attribute) and isinstance(tgt.value, ast.Name) and isinstance(val, ast.Name):
                # `if <reads only>: obj.attr = local`: afterwards obj.attr holds its old value or the local's - over-approximated by an arbitrary
                # value of the field's declared type (no fork)
                obj = ex.frame.env.get(tgt.value.id)
                o = ex.st.heap.get(obj.id) if isinstance(obj, Ref) else None
                attr = ex.mangled(tgt.attr)
                if isinstance(o, PyObj) and isinstance(o.fields.get(attr), SV):
                    cur = o.fields[attr]
                    o.fields[attr] = cur.ty.project(ex.st, ex.st.fresh_const(f"maybe_{attr}", cur.ty.sort()))
                    ex.assumed.add("`if c: obj.attr = v` with a scalar field: the field is over-approximated by an arbitrary value (no fork)")
                    return True
        name = _string_choice(node)
        if name is not None:
            # either string literal: an arbitrary string over-approximates the choice (the condition only reads names / attributes)
            ex.frame.env[name] = SV(ex.st.fresh_const("strchoice", StrS), TStr)
            return True
        return NotImplemented

    def ifexp(self, ex, node):
        """`OneLineLogging(..) if <simple condition> else nullcontext()`: both are null contexts here, no fork."""
        def null_ctx(e):
            return isinstance(e, ast.Call) and isinstance(e.func, ast.Name) and e.func.id in ("OneLineLogging", "nullcontext")

        if _on(ex) and _simple_test(node.test) and null_ctx(node.body) and null_ctx(node.orelse):
            ex.assumed.add("OneLineLogging(...) is a null context (it only swaps logging handlers)")
            return BuiltinV("nullcontext")
        return NotImplemented

    # ------------------------------------------------------------------ lists of opaque values: membership as a function symbol
    def contains(self, ex, cont, item, lineno):
        if not _on(ex):
            return NotImplemented
        o = _val_list(ex, cont)
        if o is None:
            return NotImplemented
        if isinstance(item, BoundMethod):
            item = _as_callable(ex, item)
        et = o.t.embed(ex.st, item)
        ex.st.assume(lmem_elems_are_members(o.n, o.elems))
        ex.assumed.add("lists of opaque values: `x in l` is c03_lmem(len, elements, x), defined as `exists i. 0 <= i < len and l[i] == x`; the consequences "
                       "handed over at `in` / append / remove are proved from this definition in ListMembershipLemmas")
        return SV(c03_lmem(o.n, o.elems, et), TBool)

    # ------------------------------------------------------------------ values
    def coerce(self, ex, v, t):
        if isinstance(v, BoundMethod) and _on(ex) and isinstance(t, T) and not isinstance(t, (TExc,)):
            try:
                if t.sort() == ValS:
                    return _as_callable(ex, v)
            except Unsupported:
                return NotImplemented
        if _on(ex) and isinstance(v, Ref) and isinstance(t, TOpt) and isinstance(ex.st.heap.get(v.id), (SetObj, ListObj, DictObj)):
            return SV(t.embed(ex.st, v), t)  # a container passed (by value: it is only read) for an optional parameter
        if _on(ex) and isinstance(v, SV) and v.ty.name == "Nd" and isinstance(t, TRec) and t.cls == "gemseo.algos.hashable_ndarray.HashableNdarray" \
                and list(t.fields) == ["wrapped_array"]:
            return t.mk(ex.st, wrapped_array=v)  # Database.store(x, ..) with a plain array: get_hashable_ndarray wraps it (content key)
        if _on(ex) and isinstance(v, SV) and v.ty == TVal:
            if t == TReal:
                return SV(val_as_real(v.term), TReal)
            if t == TBool:
                return SV(val_truth(v.term), TBool)
            if t == TInt:
                return SV(val_as_int(v.term), TInt)
            if t == TStr:
                return SV(val_as_str(v.term), TStr)
        return NotImplemented

    def value_attr(self, ex, obj, attr, lineno):
        if isinstance(obj, ParExec03) and attr == "execute":
            return BoundMethod(obj, None, "c03.parexec.execute")
        return NotImplemented

    def truth(self, ex, v):
        if _on(ex) and isinstance(v, SV) and v.ty == TVal:
            return val_truth(v.term)
        return NotImplemented

    def make_dict(self, ex, keys, vals):
        if not _on(ex) or any(not isinstance(k, str) for k in keys):
            return NotImplemented
        st = ex.st
        try:
            terms = [TVal.embed(st, _as_callable(ex, v) if isinstance(v, BoundMethod) else v) for v in vals]
        except Unsupported:
            return NotImplemented
        o = DictObj.empty(st, TStr, TVal, ordered=True)
        for k, t in zip(keys, terms):
            o.set(st, str_lit(k), t)
        o.ty = TDict(TStr, TVal, True)
        return st.alloc(o)

    # ------------------------------------------------------------------ dropped message construction
    def construct(self, ex, cv, args, kwargs, lineno):
        if not _on(ex):
            return NotImplemented
        short = cv.qualname.rsplit(".", 1)[-1]
        if cv.qualname == "gemseo.utils.string_tools.MultiLineString":
            return BuiltinV("LOGGER")  # a sink for log lines (DESIGN §2.2: message construction is dropped)
        if cv.qualname == "gemseo.utils.logging_tools.OneLineLogging":
            ex.assumed.add("OneLineLogging(...) is a null context (it only swaps logging handlers)")
            return BuiltinV("nullcontext")
        del short
        from . import source as S

        if cv.qualname == CPE and getattr(ex.contract, "c03_parallel", False):
            return ParExec03(args[0] if args else kwargs.get("workers"))
        if cv.qualname in TESTER_CLASSES and not args:
            # dataclass constructor (generated __init__): the keyword arguments become the fields, the others take their class-level defaults
            o = PyObj(cv.qualname, {})
            defaults = {"absolute": 0.0, "relative": 0.0, "n_last_iterations": 3}
            for k, t in C.class_schema(cv.qualname).items():
                o.fields[k] = ex.coerce(kwargs.get(k, defaults[k]), t)
            if set(kwargs) - set(o.fields):
                raise Unsupported(f"dataclass model of {cv.qualname}: unexpected field {set(kwargs) - set(o.fields)}")
            ex.assumed.add("tolerance testers are dataclasses: the generated __init__ stores its keyword arguments (defaults 0.0, 0.0, 3)")
            return ex.st.alloc(o)
        if S.is_subclass(cv.qualname, PB_BASE):
            # progress bars only read the problem and touch their own state (DESIGN §2.2): an object of the abstract base class
            o = PyObj(PB_BASE, {})
            ex.assumed.add("progress bar constructors only build the progress bar (no effect on the driver, the problem or the database)")
            return ex.st.alloc(o)
        return NotImplemented

    def call_builtin(self, ex, name, args, kwargs, lineno, node=None):
        if not _on(ex):
            return NotImplemented
        if name in ("contextlib.nullcontext", "nullcontext") and not args:
            return BuiltinV("nullcontext")
        return NotImplemented

    # ------------------------------------------------------------------ methods
    def call_method(self, ex, recv, name, args, kwargs, lineno):
        if isinstance(recv, ParExec03) and name == "c03.parexec.execute":
            return PAREXEC_SUMMARY["execute"](ex, recv, args, kwargs, lineno)
        if not _on(ex):
            return NotImplemented
        st = ex.st
        if isinstance(recv, SV) and recv.ty == TStr and name == "split":
            return TList(TStr).fresh(st, "split")
        if isinstance(recv, Ref):
            o = st.heap.get(recv.id)
            if isinstance(o, (ListObj, SetObj)) and name in ("append", "add", "remove", "discard") and len(args) == 1 and isinstance(args[0], BoundMethod):
                return ex.models.call_method(ex, recv, name, [_as_callable(ex, args[0])], kwargs, lineno)
            if isinstance(o, ListObj) and name == "append" and len(args) == 1 and not o.is_empty_literal and o.t.sort() == ValS:
                n0, e0 = o.n, o.elems
                et = o.t.embed(st, args[0])
                o.elems = z3.Store(e0, n0, et)
                o.n = n0 + 1
                ex.writeback(o)
                f = z3.Const("f!ap", ValS)
                st.assume(z3.ForAll([f], c03_lmem(o.n, o.elems, f) == z3.Or(c03_lmem(n0, e0, f), f == et), patterns=[c03_lmem(o.n, o.elems, f)]))
                st.assume(lmem_elems_are_members(n0, e0))
                return None
            if isinstance(o, ListObj) and name == "remove" and len(args) == 1:
                from .engine import PyRaise

                if o.is_empty_literal:
                    raise PyRaise("ValueError", lineno)
                if o.t.sort() != ValS:
                    return NotImplemented
                et = o.t.embed(st, args[0])
                i = z3.Int("i!rm")
                n0, e0 = o.n, o.elems
                st.assume(lmem_elems_are_members(n0, e0))
                if not st.decide(c03_lmem(n0, e0, et)):
                    raise PyRaise("ValueError", lineno)
                r = st.fresh_int("rmidx")
                st.assume(z3.And(0 <= r, r < n0, e0[r] == et))
                st.assume(z3.ForAll([i], z3.Implies(z3.And(0 <= i, i < r), e0[i] != et), patterns=[e0[i]]))
                # the new element array is a named constant defined point-wise (a lambda term cannot occur in a trigger)
                e1 = st.fresh_const("rm_el", LARR)
                st.assume(z3.ForAll([i], e1[i] == z3.If(i < r, e0[i], e0[i + 1]), patterns=[e1[i]]))
                o.elems = e1
                o.n = n0 - 1
                ex.writeback(o)
                f = z3.Const("f!rm", ValS)
                a, b = z3.Int("a!rm"), z3.Int("b!rm")
                dup_free = z3.ForAll([a, b], z3.Implies(z3.And(0 <= a, a < b, b < n0), e0[a] != e0[b]))
                # consequences of the definition of c03_lmem (ListMembershipLemmas): the other elements keep their membership,
                # and the removed value is gone when the list was duplicate-free
                st.assume(z3.ForAll([f], z3.Implies(f != et, c03_lmem(o.n, o.elems, f) == c03_lmem(n0, e0, f)), patterns=[c03_lmem(o.n, o.elems, f)]))
                st.assume(z3.Implies(dup_free, z3.Not(c03_lmem(o.n, o.elems, et))))
                return None
        return NotImplemented

    # ------------------------------------------------------------------ assumed summaries of callees taking **settings
    def call_repo_model(self, ex, fi, args, kwargs, lineno):
        if not _on(ex):
            return NotImplemented
        ct = C.all_contracts().get(f"{fi.qualname}@{VARIANT}")
        if ct is None:
            return NotImplemented
        kw = {k: v for k, v in kwargs.items() if k != "**"}
        if "**" in kwargs:
            ex.assumed.add(f"{fi.qualname}(**settings): summarised by its assumed @{VARIANT} contract, which does not depend on the settings")
        r = ex.apply_contract(ct, fi, args, kw, lineno)
        if getattr(ct, "c03_returns_optional_pair", False) and ex.st.choose(2) == 1:
            st = ex.st
            return (SV(st.fresh_const("run_message", ValS), TVal), SV(st.fresh_const("run_status", ValS), TVal))
        return r
