"""Native validation of the ASSUMED h5py contracts of pyvc/plug_hdf.py (run with /venv/bin/python).

Each check exercises one assumption (A1..A14, same numbering as in the plugin docstring) on a real
h5py file created in a temporary directory (removed afterwards).  Exit 0 iff all hold.
"""
from __future__ import annotations

import shutil
import sys
import tempfile
from pathlib import Path

import h5py
import numpy as np
from numpy import array, bytes_, float64

FAIL = []


def check(name, cond, info=""):
    print(("ok   " if cond else "FAIL ") + name + (f"   [{info}]" if info and not cond else ""))
    if not cond:
        FAIL.append(name)


def raises(exc, fn):
    try:
        fn()
    except exc:
        return True
    except Exception as e:  # noqa: BLE001
        print("   (raised", type(e).__name__, e, ")")
        return False
    return False


def main():
    d = Path(tempfile.mkdtemp(prefix="h5model."))
    try:
        p = d / "f.h5"
        # A1 mode "w" truncates, mode "a" keeps the content / creates the file
        with h5py.File(p, "w") as f:
            f.require_group("x").create_dataset("0", data=array([1.0, 2.0]))
        with h5py.File(p, "a") as f:
            check("A1 File(..,'a') keeps the content", "x" in f and "0" in f["x"])
        with h5py.File(p, "w") as f:
            check("A1 File(..,'w') truncates", len(f) == 0)
        with h5py.File(d / "new.h5", "a") as f:
            check("A1 File(..,'a') creates an empty file", len(f) == 0)
        with h5py.File(p, "w") as f:
            # A2 require_group: creates when absent, returns the existing group otherwise; nested path
            g = f.require_group("x")
            check("A2 require_group creates an empty group", "x" in f and len(g) == 0)
            g.create_dataset("0", data=array([1.0]))
            check("A2 require_group returns the existing group", len(f.require_group("x")) == 1)
            n = f.require_group("a/b")
            check("A2 require_group with a node path", "a/b" in f and len(n) == 0)
            # A3 __contains__ / len of a group = its direct members (datasets and sub-groups)
            v = f.require_group("v")
            v.create_dataset("0", data=array([1.0]), maxshape=(None,), dtype=float64)
            v.require_group("arr_0")
            check("A3 name in group (dataset and sub-group), len(group)", "0" in v and "arr_0" in v and "1" not in v and len(v) == 2)
            # A4 create_dataset stores the data (content equality on read), ValueError when the name exists
            x = f["x"]
            x.create_dataset("1", data=array([3.0, 4.5]))
            check("A4 create_dataset stores the data", np.array_equal(array(x["1"]), array([3.0, 4.5])) and len(x) == 2)
            check("A4 create_dataset on an existing name raises ValueError", raises(ValueError, lambda: x.create_dataset("1", data=array([0.0]))))
            # A5 getitem: KeyError when absent
            check("A5 group[name] raises KeyError when absent", raises(KeyError, lambda: x["7"]))
            # A6 string datasets: names written as bytes are read back as bytes whose decode() is the name, in order
            k = f.require_group("k")
            names = ["f", "g", "@f", "a b", "-x[0]"]  # ASCII names (a non-ASCII name makes numpy.array(.., dtype=bytes_) raise UnicodeEncodeError)
            k.create_dataset("0", data=array(names, dtype=bytes_), maxshape=(None,), dtype=h5py.string_dtype())
            check("A6 names round trip through array(.., dtype=bytes_) / string_dtype / decode", [o.decode() for o in k["0"]] == names and len(k["0"]) == len(names))
            check("A6 (limit) a non-ASCII name cannot be converted by array(.., dtype=bytes_)", raises(UnicodeEncodeError, lambda: array(["é"], dtype=bytes_)))
            # A6b empty list of names
            ok = True
            try:
                k.create_dataset("1", data=array([], dtype=bytes_), maxshape=(None,), dtype=h5py.string_dtype())
                ok = len(k["1"]) == 0 and [o.decode() for o in k["1"]] == []
            except Exception as e:  # noqa: BLE001
                ok = False
                print("   empty names:", type(e).__name__, e)
            check("A6b create_dataset with an empty list of names gives an empty resizable dataset", ok)
            # A7 resize + offset-slice assignment appends, earlier elements kept
            ds = k["0"]
            off = len(ds)
            new = array(["h", "zz"], dtype=bytes_)
            ds.resize((off + len(new),))
            ds[off:] = new
            check("A7 resize + ds[offset:] = new appends (strings)", [o.decode() for o in k["0"]] == names + ["h", "zz"])
            sd = v["0"]
            off = len(sd)
            sd.resize((off + 2,))
            sd[off:] = array([7.0, 8.0])
            check("A7 resize + ds[offset:] = new appends (floats)", list(sd) == [1.0, 7.0, 8.0] and len(sd) == 3)
            # A8 assignment of a wrong-length block fails (TypeError: can't broadcast)
            sd.resize((5,))
            check("A8 ds[offset:] = block of another length raises TypeError", raises(TypeError, lambda: sd.__setitem__(slice(3, None), array([1.0, 2.0, 3.0]))))
            # A9 sub-group access: group[name] returns the sub-group, create_dataset in it, name in sub-group, items()
            a = v["arr_0"]
            a.create_dataset("2", data=array([[1.0, 2.0]]), dtype=float64)
            a.create_dataset("0", data=array([5.0]), dtype=float64)
            its = {kk: array(vv) for kk, vv in v["arr_0"].items()}
            check("A9 sub-group items() lists exactly its datasets", set(its) == {"0", "2"} and np.array_equal(its["2"], array([[1.0, 2.0]])) and "2" in a and "1" not in a)
            check("A9 create_dataset in a sub-group on an existing name raises ValueError", raises(ValueError, lambda: a.create_dataset("2", data=array([0.0]))))
            # A10 require_group on a name that is a dataset raises TypeError
            check("A10 require_group on a dataset name raises TypeError", raises(TypeError, lambda: v.require_group("0")))
            # A11 scalars dataset: iteration yields the values in order, equal to the stored floats
            v.create_dataset("9", data=array(array([0.1, -2.0, 3e300], copy=False).real, dtype=float64), maxshape=(None,), dtype=float64)
            check("A11 iteration over a float dataset yields the stored values in order", [float(t) for t in v["9"]] == [0.1, -2.0, 3e300])
            # A12 array datasets of any shape round trip through array(dataset)
            for arr in (array([1.5]), array([[1.0, 2.0], [3.0, 4.0]]), array([])):
                nm = str(len(x))
                x.create_dataset(nm, data=arr)
                back = array(x[nm])
                check(f"A12 array round trip shape {arr.shape}", back.shape == arr.shape and np.array_equal(back, arr))
            # A13 str(int)/int(str) and the 'arr_' prefix: injective naming
            check("A13 int(str(i)) == i, 'arr_'+str(i) is never a decimal string", all(int(str(i)) == i and not f"arr_{i}".isdigit() for i in range(2000)))
        # A14 the content written inside `with` is what a later open reads (flush on close)
        with h5py.File(p) as f:
            check("A14 content persists after close; default mode is read-only", [o.decode() for o in f["k"]["0"]] == names + ["h", "zz"] and f.mode == "r")
        # A15 get_hdf5_group(h5file, '') is the file itself; with a node path it is the node group
        sys.path.insert(0, "/repo/src")
        from gemseo.utils.hdf5 import get_hdf5_group

        with h5py.File(p) as f:
            check("A15 get_hdf5_group root / node", get_hdf5_group(f, "") is f and get_hdf5_group(f, "a/b").name == "/a/b" and raises(KeyError, lambda: get_hdf5_group(f, "nope")))
        # A16 dataset handles and attributes; group.items() enumerates (name, handle)
        with h5py.File(d / "c.h5", "w") as f:
            g = f.require_group("node/1/outputs")
            h = g.create_dataset("y", data=array([1.0, 2.0]))
            h.attrs.create("sparse", True)
            h.attrs.create("shape", (2, 3))
            g.create_dataset("z", data=array([3.0]))
            its = dict(g.items())
            check("A16 create_dataset returns the handle; attrs.create/get; items() enumerates the datasets",
                  set(its) == {"y", "z"} and bool(its["y"].attrs.get("sparse")) and its["z"].attrs.get("sparse") is None
                  and tuple(its["y"].attrs.get("shape")) == (2, 3) and np.array_equal(array(its["y"]), array([1.0, 2.0])))
        # A17 scalar datasets, group.get, and the design-space layout helpers
        with h5py.File(d / "ds.h5", "w") as f:
            g = f.require_group("design_space").require_group("x")
            g.create_dataset("size", data=3)
            g.create_dataset("var_type", data=array(["float"] * 3, dtype="bytes"))
            check("A17 dataset[()] of a scalar dataset is the stored scalar; group.get(name) is the member or None; array([t]*n, dtype='bytes')[0].decode() == t",
                  g["size"][()] == 3 and g.get("value") is None and g.get("size") is not None and array(g.get("var_type"))[0].decode() == "float")
        # S1-S4 scipy sparse arrays: tocsr() keeps the matrix, a CSR array is its triple, csr_array((d, i, p), s) has these components,
        # hasattr(v, 'indptr') holds for CSR, CSC and BSR (so it does not identify CSR)
        import scipy.sparse as sp

        m = array([[1.0, 0.0, 0.0], [2.0, 3.0, 0.0], [4.0, 5.0, 6.0], [0.0, 0.0, 7.0]])
        ok1 = ok3 = True
        for mk in (sp.csr_array, sp.csc_array, sp.coo_array, sp.lil_array, sp.dok_array, sp.dia_array, lambda a: sp.bsr_array(a, blocksize=(1, 1))):
            v = mk(m)
            t = v.tocsr()
            ok1 &= t.format == "csr" and np.array_equal(t.toarray(), v.toarray())
            r = sp.csr_array((t.data, t.indices, t.indptr), t.shape)
            ok3 &= r.format == "csr" and np.array_equal(r.data, t.data) and np.array_equal(r.indices, t.indices) and np.array_equal(r.indptr, t.indptr) \
                and r.shape == t.shape and np.array_equal(r.toarray(), v.toarray())
        check("S1 tocsr() is a CSR array denoting the same matrix (7 formats)", ok1)
        check("S2/S3 csr_array((data, indices, indptr), shape) has these components and denotes the matrix of the triple", ok3)
        c = sp.csr_array(m)
        check("S1 tocsr() of a CSR array is the array itself", c.tocsr() is c)
        check("S4 hasattr(v, 'indptr') holds for CSR, CSC, BSR and not for COO/LIL/DOK/DIA",
              all(hasattr(f_(m), "indptr") for f_ in (sp.csr_array, sp.csc_array, sp.bsr_array)) and not any(hasattr(f_(m), "indptr") for f_ in (sp.coo_array, sp.lil_array, sp.dok_array, sp.dia_array)))
        t = sp.csr_array(array([[1.0, 0.0, 2.0, 0.0], [0.0, 3.0, 0.0, 0.0]]))  # trailing all-zero column
        inferred = sp.csr_array((t.data, t.indices, t.indptr))
        check("S5 csr_array((data, indices, indptr)) without shape infers (len(indptr) - 1, max(indices) + 1)",
              inferred.shape == (len(t.indptr) - 1, int(t.indices.max()) + 1) == (2, 3) and inferred.shape != t.shape)
        z = sp.csr_array((2, 3))
        check("S5 ... and raises ValueError when indices is empty (all-zero matrix)", raises(ValueError, lambda: sp.csr_array((z.data, z.indices, z.indptr))))
        cc = sp.csc_array(m[:3])
        wrong = sp.csr_array((cc.data, cc.indices, cc.indptr), cc.shape)
        check("S2 (sanity) the triple of a CSC array read as CSR denotes ANOTHER matrix (the transpose)", not np.array_equal(wrong.toarray(), cc.toarray()) and np.array_equal(wrong.toarray(), cc.toarray().T))
        # ---- open handles / absent file (pyvc/plug_c12.py, backup clauses)
        import os

        bp = f"{d}/backup_model.h5"
        with h5py.File(bp, "a") as f:
            check("C12-a File(path, 'a') on an ABSENT file creates it with no member", list(f.keys()) == [] and os.path.exists(bp))
        try:
            with h5py.File(bp, "a") as f:
                f.require_group("x")
                raise KeyError("boom")
        except KeyError:
            pass
        check("C12-b leaving the `with` block by an exception closes the handle", not bool(f.id.valid))
        with h5py.File(bp) as f:
            check("C12-c what the closed writer left is what the next open reads", list(f.keys()) == ["x"])
            check("C12-d the file cannot be opened for appending while a read handle is open (why the backup is loaded BEFORE the listener is registered)",
                  raises(OSError, lambda: h5py.File(bp, "a")))
    finally:
        shutil.rmtree(d, ignore_errors=True)
    print("FAILED:" if FAIL else "all h5py model assumptions validated", FAIL or "")
    return 1 if FAIL else 0


if __name__ == "__main__":
    sys.exit(main())
