import sys, importlib; sys.path.insert(0,'/verif')
import z3
from pyvc.runner import generate
from pyvc.solve import discharge
import contracts
prop, only, pat = sys.argv[1], [sys.argv[2]], sys.argv[3]
for m in contracts.PROPS[prop]["modules"]: importlib.import_module(m)
reps = generate(prop, only)
for r in reps:
    print(r.target, r.status, r.reason[:3000])
    obs=[o for o in r.obligations if pat in o.name]
    discharge(obs, 20000)
    for o in obs:
        print("==", o.name, o.result, o.path)
        if o.result!='unsat':
            for h in o.hyps[-int(sys.argv[4]) if len(sys.argv)>4 else -12:]: print("   H:", str(h)[:int(sys.argv[6]) if len(sys.argv)>6 else 400])
            print("   G:", str(o.goal)[:1500])
            print("   M:", o.model[:int(sys.argv[5]) if len(sys.argv)>5 else 1500])
