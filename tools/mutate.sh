#!/bin/sh
# tools/mutate.sh <prop> <file-relative-to-src/gemseo> <python-regex> <replacement> [--only fn]
# Applies one textual mutation to a scratch copy of the sources (outside /repo and /verif), runs the check on it, removes the copy.
set -e
PROP=$1; FILE=$2; PAT=$3; REP=$4; shift 4
D=$(mktemp -d /tmp/pyvc_mut.XXXXXX)
mkdir -p $D/src && cp -r /repo/src/gemseo $D/src/gemseo
python3 - "$D/src/gemseo/$FILE" "$PAT" "$REP" <<'PY'
import re, sys
p, pat, rep = sys.argv[1:4]
s = open(p).read()
n = len(re.findall(pat, s, flags=re.M))
assert n == 1, f"pattern matches {n} times"
open(p, "w").write(re.sub(pat, rep, s, flags=re.M))
PY
cd /verif
set +e
PYVC_REPO=$D PYVC_NO_EVIDENCE=1 ./check $PROP "$@" | grep -v "^  \[ok\]\|^  \[trusted\]" | cut -c1-220
RC=$?
rm -rf $D
