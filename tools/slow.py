"""tools/slow.py PROP substr: list the slowest obligations of the functions matching substr."""
import importlib, sys
sys.path.insert(0, "/verif")
from pyvc.runner import generate
from pyvc.solve import discharge
import contracts
prop, only = sys.argv[1], [sys.argv[2]]
for m in contracts.PROPS[prop]["modules"]:
    importlib.import_module(m)
reps = generate(prop, only)
obs = [o for r in reps for o in r.obligations]
discharge(obs, 30000)
for o in sorted(obs, key=lambda o: -o.seconds)[:8]:
    print(round(o.seconds, 2), o.result, o.name)
