#!/bin/sh
# tools/import_seeds.sh <prop> <worktree> [tag] : copy the seeded changes a sub-agent left in <worktree>/seeded into /verif/seeded and run them
P=$1; W=$2; TAG=${3:-r2}
for d in $W/seeded/*/; do
  n=$(basename $d)
  [ -f $d/patch.diff ] && [ -f $d/demo.py ] && [ -f $d/meta.json ] || { echo "$n: incomplete"; continue; }
  T=/verif/seeded/$P-$TAG-$n
  mkdir -p $T && cp $d/patch.diff $d/demo.py $d/meta.json $T/
  cd /verif && SEED_SCRATCH=1 tools/run_seed.sh seeded/$P-$TAG-$n
done
