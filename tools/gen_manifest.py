"""Regenerate MANIFEST.json from contracts.PROPS (claimed) + contracts.NOT_APPLICABLE."""
import json
import sys
from pathlib import Path

ROOT = Path(__file__).resolve().parent.parent
sys.path.insert(0, str(ROOT))
import contracts  # noqa: E402

props = [json.loads(l) for l in (ROOT / "properties.jsonl").read_text().splitlines() if l.strip()]
ids = [p["id"] for p in props]
checks = []
for pid in ids:
    if pid not in contracts.PROPS:
        continue
    info = contracts.PROPS[pid]
    checks.append({
        "property_id": pid,
        "quick_cmd": f"./check {pid} --tier quick",
        "thorough_cmd": f"./check {pid} --tier thorough",
        "evidence_file": f"evidence/{pid}.json",
        "replay_cmd_template": f"./check {pid} --replay {{path}}",
        "engine": "pyvc",
        "level_claimed": {"category": "proof", "text": info["level_text"], "design_ref": info.get("design_ref", "DESIGN.md §4")},
        "level_note": info["level_note"],
        "technique": info.get("technique", "contract-based deductive verification: sidecar contracts on the real functions, VCs generated from the real AST on every run (pyvc), discharged by z3/cvc5"),
    })
na = [{"property_id": pid, "reason": contracts.NOT_APPLICABLE[pid]} for pid in ids if pid not in contracts.PROPS]
missing = [pid for pid in ids if pid not in contracts.PROPS and pid not in contracts.NOT_APPLICABLE]
assert not missing, missing
manifest = {
    "version": 1,
    "setup_cmd": "./setup.sh",
    "hooks": {
        "guard": "GEMSEO_VERIF",
        "enable": "no hooks: contracts are sidecar files under /verif/contracts and the real source is read as text by the checks; GEMSEO_VERIF is reserved and unused",
        "baseline_off_cmd": "cd /repo && /venv/bin/python -m pytest -ra -q -p no:cacheprovider --timeout=900 --continue-on-collection-errors",
        "source_commits": [],
        "add_only": True,
    },
    "engines": [{"name": "pyvc", "path": "pyvc/", "serves_properties": [c["property_id"] for c in checks],
                 "kind_free_text": "deductive verifier built here: symbolic execution of the real function ASTs against sidecar contracts (pre/post/frame/raises/loop invariants), per-obligation SMT queries (z3 5.1, cvc5 fallback)"}],
    "checks": checks,
    "not_applicable": na,
    "notes": "See DESIGN.md. exit 0 held / 1 VIOLATION / 2 undecided / 3 checker error. Known findings: known_findings.json.",
}
(ROOT / "MANIFEST.json").write_text(json.dumps(manifest, indent=1) + "\n")
print("claimed:", [c["property_id"] for c in checks], "n/a:", [x["property_id"] for x in na])
