#!/bin/sh
# tools/run_seed.sh <seeded-dir>  : confirm the demo (fails with the change, passes without), run the property's check with the
# change applied to /repo, undo the change. Prints one summary line.
D=$1
# one writer at a time on /repo's working tree (seed windows of concurrent authors, fix commits)
exec 9>/tmp/repo_worktree.lock
flock 9
P=$(python3 -c "import json;print(json.load(open('$D/meta.json'))['property'])")
cd /repo
git diff --quiet || { echo "/repo has local changes"; exit 9; }
/venv/bin/python /verif/$D/demo.py >/tmp/seed_demo0.log 2>&1; D0=$?
git apply /verif/$D/patch.diff || { echo "$D: patch does not apply"; exit 8; }
/venv/bin/python /verif/$D/demo.py >/tmp/seed_demo1.log 2>&1; D1=$?
cd /verif
PYVC_NO_EVIDENCE=1 ./check $P > /tmp/seed_check.log 2>&1; RC=$?
git -C /repo checkout -- .
V=$(grep -c "^VIOLATION" /tmp/seed_check.log)
W=$(grep "^VIOLATION" /tmp/seed_check.log | grep -vc "no-failing-input-found")
echo "$D: demo(no change)=$D0 demo(with change)=$D1 check=$RC violations=$V with_witness=$W :: $(grep '^VIOLATION' /tmp/seed_check.log | head -2 | sed 's/.*obligation=//' | tr '\n' ';' | cut -c1-300)"
