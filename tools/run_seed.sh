#!/bin/sh
# tools/run_seed.sh <seeded-dir> [prop]  : confirm the demo (fails with the change, passes without), run the property's check
#   default       : the change is applied to /repo's working tree (git apply) and undone afterwards (git checkout -- .)
#   SEED_SCRATCH=1: the change is applied to a scratch copy of /repo/src (mktemp, removed afterwards) and the check reads that
#                   copy (PYVC_REPO) - used while other authors' checks are reading /repo
D=$1
P=${2:-$(python3 -c "import json;print(json.load(open('$D/meta.json'))['property'])")}
T=$(mktemp -d /tmp/pyvc_seed.XXXXXX)
if [ -n "$SEED_SCRATCH" ]; then
  R=$T/repo; mkdir -p $R && cp -r /repo/src $R/src
  ( cd $R && git init -q . >/dev/null 2>&1 )
  PYTHONPATH=/repo/src /venv/bin/python /verif/$D/demo.py >$T/demo0.log 2>&1; D0=$?
  ( cd $R && git apply /verif/$D/patch.diff ) || { echo "$D: patch does not apply"; rm -rf $T; exit 8; }
  PYTHONPATH=$R/src /venv/bin/python /verif/$D/demo.py >$T/demo1.log 2>&1; D1=$?
  cd /verif
  PYVC_REPO=$R PYTHONPATH=$R/src PYVC_NO_EVIDENCE=1 ./check $P > $T/check.log 2>&1; RC=$?
else
  # one writer at a time on /repo's working tree (seed windows of concurrent authors, fix commits)
  exec 9>/tmp/repo_worktree.lock
  flock 9
  cd /repo
  git diff --quiet || { echo "/repo has local changes"; exit 9; }
  /venv/bin/python /verif/$D/demo.py >$T/demo0.log 2>&1; D0=$?
  git apply /verif/$D/patch.diff || { echo "$D: patch does not apply"; exit 8; }
  /venv/bin/python /verif/$D/demo.py >$T/demo1.log 2>&1; D1=$?
  cd /verif
  PYVC_NO_EVIDENCE=1 ./check $P > $T/check.log 2>&1; RC=$?
  git -C /repo checkout -- .
fi
V=$(grep -c "^VIOLATION" $T/check.log)
W=$(grep "^VIOLATION" $T/check.log | grep -vc "no-failing-input-found")
LINE="$D [$P]: demo(no change)=$D0 demo(with change)=$D1 check=$RC violations=$V with_witness=$W :: $(grep '^VIOLATION' $T/check.log | head -2 | sed 's/.*obligation=//' | tr '\n' ';' | cut -c1-300)"
echo "$LINE"
[ "$RC" != 0 ] && [ "$RC" != 1 ] && tail -5 $T/check.log
rm -rf $T
