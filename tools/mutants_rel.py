"""Mutation run *relative to the baseline*: for a property whose check already reports violations on the
pinned tree (genuine defects awaiting triage), a mutant counts as caught only if it makes a clause fail that
does not fail on the unchanged tree.  Usage: tools/mutants_rel.py PROP [-k substring]"""
import concurrent.futures as cf
import os
import re
import shutil
import subprocess
import sys
import tempfile
from pathlib import Path

ROOT = Path(__file__).resolve().parent.parent
sys.path.insert(0, str(ROOT))
from tools.mutant_list import MUTANTS  # noqa: E402


def labels(out):
    s = set()
    for line in out.splitlines():
        if line.startswith("VIOLATION"):
            m = re.search(r"obligation=(\S+?)@L\d+#\d+", line)
            s.add(m.group(1) if m else line)
        elif line.startswith(("UNDECIDED", "CHECKER-ERROR")):
            s.add(line[:150])
    return s


def check(prop, env):
    r = subprocess.run([str(ROOT / "check"), prop], capture_output=True, text=True, env=env, cwd=ROOT)
    if "is not claimed" in r.stdout or r.returncode == 3 and not labels(r.stdout):
        return 3, {"CHECKER-ERROR " + r.stdout.strip()[-120:]}
    return r.returncode, labels(r.stdout)


def main():
    args = sys.argv[1:]
    key = None
    if "-k" in args:
        key = args[args.index("-k") + 1]
        args = [a for a in args if a not in ("-k", key)]
    prop = args[0]
    base_rc, base = check(prop, dict(os.environ, PYVC_NO_EVIDENCE="1"))
    print(f"baseline: exit {base_rc}, failing clauses: {sorted(base)}")
    if base_rc == 3:
        return 3

    def run(m):
        _, rel, pat, rep = m[:4]
        d = tempfile.mkdtemp(prefix="pyvc_mut.")
        try:
            shutil.copytree("/repo/src/gemseo", f"{d}/src/gemseo")
            p = Path(d) / "src/gemseo" / rel
            s = p.read_text()
            n = len(re.findall(pat, s, flags=re.M))
            if n != 1:
                return m, "BAD-PATTERN", f"matches {n} times"
            p.write_text(re.sub(pat, rep.replace("\\", "\\\\"), s, flags=re.M))
            _, lab = check(prop, dict(os.environ, PYVC_REPO=d, PYVC_NO_EVIDENCE="1", PYTHONPATH=f"{d}/src"))
            new = lab - base
            viol = [x for x in new if not x.startswith(("UNDECIDED", "CHECKER"))]
            st = "caught" if viol else ("undecided" if new else "MISSED")
            return m, st, "; ".join(sorted(x.split(prop + "/")[-1] for x in new))[:260]
        finally:
            shutil.rmtree(d, ignore_errors=True)

    ms = [m for m in MUTANTS if m[0] == prop and (key is None or key in m[1] or key in m[2])]
    bad = 0
    with cf.ThreadPoolExecutor(max_workers=6) as ex:
        for m, st, info in ex.map(run, ms):
            bad += st != "caught"
            print(f"{st:12s} {m[1]}: {m[2][:70]!r} -> {m[3][:40]!r}\n               {info}")
    print(f"{len(ms) - bad}/{len(ms)} mutants caught (relative to the baseline)")
    return 1 if bad else 0


if __name__ == "__main__":
    sys.exit(main())
